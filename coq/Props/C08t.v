(* C08, first clause -- "SIR_pair_based with a pure initial condition equals the exact master-equation expectation of
   S, I, R on every tree (also with edge and node weights)" -- beyond the single edge of Props/C08.v.
   Statements only; proofs in Proofs/C08tG.v (graph-independent algebra), C08tS.v (joint states, initial conditions),
   C08tT.v (tangency, every graph), C08tR.v (closure residual = sum of minors), C08tA.v (cut covers), C08tO.v (unclosed
   moment equations, every graph), C08tF.v (tree_okb, assembled statement), C08tP3.v / C08tP4.v (trees with 3 and 4
   nodes, by evaluation), C08tE.v (single edge), C08tC.v.

   SETTING (Model/Master.v).  p : state -> Q is a (signed) measure on the 3^n joint states; the exact process is the
   LINEAR system dp/dt = master_rhs p, written for any graph, any direction-dependent transmission rates
   tr u v = trans_rate_fxn(u, v) and node-dependent recovery rates rc u = rec_rate_fxn(u): "with edge and node weights"
   is the general case throughout (tr, rc are universally quantified functions).  The pair-based right-hand side is
   g_dSIR_pair_based, REGENERATED from EoN/analytic.py on every run (Gen/Rhs2.v), or the model dSIR_pair_based that
   C08_generated_SIR_pair_based proves equal to it.  `marginals p` is the state vector of the pair-based system
   (X_i, Y_i, <X_i Y_j>, <X_i X_j>; pair cells off the edges 0) computed from p.

   ARGUMENT (Sharkey, Kiss, Wilkinson, Simon 2015), with no real analysis.  For a cut at position j with side U let
   M_{j,U} = { p : all 2 x 2 minors `minor U p s1 s2` on the slice s_j = S vanish } (given j susceptible, the U side and
   the rest are independent).
     (1) every pure initial condition (point mass `delta s0`), and every product-form one, lies in every M_{j,U}
         [C08t_pure_in_M, C08t_product_in_M; every n];
     (2) TANGENCY, for EVERY graph and every cut (j, U): along the master equation the derivative of each minor
         (product rule, `dminor`) is an explicit linear combination, with coefficients independent of p, of minors of the
         same slice [C08t_tangent_eq]; hence it vanishes on M_{j,U} [C08t_tangent];
     (3) on M (and p >= 0) the pair-based right-hand side at the marginals of p equals the marginals of master_rhs p:
         (3a) the marginals of master_rhs p obey the UNCLOSED moment system open_rhs p (true triples instead of closure
              products) -- for every p, EVERY loop-free graph [C08t_open_general: summation by parts over the joint
              states]; proved a second time by evaluation + ring on the edge, path-3, path-4, 3-star;
         (3b) where the closure holds at p, _dSIR_pair_based_ at the marginals equals open_rhs p [C08t_closed_eq_open,
              every graph];
         (3c) the closure follows from M: closure residual = a sum of minors [C08t_residual_eq, every n, every cut]
              and p >= 0 handles <S_j> = 0, where the code multiplies by 0 [C08t_closure_of_product, C08t_closure_on_M];
              (3b) + (3c) for every graph whose paths are separated by listed cuts: C08t_closed_eq_open_on_M.
   C08t_tree_pure_ic_partial assembles (1) (2) (3) for EVERY graph accepted by the executable check tree_okb (index map
   as the callers build it, no self-loop, and for every vertex j the branches of G - j, computed by a bounded search, are
   cuts separating every two neighbours of j): every tree is such a graph, a graph with a cycle is not.
   C08t_path3_pure_ic_partial, C08t_path4_..., C08t_star3_... are the same for the trees with 3 and 4 nodes with the
   cuts written out (proved independently, (3a) and (3c) by evaluation).

   `_partial`, what is missing for the clause as stated:
     * the lift from these identities to the returned CURVES: along the solution p(t) of the (linear) master equation
       the minors satisfy y' = C y, y(0) = 0, hence vanish (uniqueness for linear ODEs); p(t) >= 0; so the marginals of
       p(t) solve the pair-based system from the same initial vector, and SIR_pair_based returns that solution up to
       solver tolerance (Picard-Lindeloef).  Cited, as everywhere in this development; harness/c08t.py integrates both
       sides and checks the conclusion and every intermediate identity numerically;
     * (closed since: Props/C08tree.v proves that tree_okb accepts EXACTLY the forests, so every theorem below holds for
       every tree without an acceptance hypothesis; C08t_nonvacuous_tree_check and harness/c08t.py still evaluate the
       check on concrete trees and on graphs with a cycle.) *)
From EoNV Require Import Prelude Graph Vec VecP Rhs2D Rhs2DP Rhs2 Rhs2GenP Master C08tG C08tS C08tT C08tR C08tA C08tO C08tF C08tE C08tP3 C08tP4 C08tC.

(* ---------------- the general master equation is the one the single-edge theorem used ---------------- *)
Theorem C08t_master_vec_single_edge : forall t01 t10 g0 g1 pSS pSI pSR pIS pII pIR pRS pRI pRR,
  let p := [pSS; pSI; pSR; pIS; pII; pIR; pRS; pRI; pRR] in
  veq (master_vec edge_graph [0%N; 1%N] edge_idx (edge_tr t01 t10) (edge_rc g0 g1) p) (master1 t01 t10 g0 g1 p).
Proof. exact master_vec_edge. Qed.
Theorem C08t_marginals_single_edge : forall pSS pSI pSR pIS pII pIR pRS pRI pRR,
  let p := [pSS; pSI; pSR; pIS; pII; pIR; pRS; pRI; pRR] in
  veq (marginals edge_graph [0%N; 1%N] (pfun p)) (marginals1 p).
Proof. exact marginals_edge. Qed.
Theorem C08t_single_edge_exact : forall t01 t10 g0 g1 (p : state -> Q) t,
  veq (dSIR_pair_based edge_graph [0%N; 1%N] edge_idx (edge_tr t01 t10) (edge_rc g0 g1) (marginals edge_graph [0%N; 1%N] p) t)
      (marginals edge_graph [0%N; 1%N] (master_rhs edge_graph [0%N; 1%N] edge_idx (edge_tr t01 t10) (edge_rc g0 g1) p)).
Proof. exact edge_exact_general. Qed.

(* ---------------- (1) initial conditions, every n, every cut ---------------- *)
Theorem C08t_pure_in_M : forall nodelist j U s0, length s0 = nN nodelist ->
  nonneg nodelist (delta s0) /\ inM nodelist j U (delta s0).
Proof. exact pure_in_M. Qed.
Theorem C08t_product_in_M : forall nodelist j U (w : nat -> N -> Q), (forall i a, 0 <= w i a) ->
  nonneg nodelist (product nodelist w) /\ inM nodelist j U (product nodelist w).
Proof. exact product_form_in_M. Qed.

(* ---------------- (2) tangency: every graph, every cut vertex ---------------- *)
Theorem C08t_tangent_eq : forall G nodelist idx tr rc, pb_wfb G nodelist idx = true ->
  forall j U, (j < nN nodelist)%nat -> sepb G nodelist j U = true ->
  forall p s1 s2, In s1 (slice nodelist j) -> In s2 (slice nodelist j) ->
  dminor nodelist U p (master_rhs G nodelist idx tr rc p) s1 s2 == dminor_expand G nodelist idx tr rc U p s1 s2.
Proof. exact tangent_eq. Qed.
Theorem C08t_tangent : forall G nodelist idx tr rc, pb_wfb G nodelist idx = true ->
  forall j U, (j < nN nodelist)%nat -> sepb G nodelist j U = true ->
  forall p s1 s2, inM nodelist j U p -> In s1 (slice nodelist j) -> In s2 (slice nodelist j) ->
  dminor nodelist U p (master_rhs G nodelist idx tr rc p) s1 s2 == 0.
Proof. exact tangent. Qed.
(* the combination only mentions minors of the same slice *)
Theorem C08t_expansion_stays_in_slice : forall nodelist j s i, (j < nN nodelist)%nat -> (i < nN nodelist)%nat ->
  In s (slice nodelist j) -> In (prev s i) (slice nodelist j).
Proof. exact expansion_stays_in_slice. Qed.

(* ---------------- (3b), (3c): every graph ---------------- *)
Theorem C08t_closed_eq_open : forall G nodelist idx tr rc, pb_wfb G nodelist idx = true ->
  forall p t, closure_on_paths G nodelist idx p ->
  veq (dSIR_pair_based G nodelist idx tr rc (marginals G nodelist p) t) (open_rhs G nodelist idx tr rc p).
Proof. exact closed_eq_open. Qed.
Theorem C08t_closure_of_product : forall nodelist p a i j b k, nonneg nodelist p ->
  m3 nodelist p a i stS j b k * mX nodelist p j == m2 nodelist p a i stS j * m2 nodelist p stS j b k ->
  closure_at nodelist p a i j b k.
Proof. exact closure_of_product. Qed.

(* (3c) for every n and every cut: the closure residual is a sum of minors, so the closure holds at every point of
   M_{j,U} with p >= 0 (i on the U side, k on the other side; both orientations) *)
Theorem C08t_residual_eq : forall nodelist j U, (j < nN nodelist)%nat -> forall p a i b k,
  (i < nN nodelist)%nat -> (k < nN nodelist)%nat -> U i = true -> U k = false ->
  m3 nodelist p a i stS j b k * mX nodelist p j - m2 nodelist p a i stS j * m2 nodelist p stS j b k
  == residual nodelist j U p a i b k.
Proof. exact residual_eq. Qed.
Theorem C08t_closure_on_M : forall nodelist j U, (j < nN nodelist)%nat -> forall p a i b k,
  (i < nN nodelist)%nat -> (k < nN nodelist)%nat -> U i = true -> U k = false ->
  nonneg nodelist p -> inM nodelist j U p ->
  closure_at nodelist p a i j b k /\ closure_at nodelist p b k j a i.
Proof. exact closure_on_M. Qed.
(* (3b) + (3c) for EVERY graph all of whose paths i - j - k are separated by a listed cut (coverb; every tree with its
   branch cuts): on the intersection of the M_{j,U}, p >= 0, _dSIR_pair_based_ at the marginals = the exact unclosed
   moment system.  What then remains for a tree is (3a) alone. *)
Theorem C08t_closed_eq_open_on_M : forall G nodelist idx tr rc, pb_wfb G nodelist idx = true ->
  forall cuts p t, coverb G nodelist cuts = true -> nonneg nodelist p -> inMs nodelist cuts p ->
  veq (dSIR_pair_based G nodelist idx tr rc (marginals G nodelist p) t) (open_rhs G nodelist idx tr rc p).
Proof. exact closed_eq_open_on_M. Qed.

(* ---------------- (3a) unclosed moment equations, for every p ---------------- *)
Theorem C08t_path3_open : forall tr rc p,
  veq (open_rhs path3 (nodes_upto 3) idx_of tr rc p) (marginals path3 (nodes_upto 3) (master_rhs path3 (nodes_upto 3) idx_of tr rc p)).
Proof. exact p3_open. Qed.
Theorem C08t_path4_open : forall tr rc p,
  veq (open_rhs path4 (nodes_upto 4) idx_of tr rc p) (marginals path4 (nodes_upto 4) (master_rhs path4 (nodes_upto 4) idx_of tr rc p)).
Proof. exact p4_open. Qed.
Theorem C08t_star3_open : forall tr rc p,
  veq (open_rhs star3 (nodes_upto 4) idx_of tr rc p) (marginals star3 (nodes_upto 4) (master_rhs star3 (nodes_upto 4) idx_of tr rc p)).
Proof. exact s3_open. Qed.
(* path-3 tangency once more, by evaluation, independently of the general proof *)
Theorem C08t_path3_tangent_eq_by_evaluation : forall tr rc p s1 s2,
  In s1 (slice (nodes_upto 3) 1) -> In s2 (slice (nodes_upto 3) 1) ->
  dminor (nodes_upto 3) (only 0) p (master_rhs path3 (nodes_upto 3) idx_of tr rc p) s1 s2
  == dminor_expand path3 (nodes_upto 3) idx_of tr rc (only 0) p s1 s2.
Proof. exact p3_tangent_eq. Qed.

(* (3a) for every loop-free graph, every p: no hypothesis on p *)
Theorem C08t_open_general : forall G nodelist idx tr rc, pb_wfb G nodelist idx = true ->
  forall p, (forall i, (i < nN nodelist)%nat -> is_edge G nodelist i i = false) ->
  veq (open_rhs G nodelist idx tr rc p) (marginals G nodelist (master_rhs G nodelist idx tr rc p)).
Proof. exact open_general. Qed.

(* ---------------- (1) + (2) + (3) for every graph accepted by tree_okb (every tree) ---------------- *)
Theorem C08t_tree_exact_on_M : forall G nodelist idx tr rc, tree_okb G nodelist idx = true ->
  forall p t, nonneg nodelist p -> inMs nodelist (branch_cuts G nodelist) p ->
  veq (g_dSIR_pair_based (marginals G nodelist p) t G nodelist idx tr rc)
      (marginals G nodelist (master_rhs G nodelist idx tr rc p)).
Proof. exact tree_exact_on_M. Qed.
Theorem C08t_tree_pure_ic_partial : forall G nodelist idx tr rc, tree_okb G nodelist idx = true ->
  forall s0, length s0 = nN nodelist ->
  let cuts := branch_cuts G nodelist in
  let master := master_rhs G nodelist idx tr rc in
  (nonneg nodelist (delta s0) /\ inMs nodelist cuts (delta s0)) /\
  (forall p, inMs nodelist cuts p -> forall c, In c cuts -> forall s1 s2,
     In s1 (slice nodelist (fst c)) -> In s2 (slice nodelist (fst c)) -> dminor nodelist (snd c) p (master p) s1 s2 == 0) /\
  (forall p t, nonneg nodelist p -> inMs nodelist cuts p ->
     veq (g_dSIR_pair_based (marginals G nodelist p) t G nodelist idx tr rc) (marginals G nodelist (master p))).
Proof. exact tree_pure_ic. Qed.

(* ---------------- (1) + (2) + (3) on the trees with 3 and 4 nodes ---------------- *)
(* path 0 - 1 - 2; the only vertex with two neighbours is 1, cut {0} | {2} *)
Theorem C08t_path3_pure_ic_partial : forall tr rc s0, In s0 (all_states 3) ->
  let nl := nodes_upto 3 in
  let M := inM nl 1 (only 0) in
  let master := master_rhs path3 nl idx_of tr rc in
  (nonneg nl (delta s0) /\ M (delta s0)) /\
  (forall p, M p -> forall s1 s2, In s1 (slice nl 1) -> In s2 (slice nl 1) -> dminor nl (only 0) p (master p) s1 s2 == 0) /\
  (forall p t, nonneg nl p -> M p ->
     veq (g_dSIR_pair_based (marginals path3 nl p) t path3 nl idx_of tr rc) (marginals path3 nl (master p))).
Proof. exact path3_pure_ic. Qed.
(* path 0 - 1 - 2 - 3; cuts {0} | {2,3} at 1 and {0,1} | {3} at 2 *)
Theorem C08t_path4_pure_ic_partial : forall tr rc s0, In s0 (all_states 4) ->
  let nl := nodes_upto 4 in
  let master := master_rhs path4 nl idx_of tr rc in
  (nonneg nl (delta s0) /\ p4_M (delta s0)) /\
  (forall p, p4_M p ->
     (forall s1 s2, In s1 (slice nl 1) -> In s2 (slice nl 1) -> dminor nl (only 0) p (master p) s1 s2 == 0) /\
     (forall s1 s2, In s1 (slice nl 2) -> In s2 (slice nl 2) -> dminor nl (upto 1) p (master p) s1 s2 == 0)) /\
  (forall p t, nonneg nl p -> p4_M p ->
     veq (g_dSIR_pair_based (marginals path4 nl p) t path4 nl idx_of tr rc) (marginals path4 nl (master p))).
Proof. exact path4_pure_ic. Qed.
(* star, centre 0, leaves 1, 2, 3; cuts {1} | {2,3} and {2} | {1,3} at 0 *)
Theorem C08t_star3_pure_ic_partial : forall tr rc s0, In s0 (all_states 4) ->
  let nl := nodes_upto 4 in
  let master := master_rhs star3 nl idx_of tr rc in
  (nonneg nl (delta s0) /\ s3_M (delta s0)) /\
  (forall p, s3_M p ->
     (forall s1 s2, In s1 (slice nl 0) -> In s2 (slice nl 0) -> dminor nl (only 1) p (master p) s1 s2 == 0) /\
     (forall s1 s2, In s1 (slice nl 0) -> In s2 (slice nl 0) -> dminor nl (only 2) p (master p) s1 s2 == 0)) /\
  (forall p t, nonneg nl p -> s3_M p ->
     veq (g_dSIR_pair_based (marginals star3 nl p) t star3 nl idx_of tr rc) (marginals star3 nl (master p))).
Proof. exact star3_pure_ic. Qed.

(* ---------------- non-vacuity ---------------- *)
Definition ex_tr (u v : node) : Q := match u, v with 0%N, _ => 2 | 1%N, 0%N => 3 | 1%N, _ => 5 | _, _ => 7 end.
Definition ex_rc (u : node) : Q := match u with 0%N => 1 | 1%N => 1 # 2 | _ => 1 # 3 end.
Definition veqb (a b : vec) : bool := Nat.eqb (length a) (length b) && forallb (fun xy => Qeq_bool (fst xy) (snd xy)) (combine a b).
(* the domains are inhabited: the graphs are what pb_wfb / sepb ask for *)
Example C08t_nonvacuous_graphs :
  pb_wfb path3 (nodes_upto 3) idx_of = true /\ sepb path3 (nodes_upto 3) 1 (only 0) = true /\
  pb_wfb path4 (nodes_upto 4) idx_of = true /\ sepb path4 (nodes_upto 4) 1 (only 0) = true /\ sepb path4 (nodes_upto 4) 2 (upto 1) = true /\
  pb_wfb star3 (nodes_upto 4) idx_of = true /\ sepb star3 (nodes_upto 4) 0 (only 1) = true /\ sepb star3 (nodes_upto 4) 0 (only 2) = true /\
  sepb path4 (nodes_upto 4) 2 (only 0) = false.
Proof. vm_compute. repeat split; reflexivity. Qed.
(* pure initial condition "node 0 infected": the two sides of (3) are the same non-zero vector *)
Example C08t_nonvacuous_pure :
  let nl := nodes_upto 3 in let p := delta [1; 0; 0]%N in
  veqb (g_dSIR_pair_based (marginals path3 nl p) 0 path3 nl idx_of ex_tr ex_rc)
       [0; -3; 0;  -1; 3; 0;  0; 0; 0; -4; 0; 0; 0; 3; 0;  0; 0; 0; 0; 0; -3; 0; -3; 0] = true /\
  veqb (marginals path3 nl (master_rhs path3 nl idx_of ex_tr ex_rc p))
       [0; -3; 0;  -1; 3; 0;  0; 0; 0; -4; 0; 0; 0; 3; 0;  0; 0; 0; 0; 0; -3; 0; -3; 0] = true.
Proof. vm_compute. split; reflexivity. Qed.
(* M is a proper subset and the hypothesis is needed: half [S;S;S] + half [I;S;I] is a probability vector outside M
   (one minor is 1/4), and there the pair-based right-hand side differs from the marginals of the master equation *)
Definition ex_bad : state -> Q := fun s => (1 # 2) * delta [0; 0; 0]%N s + (1 # 2) * delta [1; 0; 1]%N s.
Example C08t_M_is_needed :
  let nl := nodes_upto 3 in
  Qeq_bool (minor nl (only 0) ex_bad [0; 0; 0]%N [1; 0; 1]%N) (1 # 4) = true /\
  veqb (g_dSIR_pair_based (marginals path3 nl ex_bad) 0 path3 nl idx_of ex_tr ex_rc)
       (marginals path3 nl (master_rhs path3 nl idx_of ex_tr ex_rc ex_bad)) = false.
Proof. vm_compute. split; reflexivity. Qed.
(* M contains more than point masses: a product-form vector with every marginal positive; both sides of (3) agree
   and the closure terms are not zero there (d<X_0 X_1>/dt has only closure terms) *)
Definition ex_w (i : nat) (a : N) : Q :=
  match i, a with
  | 0%nat, 0%N => 1 # 2 | 0%nat, 1%N => 1 # 3 | 0%nat, _ => 1 # 6
  | 1%nat, 0%N => 3 # 4 | 1%nat, 1%N => 1 # 4 | 1%nat, _ => 0
  | _, 0%N => 1 # 5 | _, 1%N => 3 # 5 | _, _ => 1 # 5
  end.
Example C08t_nonvacuous_product :
  let nl := nodes_upto 3 in let p := product nl ex_w in
  veqb (g_dSIR_pair_based (marginals path3 nl p) 0 path3 nl idx_of ex_tr ex_rc)
       (marginals path3 nl (master_rhs path3 nl idx_of ex_tr ex_rc p)) = true /\
  Qeq_bool (prXX nl (marginals path3 nl (master_rhs path3 nl idx_of ex_tr ex_rc p)) 0 1) (- (9 # 8)) = true.
Proof. vm_compute. split; reflexivity. Qed.

(* coverb is satisfiable beyond the proved graphs: a tree with 5 nodes (0 - 1 - 2 - 3 with a second leaf 4 at 2) and its
   branch cuts; and it rejects an incomplete list *)
Definition ex_tree5 : graph := graph_of [(0, [1]); (1, [0; 2]); (2, [1; 3; 4]); (3, [2]); (4, [2])]%N.
Example C08t_nonvacuous_cover :
  pb_wfb ex_tree5 (nodes_upto 5) idx_of = true /\
  coverb ex_tree5 (nodes_upto 5) [(1, only 0); (2, upto 1); (2, only 3)]%nat = true /\
  coverb ex_tree5 (nodes_upto 5) [(1, only 0); (2, upto 1)]%nat = false /\
  coverb path4 (nodes_upto 4) [(1, only 0); (2, upto 1)]%nat = true.
Proof. vm_compute. repeat split; reflexivity. Qed.

(* tree_okb accepts trees (3 .. 6 nodes, one with a shuffled adjacency) and rejects graphs with a cycle *)
Definition ex_tree6 : graph := graph_of [(3, [1; 5]); (1, [3; 2; 0]); (2, [1]); (0, [1]); (5, [3; 4]); (4, [5])]%N.
Definition ex_tri : graph := graph_of [(0, [1; 2]); (1, [0; 2]); (2, [0; 1])]%N.
Definition ex_cyc4 : graph := graph_of [(0, [1; 3]); (1, [0; 2]); (2, [1; 3]); (3, [2; 0])]%N.
Example C08t_nonvacuous_tree_check :
  tree_okb path3 (nodes_upto 3) idx_of = true /\ tree_okb path4 (nodes_upto 4) idx_of = true /\
  tree_okb star3 (nodes_upto 4) idx_of = true /\ tree_okb ex_tree5 (nodes_upto 5) idx_of = true /\
  tree_okb ex_tree6 (nodes_upto 6) idx_of = true /\
  tree_okb ex_tri (nodes_upto 3) idx_of = false /\ tree_okb ex_cyc4 (nodes_upto 4) idx_of = false.
Proof. vm_compute. repeat split; reflexivity. Qed.

Print Assumptions C08t_master_vec_single_edge.
Print Assumptions C08t_marginals_single_edge.
Print Assumptions C08t_single_edge_exact.
Print Assumptions C08t_pure_in_M.
Print Assumptions C08t_product_in_M.
Print Assumptions C08t_tangent_eq.
Print Assumptions C08t_tangent.
Print Assumptions C08t_expansion_stays_in_slice.
Print Assumptions C08t_closed_eq_open.
Print Assumptions C08t_closure_of_product.
Print Assumptions C08t_residual_eq.
Print Assumptions C08t_closure_on_M.
Print Assumptions C08t_closed_eq_open_on_M.
Print Assumptions C08t_open_general.
Print Assumptions C08t_tree_exact_on_M.
Print Assumptions C08t_tree_pure_ic_partial.
Print Assumptions C08t_path3_open.
Print Assumptions C08t_path4_open.
Print Assumptions C08t_star3_open.
Print Assumptions C08t_path3_tangent_eq_by_evaluation.
Print Assumptions C08t_path3_pure_ic_partial.
Print Assumptions C08t_path4_pure_ic_partial.
Print Assumptions C08t_star3_pure_ic_partial.
Print Assumptions C08t_nonvacuous_graphs.
Print Assumptions C08t_nonvacuous_pure.
Print Assumptions C08t_M_is_needed.
Print Assumptions C08t_nonvacuous_product.
Print Assumptions C08t_nonvacuous_cover.
Print Assumptions C08t_nonvacuous_tree_check.
