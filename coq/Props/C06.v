(* C06 - ODE outputs conserve the population and start from the requested state.
   Only statements; proofs are in Proofs/ICP.v and Proofs/ICConserve.v.

   Models: Model/IC.v (initial-condition builders) and Model/Wrappers.v (each
   *_from_graph wrapper's own arithmetic, the layout of X0 and the slicing of the
   solver's matrix into the returned tuple), written as the code is.  The
   integrator is abstract: `solver_ok sv` = its first row is X0.
   Requests: `wf_ugraph g` (simple undirected non-empty graph), `wf_req g sir rq`
   (rho in [0,1], or nothing, or duplicate-free disjoint node sets; initial_recovereds
   only with initial_infecteds and only for SIR).
   The requested state: reqS_n/reqI_n/reqR_n = N-|I0|-|R0|, |I0|, |R0| or (1-rho)N, rho N, 0;
   req_Sk/req_Ik = the degree-class counts of the request; req_pairs = (SS,SI,II).

   FULL STATEMENT of the property for every entry point E (kept here for the ones
   that are only partly proved): for all g rq full sv with the three hypotheses,
   E g rq full sv = Ok out, and S,I,R and every auxiliary series of out at index 0
   equal the requested state, and S+I(+R) = N, compartments in [0,N] and SIR
   monotonicity hold along the exact solution.  Proved below: row 0 and acceptance
   for the homogeneous/heterogeneous mean field, compact pairwise, super compact and
   (explicit sets) SIR effective degree wrappers - the models follow the code after the
   fix: commits 32a0429..6e8b3e6 of /repo, so the former _refuted theorems are now the
   positive ones and no refutation is left; conservation where it is structural or follows from the
   generated right-hand sides.  Not proved (checked numerically by the harness):
   bounds and monotonicity along the curve (flow lift cited, DESIGN 3.7).  The pair
   counts of a request (`req_pairs`) are, for explicit sets, the counts over
   G.edges(); theorem C06_req_pairs_are_ordered_pair_counts (handshake lemma) shows
   they are the order-free numbers of ordered adjacent S-S, S-I, I-I pairs.
   The last part of the file states the conservation / sign clauses for the 2-D and
   node-level right-hand sides (individual based, pair based, heterogeneous pairwise,
   effective degree) over the hand-written models of Model/Rhs2D.v; the very last part
   (theorems C06_generated_...) proves that these models equal the definitions that
   translate/rhs2d2v.py regenerates from EoN/analytic.py on every run (Gen/Rhs2.v);
   both are also point-evaluated against the code (harness/rhs2_lib.py). *)
From EoNV Require Import Prelude Graph Aux Vec IC Wrappers VecP ICP ICHand ICPair ICEd ICEbcm Rhs ICConserve Rhs2D Rhs2DP Rhs2 Rhs2GenP.

(* ---------- non-vacuity of the hypotheses ---------- *)
Example C06_wf_example :
  wf_ugraph path3 = true /\ wf_req path3 true (mkReq (Some [0%N]) (Some [2%N]) None) = true /\
  wf_req path3 false (mkReq None None (Some (1 # 4))) = true /\ wf_req star4 true (mkReq None None None) = true /\
  solver_ok const_solver.
Proof. repeat split. Qed.
Print Assumptions C06_wf_example.

(* ---------- shared degree-class lemmas ---------- *)
Theorem C06_sum_Nk_is_N : forall g, vsum (Nk_of g) == gN g.
Proof. exact Nk_sum. Qed.
Print Assumptions C06_sum_Nk_is_N.
Theorem C06_sum_kNk_is_degree_sum : forall g, sumQ (map (fun k => Qnat k * vnth k (Nk_of g)) (classes g)) == degsum g.
Proof. exact Nk_degsum. Qed.
Print Assumptions C06_sum_kNk_is_degree_sum.
Theorem C06_class_counts_partition : forall g p, vsum (byclass g p) == cnt p (gnodes g).
Proof. exact byclass_sum. Qed.
Print Assumptions C06_class_counts_partition.

(* handshake over G.edges() as networkx enumerates it; sum of degrees = 2|E| *)
Theorem C06_handshake :
  forall g f, wf_ugraph g = true ->
    esum g (fun u v => f u v + f v u) == sumQ (map (fun u => sumQ (map (fun v => f u v) (gadj g u))) (gnodes g)).
Proof. exact handshake. Qed.
Print Assumptions C06_handshake.
Theorem C06_degree_sum_is_2E : forall g, wf_ugraph g = true -> degsum g == 2 * gsize g.
Proof. exact degsum_twice_size. Qed.
Print Assumptions C06_degree_sum_is_2E.
(* _count_edge_types_ returns the numbers of ORDERED adjacent S-S, S-I and I-I pairs (documented: SS and II
   count every edge twice, SI once), independently of node and edge insertion order *)
Theorem C06_req_pairs_are_ordered_pair_counts :
  forall g st, wf_ugraph g = true ->
    let '(ss, si, ii) := count_edge_types_st g st in
    ss == pairs g (isS st) (isS st) /\ si == pairs g (isS st) (isI st) /\ ii == pairs g (isI st) (isI st).
Proof. exact count_edge_types_pairs. Qed.
Print Assumptions C06_req_pairs_are_ordered_pair_counts.

(* ---------- the builders accept every consistent request and return the requested classes ---------- *)
Theorem C06_accepts_initialize_node_status :
  forall g sir rq I0, wf_req g sir rq = true -> rq_I rq = Some I0 ->
    exists st, initialize_node_status g I0 (rq_R rq) = Ok st /\ forall u, st u = req_status rq u.
Proof. exact init_status_ok. Qed.
Print Assumptions C06_accepts_initialize_node_status.
Theorem C06_get_Nk_and_IC_spec :
  forall g sir rq, wf_ugraph g = true -> wf_req g sir rq = true ->
    get_Nk_and_IC g rq sir = Ok (mkNkic (Nk_of g) (req_Sk g rq) (req_Ik g rq) (req_Rk g rq)).
Proof. exact get_Nk_ok. Qed.
Print Assumptions C06_get_Nk_and_IC_spec.
Theorem C06_requested_classes_sum :
  forall g sir rq, wf_ugraph g = true -> wf_req g sir rq = true ->
    vsum (req_Sk g rq) == reqS_n g rq /\ vsum (req_Ik g rq) == reqI_n g rq /\ vsum (req_Rk g rq) == reqR_n g rq.
Proof. intros g sir rq WG W. split; [|split]; [eapply vsum_req_Sk|eapply vsum_req_Ik|eapply vsum_req_Rk]; eassumption. Qed.
Print Assumptions C06_requested_classes_sum.

(* ---------- row 0 + acceptance, entry point by entry point ---------- *)
Theorem row0_SIS_homogeneous_meanfield_from_graph :
  forall g rq sv, wf_ugraph g = true -> wf_req g false rq = true -> solver_ok sv ->
  exists S I, SIS_homogeneous_meanfield_from_graph g rq sv = Ok [(nS, Sc S); (nI, Sc I)] /\
              S 0%nat == reqS_n g rq /\ I 0%nat == reqI_n g rq.
Proof. exact row0_SIS_hmf. Qed.
Print Assumptions row0_SIS_homogeneous_meanfield_from_graph.

Theorem row0_SIR_homogeneous_meanfield_from_graph :
  forall g rq sv, wf_ugraph g = true -> wf_req g true rq = true -> solver_ok sv ->
  exists S I R, SIR_homogeneous_meanfield_from_graph g rq sv = Ok [(nS, Sc S); (nI, Sc I); (nR, Sc R)] /\
              S 0%nat == reqS_n g rq /\ I 0%nat == reqI_n g rq /\ R 0%nat == reqR_n g rq.
Proof. exact row0_SIR_hmf. Qed.
Print Assumptions row0_SIR_homogeneous_meanfield_from_graph.

(* homogeneous pairwise.  _partial: acceptance is NOT proved - the statement is "if the wrapper returns, row 0 is the
   request"; missing: the guard SS0 + 2 SI0 <= n N never fires on a consistent request in exact arithmetic (it does fire in
   floating point: known finding accept:EoNError/II0=1).  FULL statement: as for the other wrappers, with
   `exists out, ... = Ok out`; and II(0) == pII (req_pairs g rq), here only II(0) == sum of degrees - SS - 2 SI. *)
Theorem row0_SIS_homogeneous_pairwise_from_graph_partial :
  forall g rq full sv out, wf_ugraph g = true -> wf_req g false rq = true -> solver_ok sv ->
  SIS_homogeneous_pairwise_from_graph g rq full sv = Ok out ->
  exists S I, lookup nS out = Some (Sc S) /\ lookup nI out = Some (Sc I) /\
    S 0%nat == reqS_n g rq /\ I 0%nat == reqI_n g rq /\
    (full = true -> exists SI SS II, lookup nSI out = Some (Sc SI) /\ lookup nSS out = Some (Sc SS) /\ lookup nII out = Some (Sc II) /\
       SI 0%nat == pSI (req_pairs g rq) /\ SS 0%nat == pSS (req_pairs g rq) /\
       II 0%nat == degsum g - pSS (req_pairs g rq) - 2 * pSI (req_pairs g rq)).
Proof. exact row0_SIS_hpw. Qed.
Print Assumptions row0_SIS_homogeneous_pairwise_from_graph_partial.
Theorem row0_SIR_homogeneous_pairwise_from_graph_partial :
  forall g rq full sv out, wf_ugraph g = true -> wf_req g true rq = true -> solver_ok sv ->
  SIR_homogeneous_pairwise_from_graph g rq full sv = Ok out ->
  exists S I R, lookup nS out = Some (Sc S) /\ lookup nI out = Some (Sc I) /\ lookup nR out = Some (Sc R) /\
    S 0%nat == reqS_n g rq /\ I 0%nat == reqI_n g rq /\ R 0%nat == reqR_n g rq /\
    (full = true -> exists SI SS, lookup nSI out = Some (Sc SI) /\ lookup nSS out = Some (Sc SS) /\
       SI 0%nat == pSI (req_pairs g rq) /\ SS 0%nat == pSS (req_pairs g rq)).
Proof. exact row0_SIR_hpw. Qed.
Print Assumptions row0_SIR_homogeneous_pairwise_from_graph_partial.
(* the hypothesis "returns" is satisfiable: *)
Example C06_hpw_returns :
  exists out, SIR_homogeneous_pairwise_from_graph path3 (mkReq (Some [0%N]) (Some [2%N]) None) true const_solver = Ok out.
Proof. eexists. vm_compute. reflexivity. Qed.
Print Assumptions C06_hpw_returns.
Theorem C06_mean_degree_times_N_is_degree_sum : forall g, wf_ugraph g = true -> mean_degree g * gN g == degsum g.
Proof. exact mean_degree_N. Qed.
Print Assumptions C06_mean_degree_times_N_is_degree_sum.

Theorem row0_SIS_heterogeneous_meanfield_from_graph :
  forall g rq full sv, wf_ugraph g = true -> wf_req g false rq = true -> solver_ok sv ->
  exists out S I, SIS_heterogeneous_meanfield_from_graph g rq full sv = Ok out /\
    lookup nS out = Some (Sc S) /\ lookup nI out = Some (Sc I) /\
    S 0%nat == reqS_n g rq /\ I 0%nat == reqI_n g rq /\
    (full = true -> exists Sk Ik, lookup nSk out = Some (Ve Sk) /\ lookup nIk out = Some (Ve Ik) /\
                                  Sk 0%nat = req_Sk g rq /\ Ik 0%nat = req_Ik g rq).
Proof. exact row0_SIS_hetmf. Qed.
Print Assumptions row0_SIS_heterogeneous_meanfield_from_graph.

Theorem row0_SIR_heterogeneous_meanfield_from_graph :
  forall g rq full sv, wf_ugraph g = true -> wf_req g true rq = true -> solver_ok sv ->
  exists out, SIR_heterogeneous_meanfield_from_graph g rq full sv = Ok out /\
    (full = false -> exists S I R, out = [(nS, Sc S); (nI, Sc I); (nR, Sc R)] /\
        S 0%nat == reqS_n g rq /\ I 0%nat == reqI_n g rq /\ R 0%nat == reqR_n g rq) /\
    (full = true -> exists Sk Ik Rk, out = [(nSk, Ve Sk); (nIk, Ve Ik); (nRk, Ve Rk)] /\
        veq (Sk 0%nat) (req_Sk g rq) /\ veq (Ik 0%nat) (req_Ik g rq) /\ Rk 0%nat = req_Rk g rq).
Proof. exact row0_SIR_hetmf. Qed.
Print Assumptions row0_SIR_heterogeneous_meanfield_from_graph.

(* pair counts: req_pairs, see C06_req_pairs_are_ordered_pair_counts *)
Theorem row0_SIS_compact_pairwise_from_graph :
  forall g rq full sv, wf_ugraph g = true -> wf_req g false rq = true -> solver_ok sv ->
  exists out S I, SIS_compact_pairwise_from_graph g rq full sv = Ok out /\
    lookup nS out = Some (Sc S) /\ lookup nI out = Some (Sc I) /\
    S 0%nat == reqS_n g rq /\ I 0%nat == reqI_n g rq /\
    (full = true -> exists Sk Ik SI SS II,
       lookup nSk out = Some (Ve Sk) /\ lookup nIk out = Some (Ve Ik) /\ lookup nSI out = Some (Sc SI) /\
       lookup nSS out = Some (Sc SS) /\ lookup nII out = Some (Sc II) /\
       Sk 0%nat = req_Sk g rq /\ veq (Ik 0%nat) (req_Ik g rq) /\
       SI 0%nat == pSI (req_pairs g rq) /\ SS 0%nat == pSS (req_pairs g rq) /\ II 0%nat == pII (req_pairs g rq)).
Proof. exact row0_SIS_cp. Qed.
Print Assumptions row0_SIS_compact_pairwise_from_graph.
Theorem row0_SIS_compact_effective_degree_from_graph :
  forall g rq full sv, wf_ugraph g = true -> wf_req g false rq = true -> solver_ok sv ->
  exists out S I, SIS_compact_effective_degree_from_graph g rq full sv = Ok out /\
    lookup nS out = Some (Sc S) /\ lookup nI out = Some (Sc I) /\ S 0%nat == reqS_n g rq /\ I 0%nat == reqI_n g rq.
Proof.
  intros g rq full sv WG W OK. destruct (row0_SIS_cp g rq full sv WG W OK) as (out & S & I & H1 & H2 & H3 & H4 & H5 & _).
  exists out, S, I. auto.
Qed.
Print Assumptions row0_SIS_compact_effective_degree_from_graph.

Theorem row0_SIR_compact_pairwise_from_graph :
  forall g rq full sv, wf_ugraph g = true -> wf_req g true rq = true -> solver_ok sv ->
  exists out, SIR_compact_pairwise_from_graph g rq full sv = Ok out /\
    (full = false -> exists S I R, out = [(nS, Sc S); (nI, Sc I); (nR, Sc R)] /\
        S 0%nat == reqS_n g rq /\ I 0%nat == reqI_n g rq /\ R 0%nat == reqR_n g rq) /\
    (full = true -> exists Sk I R SS SI, out = [(nSk, Ve Sk); (nI, Sc I); (nR, Sc R); (nSS, Sc SS); (nSI, Sc SI)] /\
        Sk 0%nat = req_Sk g rq /\ I 0%nat == reqI_n g rq /\ R 0%nat == reqR_n g rq /\
        SS 0%nat == pSS (req_pairs g rq) /\ SI 0%nat == pSI (req_pairs g rq)).
Proof. exact row0_SIR_cp. Qed.
Print Assumptions row0_SIR_compact_pairwise_from_graph.

Theorem row0_SIS_super_compact_pairwise_from_graph :
  forall g rq full sv, wf_ugraph g = true -> wf_req g false rq = true -> solver_ok sv ->
  exists out S I, SIS_super_compact_pairwise_from_graph g rq full sv = Ok out /\
    lookup nS out = Some (Sc S) /\ lookup nI out = Some (Sc I) /\
    S 0%nat == reqS_n g rq /\ I 0%nat == reqI_n g rq /\
    (full = true -> exists SS SI II, lookup nSS out = Some (Sc SS) /\ lookup nSI out = Some (Sc SI) /\ lookup nII out = Some (Sc II) /\
       SS 0%nat == pSS (req_pairs g rq) /\ SI 0%nat == pSI (req_pairs g rq) /\ II 0%nat == pII (req_pairs g rq)).
Proof. exact row0_SIS_scp. Qed.
Print Assumptions row0_SIS_super_compact_pairwise_from_graph.

(* effective degree, SIR, explicit sets (initial_recovereds honoured since fix c069c0a).
   _sets: the rho path is not proved (S(0) = (1-rho)N needs the binomial theorem); FULL statement: as above for every wf_req. *)
Theorem row0_SIR_effective_degree_from_graph_sets :
  forall g rq full sv I0, wf_ugraph g = true -> wf_req g true rq = true -> solver_ok sv -> rq_I rq = Some I0 ->
  exists out S I R, SIR_effective_degree_from_graph g rq full sv = Ok out /\
    lookup nS out = Some (Sc S) /\ lookup nI out = Some (Sc I) /\ lookup nR out = Some (Sc R) /\
    S 0%nat == reqS_n g rq /\ I 0%nat == reqI_n g rq /\ R 0%nat == reqR_n g rq.
Proof. exact row0_SIR_ed_sets. Qed.
Print Assumptions row0_SIR_effective_degree_from_graph_sets.

(* EBCM_from_graph.  _partial: acceptance is not proved (the wrapper raises ZeroDivisionError when no susceptible node
   has an edge: phiS0 = SS/SX with SX = 0, outside the generator's domain); FULL statement: exists out, ... = Ok out /\ the same. *)
Theorem row0_EBCM_from_graph_partial :
  forall g rq full sv out, wf_ugraph g = true -> wf_req g true rq = true -> solver_ok sv ->
  EBCM_from_graph g rq full sv = Ok out ->
  exists S I R, lookup nS out = Some (Sc S) /\ lookup nI out = Some (Sc I) /\ lookup nR out = Some (Sc R) /\
    S 0%nat == reqS_n g rq /\ I 0%nat == reqI_n g rq /\ R 0%nat == reqR_n g rq /\
    (full = true -> exists th, lookup nTheta out = Some (Sc th) /\ th 0%nat == 1).
Proof. exact row0_EBCM_fg. Qed.
Print Assumptions row0_EBCM_from_graph_partial.
Example C06_EBCM_returns :
  exists out, EBCM_from_graph path3 (mkReq (Some [0%N]) (Some [2%N]) None) true const_solver = Ok out.
Proof. eexists. vm_compute. reflexivity. Qed.
Print Assumptions C06_EBCM_returns.

(* heterogeneous pairwise, SIS: accepted with and without full data (fix 948324c).  _partial for row 0: only acceptance is
   general; row 0 of IkIl, SkSl, SkIl is shown on an example (FULL statement: S, I, Sk, Ik, SkIl, SkSl, IkIl at index 0 equal
   the request for every wf request - needs reshape/flatten and sum-over-Ks lemmas that are not written) *)
Theorem accepts_SIS_heterogeneous_pairwise_from_graph :
  forall g rq full sv, wf_ugraph g = true -> wf_req g false rq = true ->
  exists out, SIS_heterogeneous_pairwise_from_graph g rq full sv = Ok out.
Proof. exact accepts_SIS_hetpw. Qed.
Print Assumptions accepts_SIS_heterogeneous_pairwise_from_graph.
Example row0_SIS_heterogeneous_pairwise_from_graph_full_example :
  exists kk out IkIl SkSl SkIl, get_NkNl_and_IC path3 (mkReq (Some [0%N; 1%N]) None None) = Ok kk /\
      SIS_heterogeneous_pairwise_from_graph path3 (mkReq (Some [0%N; 1%N]) None None) true const_solver = Ok out /\
      lookup nIkIl out = Some (Ma IkIl) /\ lookup nSkSl out = Some (Ma SkSl) /\ lookup nSkIl out = Some (Ma SkIl) /\
      Forall2 (Forall2 Qeq) (IkIl 0%nat) (kk_IkIl kk) /\ SkSl 0%nat = kk_SkSl kk /\ SkIl 0%nat = kk_SkIl kk /\
      kk_IkIl kk = [[0; 1]; [1; 0]].
Proof. exact row0_SIS_hetpw_full_example. Qed.
Print Assumptions row0_SIS_heterogeneous_pairwise_from_graph_full_example.
(* heterogeneous pairwise, SIR, full data: documented order on the former witness (an example, not the general theorem) *)
Example row0_SIR_heterogeneous_pairwise_from_graph_full_example :
  exists kk out SkSl SkIl, get_NkNl_and_IC path3 (mkReq (Some [0%N]) None None) = Ok kk /\
      SIR_heterogeneous_pairwise_from_graph path3 (mkReq (Some [0%N]) None None) true const_solver = Ok out /\
      lookup nSkSl out = Some (Ma SkSl) /\ lookup nSkIl out = Some (Ma SkIl) /\
      SkSl 0%nat = kk_SkSl kk /\ SkIl 0%nat = kk_SkIl kk /\ kk_SkSl kk <> kk_SkIl kk.
Proof. exact row0_SIR_hetpw_full_example. Qed.
Print Assumptions row0_SIR_heterogeneous_pairwise_from_graph_full_example.

(* ---------- conservation ---------- *)
(* structural: whatever the integrator returns *)
Theorem conserve_SIR_homogeneous_meanfield_structural :
  forall S0 I0 R0 sv t S I R,
    SIR_homogeneous_meanfield S0 I0 R0 sv = [(nS, Sc S); (nI, Sc I); (nR, Sc R)] -> S t + I t + R t == S0 + I0 + R0.
Proof. exact conserve_SIR_homogeneous_meanfield. Qed.
Print Assumptions conserve_SIR_homogeneous_meanfield_structural.
Theorem conserve_SIS_homogeneous_pairwise_structural :
  forall S0 I0 SI0 SS0 n full sv out S I t,
    SIS_homogeneous_pairwise S0 I0 SI0 SS0 n full sv = Ok out ->
    lookup nS out = Some (Sc S) -> lookup nI out = Some (Sc I) -> S t + I t == S0 + I0.
Proof. exact conserve_SIS_homogeneous_pairwise. Qed.
Print Assumptions conserve_SIS_homogeneous_pairwise_structural.
Theorem conserve_SIR_homogeneous_pairwise_structural :
  forall S0 I0 R0 SI0 SS0 n full sv out S I R t,
    SIR_homogeneous_pairwise S0 I0 R0 SI0 SS0 n full sv = Ok out ->
    lookup nS out = Some (Sc S) -> lookup nI out = Some (Sc I) -> lookup nR out = Some (Sc R) -> S t + I t + R t == S0 + I0 + R0.
Proof. exact conserve_SIR_homogeneous_pairwise. Qed.
Print Assumptions conserve_SIR_homogeneous_pairwise_structural.
Theorem conserve_SIR_compact_pairwise_structural :
  forall Sk0 I0 R0 SS0 SI0 sv S I R t,
    SIR_compact_pairwise Sk0 I0 R0 SS0 SI0 false sv = [(nS, Sc S); (nI, Sc I); (nR, Sc R)] -> S t + I t + R t == I0 + R0 + vsum Sk0.
Proof. exact conserve_SIR_compact_pairwise. Qed.
Print Assumptions conserve_SIR_compact_pairwise_structural.
Theorem conserve_SIS_super_compact_pairwise_structural :
  forall S0 I0 SS0 SI0 II0 full sv S I t,
    lookup nS (SIS_super_compact_pairwise S0 I0 SS0 SI0 II0 full sv) = Some (Sc S) ->
    lookup nI (SIS_super_compact_pairwise S0 I0 SS0 SI0 II0 full sv) = Some (Sc I) -> S t + I t == S0 + I0.
Proof. exact conserve_SIS_super_compact_pairwise. Qed.
Print Assumptions conserve_SIS_super_compact_pairwise_structural.
Theorem conserve_SIR_super_compact_pairwise_structural :
  forall R0 SS0 SI0 N psihat full sv S I R t,
    lookup nS (SIR_super_compact_pairwise R0 SS0 SI0 N psihat full sv) = Some (Sc S) ->
    lookup nI (SIR_super_compact_pairwise R0 SS0 SI0 N psihat full sv) = Some (Sc I) ->
    lookup nR (SIR_super_compact_pairwise R0 SS0 SI0 N psihat full sv) = Some (Sc R) -> S t + I t + R t == N.
Proof. exact conserve_SIR_super_compact_pairwise. Qed.
Print Assumptions conserve_SIR_super_compact_pairwise_structural.
Theorem conserve_SIR_effective_degree_structural :
  forall Ssi0 I0 R0 full sv S I R t,
    lookup nS (SIR_effective_degree Ssi0 I0 R0 full sv) = Some (Sc S) ->
    lookup nI (SIR_effective_degree Ssi0 I0 R0 full sv) = Some (Sc I) ->
    lookup nR (SIR_effective_degree Ssi0 I0 R0 full sv) = Some (Sc R) -> S t + I t + R t == msum Ssi0 + I0 + R0.
Proof. exact conserve_SIR_effective_degree. Qed.
Print Assumptions conserve_SIR_effective_degree_structural.
Theorem conserve_SIR_compact_effective_degree_structural :
  forall Sk0 I0 R0 SI0 full sv S I R t,
    lookup nS (SIR_compact_effective_degree Sk0 I0 R0 SI0 full sv) = Some (Sc S) ->
    lookup nI (SIR_compact_effective_degree Sk0 I0 R0 SI0 full sv) = Some (Sc I) ->
    lookup nR (SIR_compact_effective_degree Sk0 I0 R0 SI0 full sv) = Some (Sc R) -> S t + I t + R t == vsum Sk0 + I0 + R0.
Proof. exact conserve_SIR_compact_effective_degree. Qed.
Print Assumptions conserve_SIR_compact_effective_degree_structural.
Theorem conserve_EBCM_structural :
  forall N psihat R0 full sv S I R t,
    lookup nS (EBCM N psihat R0 full sv) = Some (Sc S) -> lookup nI (EBCM N psihat R0 full sv) = Some (Sc I) ->
    lookup nR (EBCM N psihat R0 full sv) = Some (Sc R) -> S t + I t + R t == N.
Proof. exact conserve_EBCM. Qed.
Print Assumptions conserve_EBCM_structural.

(* through the right-hand side generated from the source: the components sum to zero *)
Theorem conserve_SIS_homogeneous_meanfield :
  forall S I t c tau gamma, vsum (dSIS_homogeneous_meanfield [S; I] t c tau gamma) == 0.
Proof. exact conserve_dSIS_homogeneous_meanfield. Qed.
Print Assumptions conserve_SIS_homogeneous_meanfield.
Theorem conserve_SIS_heterogeneous_meanfield :
  forall X t k tau gamma, length X = (2 * k)%nat -> vsum (dSIS_heterogeneous_meanfield X t k tau gamma) == 0.
Proof. exact conserve_dSIS_heterogeneous_meanfield. Qed.
Print Assumptions conserve_SIS_heterogeneous_meanfield.

(* more identities over the generated right-hand sides *)
Theorem conserve_edges_SIS_super_compact_pairwise :
  forall I SS SI II t tau gamma N k1 k2 k3,
    let d := dSIS_super_compact_pairwise [I; SS; SI; II] t tau gamma N k1 k2 k3 in
    vnth 1 d + 2 * vnth 2 d + vnth 3 d == 0.
Proof. exact conserve_edges_dSIS_super_compact_pairwise. Qed.
Print Assumptions conserve_edges_SIS_super_compact_pairwise.
(* sign_: dR = gamma * I with I the returned N - S - R; dS <= 0 on the feasible region (the lift to monotone curves is cited) *)
Theorem sign_dR_EBCM :
  forall theta R t N tau gamma (ps psP : Q -> Q) phiS0 phiR0,
    vnth 1 (dEBCM [theta; R] t N tau gamma ps psP phiS0 phiR0) == gamma * (N - N * ps theta - R).
Proof. exact dR_EBCM. Qed.
Print Assumptions sign_dR_EBCM.
Theorem sign_dR_SIR_super_compact_pairwise :
  forall theta SS SI R t tau gamma (ps psP psDP : Q -> Q) N,
    vnth 3 (dSIR_super_compact_pairwise [theta; SS; SI; R] t tau gamma ps psP psDP N) == gamma * (N - N * ps theta - R).
Proof. exact dR_SIR_super_compact_pairwise. Qed.
Print Assumptions sign_dR_SIR_super_compact_pairwise.
Theorem sign_dR_SIR_compact_pairwise :
  forall Sk SS SI R t N tau gamma,
    vnth 2 (take_last 3 (dSIR_compact_pairwise (Sk ++ [SS; SI; R]) t N tau gamma)) == gamma * (N - vsum Sk - R).
Proof. exact dR_SIR_compact_pairwise. Qed.
Print Assumptions sign_dR_SIR_compact_pairwise.
Theorem sign_dR_SIR_compact_effective_degree :
  forall Sk R SI t N tau gamma,
    vnth 0 (take_last 2 (dSIR_compact_effective_degree (Sk ++ [R; SI]) t N tau gamma)) == gamma * (N - R - vsum Sk).
Proof. exact dR_SIR_compact_effective_degree. Qed.
Print Assumptions sign_dR_SIR_compact_effective_degree.
Theorem sign_dRk_SIR_heterogeneous_meanfield :
  forall theta Rk t S0 Nk tau gamma,
    slice_from 1 (dSIR_heterogeneous_meanfield (theta :: Rk) t S0 Nk tau gamma)
    = smul gamma (vsub (vsub Nk (vmul S0 (spow_arange theta (length Rk)))) Rk).
Proof. exact dRk_SIR_heterogeneous_meanfield. Qed.
Print Assumptions sign_dRk_SIR_heterogeneous_meanfield.
Theorem sign_dS_SIR_homogeneous_meanfield_nonpositive :
  forall S I t c tau gamma, 0 <= tau -> 0 <= c -> 0 <= S -> 0 <= I ->
    vnth 0 (dSIR_homogeneous_meanfield [S; I] t c tau gamma) <= 0.
Proof. exact sign_dS_SIR_homogeneous_meanfield. Qed.
Print Assumptions sign_dS_SIR_homogeneous_meanfield_nonpositive.


(* ====================================================================== *)
(* 2-D and node-level right-hand sides (Model/Rhs2D.v; proofs Rhs2DP.v)    *)
(* ====================================================================== *)
(* layout: each right-hand side is the concatenation of its named component functions, in the order of the state *)
Theorem layout_SIS_individual_based : forall G nodelist idx tr rc Y t i, (i < nN nodelist)%nat ->
  vnth i (dSIS_individual_based G nodelist idx tr rc Y t) = ibSIS_dY G nodelist idx tr rc Y i.
Proof. exact ibSIS_layout. Qed.
Print Assumptions layout_SIS_individual_based.
Theorem layout_SIR_individual_based : forall G nodelist idx tr rc V t i, (i < nN nodelist)%nat ->
  vnth i (dSIR_individual_based G nodelist idx tr rc V t) = ibSIR_dX G nodelist idx tr V i /\
  vnth (nN nodelist + i) (dSIR_individual_based G nodelist idx tr rc V t) = ibSIR_dY G nodelist idx tr rc V i.
Proof. exact ibSIR_layout. Qed.
Print Assumptions layout_SIR_individual_based.
Theorem layout_SIR_pair_based : forall G nodelist idx tr rc V t i j, (i < nN nodelist)%nat -> (j < nN nodelist)%nat ->
  let D := dSIR_pair_based G nodelist idx tr rc V t in
  prX D i = pbSIR_dX G nodelist idx tr V i /\ prY nodelist D i = pbSIR_dY G nodelist idx tr rc V i /\
  prXY nodelist D i j = pbSIR_dXY G nodelist idx tr rc V i j /\ prXX nodelist D i j = pbSIR_dXX G nodelist idx tr V i j.
Proof. exact pbSIR_layout. Qed.
Print Assumptions layout_SIR_pair_based.
Theorem layout_SIS_pair_based : forall G nodelist idx tr rc V t i j, (i < nN nodelist)%nat -> (j < nN nodelist)%nat ->
  let D := dSIS_pair_based G nodelist idx tr rc V t in
  psY D i = pbSIS_dY G nodelist idx tr rc V i /\
  psXY nodelist D i j = pbSIS_dXY G nodelist idx tr rc V i j /\ psXX nodelist D i j = pbSIS_dXX G nodelist idx tr rc V i j.
Proof. exact pbSIS_layout. Qed.
Print Assumptions layout_SIS_pair_based.
Theorem layout_SIS_heterogeneous_pairwise : forall tau gamma Ks X Nk NkNl t i j, (i < length Ks)%nat -> (j < length Ks)%nat ->
  let D := dSIS_heterogeneous_pairwise X Nk NkNl tau gamma Ks t in
  vnth i D = hs_dSk X Nk tau gamma Ks i /\
  vnth (length Ks + i * length Ks + j) D = hs_dSkSl X tau gamma Ks i j /\
  vnth (length Ks + length Ks * length Ks + i * length Ks + j) D = hs_dSkIl X NkNl tau gamma Ks i j.
Proof. exact hpSIS_layout. Qed.
Print Assumptions layout_SIS_heterogeneous_pairwise.
Theorem layout_SIR_heterogeneous_pairwise : forall tau gamma Ks X t i j, (i < length Ks)%nat -> (j < length Ks)%nat ->
  let D := dSIR_heterogeneous_pairwise X tau gamma Ks t in
  vnth i D = hr_dSk X tau Ks i /\ vnth (length Ks + i) D = hr_dIk X tau gamma Ks i /\
  vnth (2 * length Ks + i * length Ks + j) D = hr_dSkSl X tau Ks i j /\
  vnth (2 * length Ks + length Ks * length Ks + i * length Ks + j) D = hr_dSkIl X tau gamma Ks i j.
Proof. exact hpSIR_layout. Qed.
Print Assumptions layout_SIR_heterogeneous_pairwise.
Theorem layout_SIS_effective_degree : forall r c, (1 <= r)%nat -> (1 <= c)%nat -> forall X tau gamma t s i, (s < r)%nat -> (i < c)%nat ->
  let D := dSIS_effective_degree X r c tau gamma t in
  vnth (s * c + i) D = es_dS X r c tau gamma s i /\ vnth (r * c + s * c + i) D = es_dI X r c tau gamma s i.
Proof. exact edSIS_layout. Qed.
Print Assumptions layout_SIS_effective_degree.
Theorem layout_SIR_effective_degree : forall r c, (1 <= r)%nat -> (1 <= c)%nat -> forall X N tau gamma t s i, (s < r)%nat -> (i < c)%nat ->
  let D := dSIR_effective_degree X N r c tau gamma t in
  vnth (s * c + i) D = er_dS X r c tau gamma s i /\ vnth (r * c) D = er_dR X N r c gamma.
Proof. exact edSIR_layout. Qed.
Print Assumptions layout_SIR_effective_degree.

(* ---- individual based ---- *)
(* SIR: the wrapper returns Z_i = 1 - X_i - Y_i; dX_i + dY_i = - gamma_i Y_i, i.e. dZ_i = gamma_i Y_i *)
Theorem conserve_SIR_individual_based : forall G nodelist idx tr rc V i,
  ibSIR_dX G nodelist idx tr V i + ibSIR_dY G nodelist idx tr rc V i == - rc (node_at nodelist i) * vnth (nN nodelist + i) V.
Proof. exact ibSIR_conserve. Qed.
Print Assumptions conserve_SIR_individual_based.
Theorem sign_dX_SIR_individual_based : forall G nodelist idx tr V i,
  (forall u v, 0 <= tr u v) -> Forall (fun x => 0 <= x) V -> ibSIR_dX G nodelist idx tr V i <= 0.
Proof. exact ibSIR_sign_dX. Qed.
Print Assumptions sign_dX_SIR_individual_based.
Theorem sign_dZ_SIR_individual_based : forall G nodelist idx tr rc V i,
  0 <= rc (node_at nodelist i) -> 0 <= vnth (nN nodelist + i) V ->
  0 <= - (ibSIR_dX G nodelist idx tr V i + ibSIR_dY G nodelist idx tr rc V i).
Proof. exact ibSIR_sign_dZ. Qed.
Print Assumptions sign_dZ_SIR_individual_based.
(* SIS: X_i = 1 - Y_i is rebuilt by subtraction (structural); the field points inward on the faces Y_i = 0, Y_i = 1 *)
Theorem sign_face0_SIS_individual_based : forall G nodelist idx tr rc Y i,
  (forall u v, 0 <= tr u v) -> Forall (fun x => 0 <= x) Y -> vnth i Y == 0 -> 0 <= ibSIS_dY G nodelist idx tr rc Y i.
Proof. exact ibSIS_face0. Qed.
Print Assumptions sign_face0_SIS_individual_based.
Theorem sign_face1_SIS_individual_based : forall G nodelist idx tr rc Y i,
  0 <= rc (node_at nodelist i) -> vnth i Y == 1 -> ibSIS_dY G nodelist idx tr rc Y i <= 0.
Proof. exact ibSIS_face1. Qed.
Print Assumptions sign_face1_SIS_individual_based.

(* ---- pair based ---- *)
Theorem conserve_SIR_pair_based : forall G nodelist idx tr rc V i,
  pbSIR_dX G nodelist idx tr V i + pbSIR_dY G nodelist idx tr rc V i == - rc (node_at nodelist i) * prY nodelist V i.
Proof. exact pbSIR_conserve. Qed.
Print Assumptions conserve_SIR_pair_based.
Theorem sign_dX_SIR_pair_based : forall G nodelist idx tr V i,
  (forall u v, 0 <= tr u v) -> Forall (fun x => 0 <= x) V -> pbSIR_dX G nodelist idx tr V i <= 0.
Proof. exact pbSIR_sign_dX. Qed.
Print Assumptions sign_dX_SIR_pair_based.

(* ---- heterogeneous pairwise ---- *)
(* SIS: [S_k] + [I_k] = N_k and [S_k S_l] + [S_k I_l] + [I_k S_l] + [I_k I_l] = N_kl hold by construction (I_k and I_k I_l are
   not coordinates: sum_k (dS_k + dI_k) = 0 and the pair total are structural) *)
Theorem conserve_SIS_heterogeneous_pairwise_structural : forall X Nk NkNl Ks i j,
  hs_Sk X i + hs_Ik X Nk i == vnth i Nk /\
  hs_SkSl X Ks i j + hs_SkIl X Ks i j + hs_SkIl X Ks j i + hs_IkIl X NkNl Ks i j == vnth (i * length Ks + j) NkNl.
Proof. exact hpSIS_structural. Qed.
Print Assumptions conserve_SIS_heterogeneous_pairwise_structural.
(* the subtraction uses [I_k S_l] = [S_l I_k] and a symmetric [S_k S_l]: the right-hand side keeps [S_k S_l] symmetric *)
Theorem conserve_SkSl_symmetry_SIS_heterogeneous_pairwise : forall tau gamma Ks X i j,
  hs_dSkSl X tau gamma Ks i j == hs_dSkSl X tau gamma Ks j i.
Proof. exact hpSIS_dSkSl_sym. Qed.
Print Assumptions conserve_SkSl_symmetry_SIS_heterogeneous_pairwise.
Theorem conserve_SkSl_symmetry_SIR_heterogeneous_pairwise : forall tau Ks X i j,
  hr_dSkSl X tau Ks i j == hr_dSkSl X tau Ks j i.
Proof. exact hpSIR_dSkSl_sym. Qed.
Print Assumptions conserve_SkSl_symmetry_SIR_heterogeneous_pairwise.
(* pair counts stay consistent with class sizes: where sum_l ([S_k S_l] + [S_k I_l]) = k [S_k] and
   sum_l ([I_k S_l] + [I_k I_l]) = k [I_k] hold, their derivatives agree as well *)
Theorem conserve_pair_count_SIS_heterogeneous_pairwise : forall X Nk NkNl tau gamma Ks k,
  ~ vnth k Ks * (1 * hs_Sk X k) == 0 ->
  (forall l, (l < length Ks)%nat -> hs_SkSl X Ks l k == hs_SkSl X Ks k l) ->
  sumn (length Ks) (fun l => hs_SkSl X Ks k l + hs_SkIl X Ks k l) == vnth k Ks * hs_Sk X k ->
  sumn (length Ks) (fun l => hs_SkIl X Ks l k + hs_IkIl X NkNl Ks k l) == vnth k Ks * hs_Ik X Nk k ->
  sumn (length Ks) (fun l => hs_dSkSl X tau gamma Ks k l + hs_dSkIl X NkNl tau gamma Ks k l) == vnth k Ks * hs_dSk X Nk tau gamma Ks k.
Proof. exact hpSIS_pair_count_consistency. Qed.
Print Assumptions conserve_pair_count_SIS_heterogeneous_pairwise.
(* SIR: R_k = N_k - S_k - I_k is rebuilt by subtraction; dS_k + dI_k = - gamma I_k (dR_k = gamma I_k), dS_k <= 0 *)
Theorem conserve_SIR_heterogeneous_pairwise : forall tau gamma Ks X i,
  hr_dSk X tau Ks i + hr_dIk X tau gamma Ks i == - gamma * hr_Ik X Ks i.
Proof. exact hpSIR_conserve. Qed.
Print Assumptions conserve_SIR_heterogeneous_pairwise.
Theorem sign_dS_SIR_heterogeneous_pairwise : forall tau Ks X i,
  0 <= tau -> Forall (fun x => 0 <= x) X -> hr_dSk X tau Ks i <= 0.
Proof. exact hpSIR_sign_dS. Qed.
Print Assumptions sign_dS_SIR_heterogeneous_pairwise.

(* ---- effective degree ---- *)
(* SIS_effective_degree returns S = sum S_si and I = sum I_si, BOTH read from the solver: S + I = N rests on the two
   blocks of the right-hand side summing to zero.  Exact totals of the blocks (no hypothesis on the state): the code's
   zero-padded shifts lose lost_row A = sum_i i A[r-1, i] through recovery of a neighbour and lost_col A = sum_s s A[s, c-1]
   through infection of a neighbour. *)
Theorem totals_SIS_effective_degree : forall r c X tau gamma t,
  let D := dSIS_effective_degree X r c tau gamma t in
  vsum (firstn (r * c) D) == sumn2 r c (es_dS X r c tau gamma) /\ vsum (skipn (r * c) D) == sumn2 r c (es_dI X r c tau gamma).
Proof. exact edSIS_totals. Qed.
Print Assumptions totals_SIS_effective_degree.
Theorem sum_dS_SIS_effective_degree : forall r c, (1 <= r)%nat -> (1 <= c)%nat -> forall X tau gamma,
  sumn2 r c (es_dS X r c tau gamma) ==
  - tau * es_SI X r c + gamma * sumn2 r c (es_I X r c) - gamma * lost_row r c (es_S X c)
  - tau * es_ISS X r c / es_SS X r c * lost_col r c (es_S X c).
Proof. exact edSIS_sum_dS. Qed.
Print Assumptions sum_dS_SIS_effective_degree.
Theorem sum_dI_SIS_effective_degree : forall r c, (1 <= r)%nat -> (1 <= c)%nat -> forall X tau gamma,
  sumn2 r c (es_dI X r c tau gamma) ==
  tau * es_SI X r c - gamma * sumn2 r c (es_I X r c) - gamma * lost_row r c (es_I X r c)
  - tau * (es_ISI X r c / es_SI X r c + 1) * lost_col r c (es_I X r c).
Proof. exact edSIS_sum_dI. Qed.
Print Assumptions sum_dI_SIS_effective_degree.
(* on the model's feasible region (S_si = I_si = 0 for s + i > kmax, in particular on the last row for i >= 1 and the
   last column for s >= 1: boundary0) nothing is lost and sum (dS_si + dI_si) = 0 *)
Theorem conserve_SIS_effective_degree : forall r c, (1 <= r)%nat -> (1 <= c)%nat -> forall X tau gamma,
  boundary0 r c (es_S X c) -> boundary0 r c (es_I X r c) ->
  sumn2 r c (es_dS X r c tau gamma) + sumn2 r c (es_dI X r c tau gamma) == 0.
Proof. exact edSIS_conserve. Qed.
Print Assumptions conserve_SIS_effective_degree.
(* SIR: I = N - S - R is rebuilt by subtraction; dR = gamma I with that very I; the total of S does not increase *)
Theorem sign_dR_SIR_effective_degree : forall r c X N gamma,
  er_dR X N r c gamma == gamma * (N - sumn2 r c (er_S X c) - er_R X r c).
Proof. exact edSIR_dR. Qed.
Print Assumptions sign_dR_SIR_effective_degree.
Theorem sign_dS_SIR_effective_degree : forall r c, (1 <= r)%nat -> (1 <= c)%nat -> forall X tau gamma,
  boundary0 r c (er_S X c) -> 0 <= tau -> Forall (fun x => 0 <= x) X -> sumn2 r c (er_dS X r c tau gamma) <= 0.
Proof. exact edSIR_sign_dS. Qed.
Print Assumptions sign_dS_SIR_effective_degree.
(* non-vacuity: a feasible state with kmax = 1 (r = c = 2): the boundary hypothesis holds, the two block totals are
   non-zero and cancel; and a state off the feasible region where the total is NOT conserved (the hypothesis is needed) *)
Example conserve_SIS_effective_degree_nonvacuous :
  let X := [3; 2; 1; 0; 1; 1; 2; 0] in
  boundary0 2 2 (es_S X 2) /\ boundary0 2 2 (es_I X 2 2) /\
  ~ sumn2 2 2 (es_dS X 2 2 1 1) == 0 /\
  ~ sumn2 2 2 (es_dS [3; 2; 1; 1; 1; 1; 2; 0] 2 2 1 1) + sumn2 2 2 (es_dI [3; 2; 1; 1; 1; 1; 2; 0] 2 2 1 1) == 0.
Proof.
  cbv zeta. split; [|split; [|split]].
  - split; intros k Hk; assert (k = 1%nat) by lia; subst; reflexivity.
  - split; intros k Hk; assert (k = 1%nat) by lia; subst; reflexivity.
  - intro H. vm_compute in H. discriminate.
  - intro H. vm_compute in H. discriminate.
Qed.
Print Assumptions conserve_SIS_effective_degree_nonvacuous.

(* ====================================================================== *)
(* the hand-written models ARE the code: definitions generated from the    *)
(* source on every run (Gen/Rhs2.v, translate/rhs2d2v.py, fail-closed)     *)
(* equal the models of Model/Rhs2D.v that the theorems above are about     *)
(* ====================================================================== *)
(* Domain: shapes consistent (where numpy would raise nothing is claimed).  Pair based: `pb_wfb G nodelist idx`
   (boolean) = G.order() = len(nodelist), index_of_node[nodelist[i]] = i, adjacency lists duplicate-free and inside
   nodelist -- what every caller in analytic.py establishes (index_of_node = {node: i for i, node in
   enumerate(nodelist)} over a simple graph); under it the code's accumulation `dA[index_of_node[u], ..] += ..`
   over nested neighbour loops writes every cell from exactly one (u, v) and equals the closed form of the model. *)
Theorem C06_generated_SIS_individual_based : forall Y t G nodelist idx tr rc,
  length Y = length nodelist ->
  veq (g_dSIS_individual_based Y t G nodelist idx tr rc) (dSIS_individual_based G nodelist idx tr rc Y t).
Proof. exact gen_dSIS_individual_based. Qed.
Theorem C06_generated_SIR_individual_based : forall V t G nodelist idx tr rc,
  length V = (2 * length nodelist)%nat ->
  veq (g_dSIR_individual_based V t G nodelist idx tr rc) (dSIR_individual_based G nodelist idx tr rc V t).
Proof. exact gen_dSIR_individual_based. Qed.
Theorem C06_generated_SIS_pair_based : forall G nodelist idx tr rc, pb_wfb G nodelist idx = true -> forall V t,
  veq (g_dSIS_pair_based V t G nodelist idx tr rc) (dSIS_pair_based G nodelist idx tr rc V t).
Proof. exact gen_dSIS_pair_based. Qed.
Theorem C06_generated_SIR_pair_based : forall G nodelist idx tr rc, pb_wfb G nodelist idx = true -> forall V t,
  veq (g_dSIR_pair_based V t G nodelist idx tr rc) (dSIR_pair_based G nodelist idx tr rc V t).
Proof. exact gen_dSIR_pair_based. Qed.
Theorem C06_generated_SIS_heterogeneous_pairwise : forall X t Nk NkNl tau gamma Ks,
  length Nk = length Ks ->
  veq (g_dSIS_heterogeneous_pairwise X t Nk NkNl tau gamma Ks) (dSIS_heterogeneous_pairwise X Nk NkNl tau gamma Ks t).
Proof. exact gen_dSIS_heterogeneous_pairwise. Qed.
Theorem C06_generated_SIR_heterogeneous_pairwise : forall X t tau gamma Nk Ks,
  veq (g_dSIR_heterogeneous_pairwise X t tau gamma Nk Ks) (dSIR_heterogeneous_pairwise X tau gamma Ks t).
Proof. exact gen_dSIR_heterogeneous_pairwise. Qed.
Theorem C06_generated_SIS_effective_degree : forall X t r c tau gamma,
  veq (g_dSIS_effective_degree X t (r, c) tau gamma) (dSIS_effective_degree X r c tau gamma t).
Proof. exact gen_dSIS_effective_degree. Qed.
Theorem C06_generated_SIR_effective_degree : forall X t N r c tau gamma,
  length X = (r * c + 1)%nat ->
  veq (g_dSIR_effective_degree X t N (r, c) tau gamma) (dSIR_effective_degree X N r c tau gamma t).
Proof. exact gen_dSIR_effective_degree. Qed.
(* non-vacuity of pb_wfb: the triangle with nodelist = its nodes and idx the position *)
Example C06_generated_wf_nonvacuous : pb_wfb tri_graph tri_nodes tri_idx = true.
Proof. vm_compute. reflexivity. Qed.
Print Assumptions C06_generated_SIS_individual_based.
Print Assumptions C06_generated_SIR_individual_based.
Print Assumptions C06_generated_SIS_pair_based.
Print Assumptions C06_generated_SIR_pair_based.
Print Assumptions C06_generated_SIS_heterogeneous_pairwise.
Print Assumptions C06_generated_SIR_heterogeneous_pairwise.
Print Assumptions C06_generated_SIS_effective_degree.
Print Assumptions C06_generated_SIR_effective_degree.
Print Assumptions C06_generated_wf_nonvacuous.
