(* C02, fast_SIS half — theorems about the model of EoN.fast_SIS
   (Model/EventSIS.v, [fast_SIS]: a sampler program with an [Expo] draw exactly
   where the code calls random.expovariate).  Statements only; proofs in
   Proofs/EventSISP4.v.  Imported by Props/C02.v. *)
From EoNV Require Import Prelude Samp Graph EventSIS EventSISP EventSISP4.
From EoNV Require EventSISTrace EventSISRel EventSISFast EventSISClock EventSISEx.

(* [log_ok g elog tlog] (Model/EventSIS.v, executable): replaying the status
   changes oldest first from "all susceptible", every infection has its entry in
   the transmission list, hits a SUSCEPTIBLE node and comes from a currently
   INFECTIOUS NEIGHBOUR (or is an initial infection without source), every
   recovery hits an infectious node, and nothing else changes a status. *)

(* Every run of fast_SIS on every draw script, graph, rates, weights, initial
   condition, horizon and fuel: whatever it returns is [finish] (the arrays and
   the full-data object) of a pair of logs that is a path of the SIS generator:
   every reported event is enabled at its time. *)
Theorem fsis_valid_path :
  forall g tau gamma tmax i0 rho tmin full fuel ds o tr,
    exec (fast_SIS g tau gamma tmax i0 rho tmin full fuel) ds [] = (Ok o, tr) ->
    exists ni0 lg, o = finish g tmin full ni0 lg /\ log_ok g (l_elog lg) (l_tlog lg) = true.
Proof.
  intros g tau gamma tmax i0 rho tmin full fuel ds o tr H.
  destruct (fsis_valid_path_and_rates g tau gamma tmax i0 rho tmin full fuel ds (Ok o) tr H) as [_ K].
  destruct (K o eq_refl) as [ni0 [lg [E1 E2]]]. exists ni0, lg. split; assumption.
Qed.
Print Assumptions fsis_valid_path.

(* The invariant behind it, for every reachable state of the event loop
   ([MInv], Proofs/EventSISP4.v): the queue is time-ordered; a queued attempt
   (u,v) at time t has u infectious with t < rec_time[u] (so u is still
   infectious when it fires) and v a neighbour of u; a queued recovery of v sits
   exactly at rec_time[v] = infection time + the drawn duration, v is infectious,
   and there is at most one per node; the logs replay as a generator path and
   end in the current statuses. *)
Theorem fsis_loop_invariant :
  forall g tau gamma tmax tmin full ni0 fuel s,
    MInv g s ->
    allSC (good_out g tmin full ni0) (gen_call g tau gamma)
          (m_loop g tau gamma tmax tmin full ni0 fuel s).
Proof. exact m_loop_inv. Qed.
Print Assumptions fsis_loop_invariant.

(* Rates, on EVERY outcome of [exec] (also runs that end in OutOfDraws / OutOfFuel): every
   call the program makes to the random source is expovariate(gamma*w_v) for a node v or
   expovariate(tau*w_uv) for an EDGE (u,v) (plus the initial random.sample over all nodes). *)
Theorem fsis_calls_are_generator_rates :
  forall g tau gamma tmax i0 rho tmin full fuel ds out tr,
    exec (fast_SIS g tau gamma tmax i0 rho tmin full fuel) ds [] = (out, tr) ->
    Forall (gen_call g tau gamma) tr.
Proof.
  intros g tau gamma tmax i0 rho tmin full fuel ds out tr H.
  exact (proj1 (fsis_valid_path_and_rates g tau gamma tmax i0 rho tmin full fuel ds out tr H)).
Qed.
Print Assumptions fsis_calls_are_generator_rates.

(* The clock structure (DESIGN C02), for every finished run started from explicit, distinct
   initial nodes (Proofs/EventSISRel.v, EventSISClock.v).  Each call of expovariate is
   annotated by a record [clk]:
     KRec v s d         duration of the infection of v that starts at s; rec_time[v] = s + d
     KAtt u v k s d rd  next attempt of the ordered pair (u,v) in u's k-th infectious period,
                        counted from s: attempt time s + d; rd = true for the redraw.
   There is a list [cs] of records such that
   (1) the trace IS the list of their calls — rate gamma*w_v resp. tau*w_uv — and the value
       each call returned is the script's draw at the same position;
   (2) [clock_ok]: every attempt record is for an EDGE, and its start time is u's infection
       time (an infection event of u in the returned log), or the attempt time s' + d' of an
       EARLIER record of the same pair, or — the single redraw — rec_time[v] = s_v + d_v for a
       duration record of v, in which case the record just before it is the discarded attempt
       s' + d' of the same pair and s_v <= s' + d' < rec_time[v]: the skipped interval lies
       inside v's infectious period, and rec_time[v] < rec_time[u] (= s_u + d_u of a duration
       record of u, or u never recovers: gamma*w_u = 0); every duration record starts at an
       infection event;
   (3) at every head of the event loop ([ml_via CI]): every queued attempt time is s + d of a
       record, and NO CLOCK IS MISSING: while u is infectious, every neighbour v with a positive
       rate has a pending attempt in the queue ([Pend]), or the last clock of the pair in this
       period rang at or after rec_time[u] or tmax ([Dead]), or rec_time[u] <= rec_time[v]
       ([Blocked]: v stays infectious until u recovers; for a susceptible v this means that
       u's recovery is due at this very instant, [fsis_enabled_pair_has_a_clock]). *)
Theorem fsis_clock_structure :
  forall g, NoDup (gnodes g) -> (forall u v, In v (gadj g u) -> In v (gnodes g)) ->
  forall tau gamma tmax tmin, xlt tmin tmax = true ->
  forall i0, NoDup i0 -> incl i0 (gnodes g) ->
  forall full fuel ds out tr,
    exec (fast_SIS g tau gamma tmax (Some i0) None tmin full fuel) ds [] = (Ok out, tr) ->
    exists (cs : list EventSISRel.clk) (s' : mst),
      tr = map (fun c => fst (EventSISRel.clk_call g tau gamma c)) cs /\
      map (fun c => snd (EventSISRel.clk_call g tau gamma c)) cs = firstn (length cs) ds /\
      out = finish g tmin full (length i0) (ms_log s') /\
      EventSISClock.clock_ok g gamma (l_elog (ms_log s')) cs /\
      EventSISClock.ml_via g tau gamma tmax (EventSISClock.CI g tau gamma tmax tmin i0) [] (m_init g tmax tmin i0) s' cs.
Proof. exact EventSISClock.fsis_clock_structure_run. Qed.
Print Assumptions fsis_clock_structure.

(* (2) spelled out: what [clock_ok] says about the record at any position *)
Theorem fsis_clock_record_justified :
  forall g gamma elog cs, EventSISClock.clock_ok g gamma elog cs ->
  forall pre c post, cs = pre ++ c :: post ->
    match c with
    | EventSISRel.KRec v s d => In (s, v, stI) elog
    | EventSISRel.KAtt u v k start d false =>
        In v (gadj g u) /\
        (In (start, u, stI) elog \/
         exists k' start' d' rd', In (EventSISRel.KAtt u v k' start' d' rd') pre /\ start = tadd start' d')
    | EventSISRel.KAtt u v k start d true =>
        In v (gadj g u) /\
        (exists pre' start' d' sv dv, pre = pre' ++ [EventSISRel.KAtt u v k start' d' false] /\ tadd start' d' < start /\
          In (EventSISRel.KRec v sv dv) pre /\ start = tadd sv dv /\ sv <= tadd start' d') /\
        ((exists su du, In (EventSISRel.KRec u su du) pre /\ start < tadd su du) \/ rec_rate g gamma u == 0)
    end.
Proof. exact (fun g gamma elog cs H => H). Qed.
Print Assumptions fsis_clock_record_justified.

(* (3) spelled out *)
Theorem fsis_no_clock_missing :
  forall g tau gamma tmax tmin i0 acc s, EventSISClock.CI g tau gamma tmax tmin i0 acc s ->
  (forall t c u v, In (t, c, MTrans (Some u) v) (q_items (ms_q s)) ->
     exists k start d rd, In (EventSISRel.KAtt u v k start d rd) acc /\ t = tadd start d) /\
  (forall u v, ms_stat s u = stI -> In v (gadj g u) -> 0 < trans_rate g tau u v ->
     (exists t c, In (t, c, MTrans (Some u) v) (q_items (ms_q s))) \/
     (exists start d rd, In (EventSISRel.KAtt u v (EventSISRel.per s u) start d rd) acc /\
        (xtlt (Some (tadd start d)) (ms_rec s u) = false \/ xlt (tadd start d) tmax = false)) \/
     xtlt (ms_rec s v) (ms_rec s u) = false).
Proof. exact EventSISClock.CI_read. Qed.
Print Assumptions fsis_no_clock_missing.

Theorem fsis_enabled_pair_has_a_clock :
  forall g tau gamma tmax tmin i0 acc s, EventSISClock.CI g tau gamma tmax tmin i0 acc s ->
  forall u v, ms_stat s u = stI -> ms_stat s v = stS -> In v (gadj g u) -> 0 < trans_rate g tau u v ->
    EventSISClock.Pend s u v \/ EventSISClock.Dead tmax acc s u v \/
    exists ru rv, ms_rec s u = Some ru /\ ms_rec s v = Some rv /\ ru <= rv /\
                  Forall (fun x => rv <= qtime x) (q_items (ms_q s)).
Proof. exact EventSISClock.CI_enabled_pair. Qed.
Print Assumptions fsis_enabled_pair_has_a_clock.

(* Law: that a path built from these clocks (one exponential clock per I-S pair,
   restarted at the end of the target's infectious period, one exponential
   duration per infection) is distributed as the continuous-time SIS Markov
   chain is the memorylessness of the exponential distribution (Kiss, Miller,
   Simon, App. A) and is CITED, not formalised.  The part carried by Coq is
   [fsis_clock_structure] above (the exact shape on which that argument rests)
   and the conjunction below: valid generator path + generator rates on every script. *)
Theorem fsis_law_partial :
  forall g tau gamma tmax i0 rho tmin full fuel ds out tr,
    exec (fast_SIS g tau gamma tmax i0 rho tmin full fuel) ds [] = (out, tr) ->
    Forall (gen_call g tau gamma) tr /\
    (forall o, out = Ok o -> exists ni0, good_out g tmin full ni0 o).
Proof. exact fsis_valid_path_and_rates. Qed.
Print Assumptions fsis_law_partial.

(* ---------------- non-vacuity ---------------- *)
Definition adjp (u : node) : list node :=
  match u with 0%N => [1%N] | 1%N => [0%N; 2%N] | 2%N => [1%N] | _ => [] end.
Definition gp : graph := mkGraph [0%N;1%N;2%N] adjp adjp false (fun _ _ => 1) (fun _ => 1) false false.
Definition script : list Q :=
  [3#4; 1#8; 5#8; 1#4; 1#8; 3#8; 1#2; 1#4; 1#8; 1#2; 3#8; 1#4; 1#8; 1#2; 1#4; 3#8; 1#8; 1#4; 1#2; 1#8; 1#4; 3#8; 1#2; 1#8; 1#4; 1#2; 1#8; 3#8; 1#4; 1#2].

(* a path 0-1-2, tau = 2, gamma = 1, from node 0 until tmax = 2: the run returns,
   with several infections and recoveries, and the theorems apply to it *)
Example fsis_nonvacuous :
  exists o tr, exec (fast_SIS gp 2 1 (Some 2) (Some [0%N]) None 0 true 100) script [] = (Ok o, tr) /\
               (6 <= length (so_rows o))%nat /\ (6 <= length tr)%nat.
Proof.
  destruct (exec (fast_SIS gp 2 1 (Some 2) (Some [0%N]) None 0 true 100) script []) as [[o|e] tr] eqn:E.
  - exists o, tr. split; [reflexivity|]. vm_compute in E. injection E as <- <-. cbn [length so_rows]. lia.
  - vm_compute in E. discriminate E.
Qed.
Print Assumptions fsis_nonvacuous.

(* the clock theorem applies to a run with 20 calls (two re-infections, three redraws):
   it has 20 records, the first is the duration of node 0 drawn at tmin *)
Example fsis_clock_structure_nonvacuous :
  exists out tr cs, exec (fast_SIS EventSISEx.gp 2 1 (Some 2) (Some [0%N]) None 0 true 100) EventSISEx.script3 [] = (Ok out, tr) /\
    length cs = 20%nat /\ tr = map (fun c => fst (EventSISRel.clk_call EventSISEx.gp 2 1 c)) cs /\
    map (fun c => snd (EventSISRel.clk_call EventSISEx.gp 2 1 c)) cs = EventSISEx.script3.
Proof.
  destruct (exec (fast_SIS EventSISEx.gp 2 1 (Some 2) (Some [0%N]) None 0 true 100) EventSISEx.script3 []) as [[out|e] tr] eqn:E;
    [|vm_compute in E; discriminate E].
  destruct (fsis_clock_structure EventSISEx.gp EventSISEx.gp_nodup EventSISEx.gp_adj 2 1 (Some 2) 0 eq_refl [0%N]
              (proj1 EventSISEx.i0_ok) (proj2 EventSISEx.i0_ok) true 100 EventSISEx.script3 out tr E) as [cs [s' [H1 [H2 _]]]].
  assert (Hl : length tr = 20%nat) by (vm_compute in E; injection E as _ <-; reflexivity).
  assert (Hc : length cs = 20%nat) by (rewrite H1, map_length in Hl; exact Hl).
  exists out, tr, cs. split; [reflexivity|]. split; [exact Hc|]. split; [exact H1|].
  rewrite H2, Hc. reflexivity.
Qed.
Print Assumptions fsis_clock_structure_nonvacuous.
