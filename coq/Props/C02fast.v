(* C02, fast_SIS half — theorems about the model of EoN.fast_SIS
   (Model/EventSIS.v, [fast_SIS]: a sampler program with an [Expo] draw exactly
   where the code calls random.expovariate).  Statements only; proofs in
   Proofs/EventSISP4.v.  Imported by Props/C02.v. *)
From EoNV Require Import Prelude Samp Graph EventSIS EventSISP EventSISP4.

(* [log_ok g elog tlog] (Model/EventSIS.v, executable): replaying the status
   changes oldest first from "all susceptible", every infection has its entry in
   the transmission list, hits a SUSCEPTIBLE node and comes from a currently
   INFECTIOUS NEIGHBOUR (or is an initial infection without source), every
   recovery hits an infectious node, and nothing else changes a status. *)

(* Every run of fast_SIS on every draw script, graph, rates, weights, initial
   condition, horizon and fuel: whatever it returns is [finish] (the arrays and
   the full-data object) of a pair of logs that is a path of the SIS generator:
   every reported event is enabled at its time. *)
Theorem fsis_valid_path :
  forall g tau gamma tmax i0 rho tmin full fuel ds o tr,
    exec (fast_SIS g tau gamma tmax i0 rho tmin full fuel) ds [] = (Ok o, tr) ->
    exists ni0 lg, o = finish g tmin full ni0 lg /\ log_ok g (l_elog lg) (l_tlog lg) = true.
Proof.
  intros g tau gamma tmax i0 rho tmin full fuel ds o tr H.
  destruct (fsis_valid_path_and_rates g tau gamma tmax i0 rho tmin full fuel ds (Ok o) tr H) as [_ K].
  destruct (K o eq_refl) as [ni0 [lg [E1 E2]]]. exists ni0, lg. split; assumption.
Qed.
Print Assumptions fsis_valid_path.

(* The invariant behind it, for every reachable state of the event loop
   ([MInv], Proofs/EventSISP4.v): the queue is time-ordered; a queued attempt
   (u,v) at time t has u infectious with t < rec_time[u] (so u is still
   infectious when it fires) and v a neighbour of u; a queued recovery of v sits
   exactly at rec_time[v] = infection time + the drawn duration, v is infectious,
   and there is at most one per node; the logs replay as a generator path and
   end in the current statuses. *)
Theorem fsis_loop_invariant :
  forall g tau gamma tmax tmin full ni0 fuel s,
    MInv g s ->
    allSC (good_out g tmin full ni0) (gen_call g tau gamma)
          (m_loop g tau gamma tmax tmin full ni0 fuel s).
Proof. exact m_loop_inv. Qed.
Print Assumptions fsis_loop_invariant.

(* Full statement of the clock structure (DESIGN C02): every queued attempt
   time of a pair (u,v) is start + Expo(tau*w_uv) where start is u's infection
   time, the previous attempt of the same pair, or rec_time[v] < rec_time[u].
   PROVED here, over the trace of [exec]: every call the program makes to the
   random source is expovariate(gamma*w_v) for a node v or expovariate(tau*w_uv)
   for an EDGE (u,v) (plus the initial random.sample over all nodes), on every
   script; that each attempt time is [tadd start d] for the draw d of such a call
   with start one of the three values is the text of [find_next]
   (Model/EventSIS.v) and is checked on every run by the trace oracle
   harness/esis_lib.oracle_clock; it is not restated as a theorem. *)
Theorem fsis_clock_structure_partial :
  forall g tau gamma tmax i0 rho tmin full fuel ds out tr,
    exec (fast_SIS g tau gamma tmax i0 rho tmin full fuel) ds [] = (out, tr) ->
    Forall (gen_call g tau gamma) tr.
Proof.
  intros g tau gamma tmax i0 rho tmin full fuel ds out tr H.
  exact (proj1 (fsis_valid_path_and_rates g tau gamma tmax i0 rho tmin full fuel ds out tr H)).
Qed.
Print Assumptions fsis_clock_structure_partial.

(* Law: that a path built from these clocks (one exponential clock per I-S pair,
   restarted at the end of the target's infectious period, one exponential
   duration per infection) is distributed as the continuous-time SIS Markov
   chain is the memorylessness of the exponential distribution (Kiss, Miller,
   Simon, App. A) and is CITED, not formalised.  The part carried by Coq is the
   conjunction below: valid generator path + generator rates on every script. *)
Theorem fsis_law_partial :
  forall g tau gamma tmax i0 rho tmin full fuel ds out tr,
    exec (fast_SIS g tau gamma tmax i0 rho tmin full fuel) ds [] = (out, tr) ->
    Forall (gen_call g tau gamma) tr /\
    (forall o, out = Ok o -> exists ni0, good_out g tmin full ni0 o).
Proof. exact fsis_valid_path_and_rates. Qed.
Print Assumptions fsis_law_partial.

(* ---------------- non-vacuity ---------------- *)
Definition adjp (u : node) : list node :=
  match u with 0%N => [1%N] | 1%N => [0%N; 2%N] | 2%N => [1%N] | _ => [] end.
Definition gp : graph := mkGraph [0%N;1%N;2%N] adjp adjp false (fun _ _ => 1) (fun _ => 1) false false.
Definition script : list Q :=
  [3#4; 1#8; 5#8; 1#4; 1#8; 3#8; 1#2; 1#4; 1#8; 1#2; 3#8; 1#4; 1#8; 1#2; 1#4; 3#8; 1#8; 1#4; 1#2; 1#8; 1#4; 3#8; 1#2; 1#8; 1#4; 1#2; 1#8; 3#8; 1#4; 1#2].

(* a path 0-1-2, tau = 2, gamma = 1, from node 0 until tmax = 2: the run returns,
   with several infections and recoveries, and the theorems apply to it *)
Example fsis_nonvacuous :
  exists o tr, exec (fast_SIS gp 2 1 (Some 2) (Some [0%N]) None 0 true 100) script [] = (Ok o, tr) /\
               (6 <= length (so_rows o))%nat /\ (6 <= length tr)%nat.
Proof.
  destruct (exec (fast_SIS gp 2 1 (Some 2) (Some [0%N]) None 0 true 100) script []) as [[o|e] tr] eqn:E.
  - exists o, tr. split; [reflexivity|]. vm_compute in E. injection E as <- <-. cbn [length so_rows]. lia.
  - vm_compute in E. discriminate E.
Qed.
Print Assumptions fsis_nonvacuous.
