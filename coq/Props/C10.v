(* C10 (generic part) — full-data object and plain time series describe the same epidemic.
   Only statements, each closed by [exact] of a lemma from Proofs/InvestigationP.v.
   [wf_histb ps tmin h]: the history starts at tmin, is time-ordered (ties allowed) and
   uses possible statuses only (a boolean predicate).
   [count_at iv l t s]: the number of nodes u of the list l with node_status(u,t) = s.
   The per-simulator theorems (both return paths are functions of one event log) are
   in the simulator components; they instantiate [C10_log_lemma]. *)
From EoNV Require Import Prelude Graph Investigation InvestigationP.
From Coq Require Import Sorting.Sorted.

(* (i) summary(nodelist), for the whole node set or ANY non-empty list of nodes: the
   times are strictly increasing, are exactly the change times of the listed nodes, and
   at each of them the entry for status s is the number of listed nodes whose
   node_status at that time is s *)
Theorem C10_summary_spec :
  forall iv ps tmin l, possible_statuses iv = ps -> l <> [] ->
  (forall u, In u l -> exists h, hist_of iv u = Ok h /\ wf_histb ps tmin h = true) ->
  exists rows, summary iv (Some l) = Ok rows /\ rows <> [] /\ StronglySorted Qlt (map fst rows) /\
    (forall t cs, In (t, cs) rows -> tmin <= t /\ cs = map (count_at iv l t) ps) /\
    (forall t, In t (map fst rows) -> exists u h x, In u l /\ hist_of iv u = Ok h /\ In x h /\ fst x = t) /\
    (forall u h x, In u l -> hist_of iv u = Ok h -> In x h -> exists t, In t (map fst rows) /\ t == fst x).
Proof. exact summary_spec. Qed.

(* each entry of a row belongs to one status (the one at the same position of the
   possible statuses): nothing depends on the order in which the statuses are listed *)
Theorem C10_summary_entry_per_status :
  forall iv ps tmin l rows, possible_statuses iv = ps -> l <> [] ->
  (forall u, In u l -> exists h, hist_of iv u = Ok h /\ wf_histb ps tmin h = true) ->
  summary iv (Some l) = Ok rows ->
  forall t cs i s, In (t, cs) rows -> nth_error ps i = Some s -> nth_error cs i = Some (count_at iv l t s).
Proof. exact summary_entry. Qed.

(* possible_statuses not given: every status occurring in a recorded history, once
   (the code's list(set(..)) order is unspecified and not part of the statement) *)
Theorem C10_default_possible_statuses :
  forall iv, iv_ps iv = None ->
  NoDup (possible_statuses iv) /\
  forall s, In s (possible_statuses iv) <-> exists u h e, In (u, h) (iv_hist iv) /\ In e h /\ snd e = s.
Proof. exact possible_statuses_default. Qed.

Theorem C10_summary_default_is_all_nodes :
  forall iv, summary iv None = summary iv (Some (iv_nodes iv)).
Proof. exact summary_all. Qed.

(* t(), S(), I(), R() are the columns of summary(); a status that is not possible is EoNError *)
Theorem C10_tSIR_are_columns_of_summary :
  forall iv ps rows s, possible_statuses iv = ps -> summary iv None = Ok rows ->
  iv_t iv = Ok (map fst rows) /\
  (forall i, index_of s ps = Some i -> column iv s = Ok (map (fun r => nth i (snd r) 0%Z) rows)) /\
  (index_of s ps = None -> column iv s = Err EoNError).
Proof. exact column_spec. Qed.

Theorem C10_index_of_is_position :
  forall s ps i, index_of s ps = Some i -> nth_error ps i = Some s.
Proof. exact index_of_nth. Qed.

(* (ii) node_status(node, t), for a time-ordered history and t at or after its first
   entry: the status of the latest change at or before t (with several changes at that
   instant: the last of them) *)
Theorem C10_node_status_spec :
  forall iv u h t, hist_of iv u = Ok h -> sortedb h = true ->
  (exists e0 r, h = e0 :: r /\ fst e0 <= t) ->
  exists pre e post, h = pre ++ e :: post /\ fst e <= t /\ (forall x, In x pre -> fst x <= t) /\
                     (forall x, In x post -> t < fst x) /\ node_status iv u t = Ok (snd e).
Proof. exact node_status_spec. Qed.

(* get_statuses(nodelist, t) maps every listed node to its node_status *)
Theorem C10_get_statuses_spec :
  forall iv t l m, statuses_of iv l t = Ok m ->
  forall u, In u l -> exists s, node_status iv u t = Ok s /\ assoc m u = Some s.
Proof. exact statuses_of_spec. Qed.

(* (iii) the log lemma: for an event log with strictly increasing times after tmin
   (events of listed nodes, possible statuses; [log_okb], boolean), the summary of the
   per-node projections of the log IS the array of its running counts *)
Theorem C10_log_lemma :
  forall nodes ps tmin init log, log_okb nodes ps tmin init log = true ->
  summary (log_inv nodes ps tmin init log) None = Ok (log_arrays nodes ps tmin init log).
Proof. exact log_lemma. Qed.

(* the checker applied to implementation outputs by every simulator check is sound:
   acceptance means legal histories (start at tmin, ordered, possible statuses, allowed
   moves) and summary(histories) = the arrays as step functions of time *)
Theorem C10_checker_sound :
  forall iv arrays tmin mv, consistent_b iv arrays tmin mv = true ->
  exists rows,
    (forall u, In u (iv_nodes iv) -> exists h, hist_of iv u = Ok h /\ good_histb (possible_statuses iv) mv tmin h = true) /\
    summary iv None = Ok rows /\ same_series rows arrays = true.
Proof. exact consistent_sound. Qed.

(* ... hence: every node history is legal, every change time of a node is a time of the
   summary, and at each of these times the returned time series, read as a step
   function, gives for each possible status the number of nodes whose node_status is it *)
Theorem C10_checker_acceptance_means :
  forall iv arrays tmin mv ps, possible_statuses iv = ps -> consistent_b iv arrays tmin mv = true ->
  (forall u, In u (iv_nodes iv) -> exists h, hist_of iv u = Ok h /\ good_histb ps mv tmin h = true) /\
  exists rows, summary iv None = Ok rows /\
    (forall u h x, In u (iv_nodes iv) -> hist_of iv u = Ok h -> In x h -> exists t, In t (map fst rows) /\ t == fst x) /\
    forall t, In t (map fst rows) -> step_at arrays t None = Some (map (count_at iv (iv_nodes iv) t) ps).
Proof. exact consistent_meaning. Qed.

(* _transform_to_node_history_ (SIR): the history of node u is a function of its
   infection and recovery time only, with the code's reset when a time equals tmin
   ([sir_history]); tables are dicts (duplicate-free keys) *)
Theorem C10_transform_SIR_spec :
  forall tmin inf rec u, NoDup (map fst inf) -> NoDup (map fst rec) ->
  assoc (transform_SIR tmin inf rec) u = sir_history tmin (assoc inf u) (assoc rec u).
Proof. exact transform_SIR_spec. Qed.

(* ... and it is a legal SIR history (starts at tmin, time-ordered, S->I->R only) when
   infection is no earlier than tmin and recovery no earlier than infection *)
Theorem C10_transform_SIR_histories_legal :
  forall tmin ti tr h,
  (forall t, ti = Some t -> tmin <= t) ->
  (forall t, tr = Some t -> exists t', ti = Some t' /\ t' <= t) ->
  sir_history tmin ti tr = Some h ->
  good_histb [stS; stI; stR] [(stS, stI); (stI, stR)] tmin h = true.
Proof. exact sir_history_good. Qed.

(* _transform_to_node_history_ (SIS): the history of node u is [sis_hist] of its own
   infection and recovery time lists; it is a legal SIS history when these alternate
   from tmin on (i1 <= r1 <= i2 <= ..., at most the last recovery missing: [alternating]) *)
Theorem C10_transform_SIS_spec :
  forall tmin inf rec u, NoDup (map fst inf) ->
  assoc (transform_SIS tmin inf rec) u =
  match assoc inf u with
  | Some (t :: its) => Some (sis_hist tmin (t :: its) (rts_of rec u) [(tmin, stS)])
  | _ => None
  end.
Proof. exact transform_SIS_spec. Qed.

Theorem C10_transform_SIS_histories_legal :
  forall tmin inf rec u h, NoDup (map fst inf) ->
  (forall its, assoc inf u = Some its -> alternating tmin its (rts_of rec u) = true) ->
  assoc (transform_SIS tmin inf rec) u = Some h ->
  good_histb [stS; stI] sis_moves tmin h = true.
Proof. exact transform_SIS_good. Qed.

(* the objects the simulators construct (transform of the infection / recovery tables,
   default history ([tmin],['S'])) ARE the object of a log: when the tables relate to the
   initial statuses and the events of each node as the simulators fill them
   ([sir_tables_ok] / [sis_tables_ok]; initially infected or recovered nodes carry the
   time tmin) and the log has strictly increasing times after tmin ([log_okb]), every
   node has the history that is the projection of the log, so C10_log_lemma applies
   verbatim: summary = the running counts of the log *)
Theorem C10_investigation_SIR_is_log_object :
  forall nodes tmin init log inf rec,
  log_okb nodes [stS; stI; stR] tmin init log = true ->
  NoDup (map fst inf) -> NoDup (map fst rec) ->
  (forall u, In u nodes -> sir_tables_ok tmin (init u) (events_of_node log u) (assoc inf u) (assoc rec u)) ->
  (forall u, In u nodes -> hist_of (investigation_SIR nodes tmin inf rec) u = Ok (project tmin init log u)) /\
  summary (investigation_SIR nodes tmin inf rec) None = Ok (log_arrays nodes [stS; stI; stR] tmin init log).
Proof. exact investigation_SIR_summary. Qed.

Theorem C10_investigation_SIS_is_log_object :
  forall nodes tmin init log inf rec,
  log_okb nodes [stS; stI] tmin init log = true -> NoDup (map fst inf) ->
  (forall u, In u nodes -> sis_tables_ok tmin (init u) (events_of_node log u) (assoc inf u) (rts_of rec u)) ->
  (forall u, In u nodes -> hist_of (investigation_SIS nodes tmin inf rec) u = Ok (project tmin init log u)) /\
  summary (investigation_SIS nodes tmin inf rec) None = Ok (log_arrays nodes [stS; stI] tmin init log).
Proof. exact investigation_SIS_summary. Qed.

(* objects that agree on the node list, the possible statuses and every node's history
   have the same summary *)
Theorem C10_summary_depends_on_histories_only :
  forall iv iv', iv_nodes iv = iv_nodes iv' -> possible_statuses iv = possible_statuses iv' ->
  (forall u, In u (iv_nodes iv) -> hist_of iv u = hist_of iv' u) ->
  summary iv None = summary iv' None.
Proof. exact summary_ext. Qed.

(* ---------------- non-vacuity ---------------- *)
(* three nodes, SIR: 0 is infected at 1/2 and recovers at 2; 1 starts infected and
   recovers at 1/2 (a shared time); 2 never changes *)
Definition ex_log : list event := [(1 # 2, 1%N, stR); (3 # 4, 0%N, stI); (2 # 1, 0%N, stR)].
Definition ex_init (u : node) : N := if N.eqb u 1 then stI else stS.
Definition ex_iv : inv := log_inv [0; 1; 2]%N [stS; stI; stR] 0 ex_init ex_log.

Example C10_ex_hypotheses :
  log_okb [0; 1; 2]%N [stS; stI; stR] 0 ex_init ex_log = true /\
  forallb (fun u => match hist_of ex_iv u with Ok h => wf_histb [stS; stI; stR] 0 h | Err _ => false end) [0; 1; 2]%N = true.
Proof. vm_compute. split; reflexivity. Qed.

Example C10_ex_summary :
  summary ex_iv None = Ok [(0, [2; 1; 0]%Z); (1 # 2, [2; 0; 1]%Z); (3 # 4, [1; 1; 1]%Z); (2 # 1, [1; 0; 2]%Z)] /\
  summary ex_iv (Some [2; 0]%N) = Ok [(0, [2; 0; 0]%Z); (3 # 4, [1; 1; 0]%Z); (2 # 1, [1; 0; 1]%Z)] /\
  node_status ex_iv 0%N (3 # 4) = Ok stI /\ node_status ex_iv 0%N 1 = Ok stI /\ node_status ex_iv 0%N 5 = Ok stR /\
  consistent_b ex_iv (log_arrays [0; 1; 2]%N [stS; stI; stR] 0 ex_init ex_log) 0 [(stS, stI); (stI, stR)] = true /\
  consistent_b ex_iv [(0, [2; 1; 0]%Z); (1 # 2, [2; 1; 0]%Z)] 0 [(stS, stI); (stI, stR)] = false.
Proof. vm_compute. repeat split. Qed.

(* the tables a simulator would hand over for ex_log: node 1 initially infected *)
Definition ex_inf : list (node * Q) := [(1%N, 0); (0%N, 3 # 4)].
Definition ex_rec : list (node * Q) := [(1%N, 1 # 2); (0%N, 2 # 1)].
Example C10_ex_tables :
  (forall u, In u [0; 1; 2]%N -> sir_tables_ok 0 (ex_init u) (events_of_node ex_log u) (assoc ex_inf u) (assoc ex_rec u)) /\
  summary (investigation_SIR [0; 1; 2]%N 0 ex_inf ex_rec) None = Ok (log_arrays [0; 1; 2]%N [stS; stI; stR] 0 ex_init ex_log) /\
  sis_tables_ok 0 stI [(1, stS); (2 # 1, stI)] (Some [0; 2 # 1]) [1].
Proof.
  split; [|split].
  - intros u [Hu|[Hu|[Hu|[]]]]; subst u.
    + right. right. left. split; [reflexivity|]. exists (3 # 4), (2 # 1). repeat split.
    + right. right. right. right. left. split; [reflexivity|]. exists (1 # 2). repeat split.
    + left. repeat split.
  - vm_compute. reflexivity.
  - right. right. split; [reflexivity|]. exists [2 # 1]. split; reflexivity.
Qed.

(* possible_statuses not given: R, then S, then I appear first in this order *)
Example C10_ex_default_statuses :
  let iv := mkInv [0; 1]%N [(0%N, [(0, stR)]); (1%N, [(0, stS); (1, stI); (2 # 1, stR)])] None None in
  possible_statuses iv = [stR; stS; stI] /\
  summary iv None = Ok [(0, [1; 1; 0]%Z); (1, [1; 0; 1]%Z); (2 # 1, [2; 0; 0]%Z)] /\
  iv_S iv = Ok [1; 0; 0]%Z /\ iv_R iv = Ok [1; 1; 2]%Z.
Proof. vm_compute. repeat split. Qed.

(* node 0 initially infected (time tmin: the default entry is dropped), recovers at 1;
   node 1 infected at 1/2, still infected; a zero-length infection at tmin keeps only R *)
Example C10_ex_transform :
  transform_SIR 0 [(0%N, 0); (1%N, 1 # 2)] [(0%N, 1)] = [(0%N, [(0, stI); (1, stR)]); (1%N, [(0, stS); (1 # 2, stI)])] /\
  sir_history 0 (Some 0) (Some 0) = Some [(0, stR)] /\
  transform_SIS 0 [(0%N, [0; 2 # 1]); (1%N, [1 # 2])] [(0%N, [1])] =
    [(0%N, [(0, stI); (1, stS); (2 # 1, stI)]); (1%N, [(0, stS); (1 # 2, stI)])] /\
  alternating 0 [0; 2 # 1] [1] = true /\ alternating 0 [1 # 2] [] = true.
Proof. vm_compute. repeat split. Qed.

Print Assumptions C10_summary_spec.
Print Assumptions C10_summary_entry_per_status.
Print Assumptions C10_default_possible_statuses.
Print Assumptions C10_summary_default_is_all_nodes.
Print Assumptions C10_ex_default_statuses.
Print Assumptions C10_tSIR_are_columns_of_summary.
Print Assumptions C10_index_of_is_position.
Print Assumptions C10_node_status_spec.
Print Assumptions C10_get_statuses_spec.
Print Assumptions C10_log_lemma.
Print Assumptions C10_checker_sound.
Print Assumptions C10_checker_acceptance_means.
Print Assumptions C10_transform_SIR_spec.
Print Assumptions C10_transform_SIR_histories_legal.
Print Assumptions C10_transform_SIS_spec.
Print Assumptions C10_transform_SIS_histories_legal.
Print Assumptions C10_investigation_SIR_is_log_object.
Print Assumptions C10_investigation_SIS_is_log_object.
Print Assumptions C10_summary_depends_on_histories_only.
Print Assumptions C10_ex_tables.
Print Assumptions C10_ex_transform.
Print Assumptions C10_ex_hypotheses.
Print Assumptions C10_ex_summary.

(* ------------------------------------------------------------------ *)
From EoNV Require Samp SampP Gillespie GillespieInv GillespieP GillespieLog GillespieC10.

(* (iv) per simulator: Gillespie_SIR / Gillespie_SIS.  Every full-data run (every graph,
   rates, weights, initial sets, every draw script): the per-node histories returned by
   node_history are the per-node projections of ONE event log, the arrays are its running
   counts, and therefore (log lemma) the summary of the histories equals the arrays —
   whenever the event times are strictly increasing after tmin (no two events at the same
   instant: probability one). *)
Theorem C10_gillespie_summary_equals_arrays :
  forall g, GillespieInv.wfg g -> NoDup (gnodes g) -> (forall u v, In v (gadj g u) -> In v (gnodes g)) ->
  forall kind tau gamma tmin tmax i0 r0 fuel out, GillespieP.wf_init g kind i0 r0 ->
    SampP.reach (Gillespie.gillespie g kind tau gamma (Some i0) r0 None tmin tmax true fuel) out ->
    exists (evs : list GillespieLog.ev) (fd : fulldata),
      so_full out = Some fd /\
      (increasing tmin evs = true ->
         fd_hist fd = iv_hist (log_inv (gnodes g) (GillespieC10.ps_of kind) tmin (GillespieP.st_init i0 (GillespieP.r0_list kind r0)) evs) /\
         so_rows out = log_arrays (gnodes g) (GillespieC10.ps_of kind) tmin (GillespieP.st_init i0 (GillespieP.r0_list kind r0)) evs /\
         (gnodes g <> [] ->
          summary (log_inv (gnodes g) (GillespieC10.ps_of kind) tmin (GillespieP.st_init i0 (GillespieP.r0_list kind r0)) evs) None
            = Ok (so_rows out))).
Proof. exact GillespieC10.gillespie_summary_equals_arrays. Qed.

(* with and without return_full_data the same draws give the same arrays (Props/C18.v,
   C18_gillespie_full_data_flag_independent), so the arrays above are also the ones the
   plain mode returns *)
Print Assumptions C10_gillespie_summary_equals_arrays.
