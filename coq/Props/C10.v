(* C10 — placeholder while the proofs are being written *)
From EoNV Require Import Prelude Graph Investigation.
