(* C11: event-driven SIR with arbitrary delays = first-passage percolation.
   Model: Model/EventSIR.v (fast_nonMarkov_SIR / fast_SIR / myQueue / percolation
   builders written as the code is).  Proofs: Proofs/EventSIR{P,Inv,Main,Char,Top}.v.

   Reading guide.  [esir_run tb g delay dur i0 r0 tmin tmax fuel] is the event loop of
   fast_nonMarkov_SIR for the user rules [delay] (None = inf) and [dur], under tie
   policy [tb] (the code's is [fifo], the heap counter); its result [sF] carries
   status, rec_time, pred_inf_time and the transmissions list [tlog sF] (newest
   first) from which the outputs are built.  [esir_okb] is the domain of the
   property as a boolean: simple adjacency inside the node list, delays/durations
   >= 0 on the graph, initial nodes in the graph and not initially recovered,
   tmin < tmax (tmax = None is infinity).  [hedge g delay dur r0 u v d]: u->v is an
   arc of H = {u->v | delay u v <= dur u} with v not initially recovered, d its
   delay.  [hpath ... v c]: a path of cost c from the initially infected set to v
   in H.  [ltmax tmax t]: t < tmax. *)
From EoNV Require Import Prelude Samp Graph EventSIR EventSIRP EventSIRInv EventSIRMain EventSIRChar EventSIRTop EventSIROut EventSIRPerc EventSIRReach EventSIRPred.

(* --- the main statement: for EVERY tie policy, every fuel >= |I0| + sum_v (deg v + 1):
   the loop ends with an empty queue, fuel not exhausted, and
   * v (not initially recovered) is infected iff tmin + dist_H(I0, v) < tmax;
   * its infection time t in transmissions satisfies t = tmin + c for some H-path of
     cost c and t <= tmin + c' for every H-path (i.e. t = tmin + distance), t < tmax;
   * source None only for initial nodes at tmin; a recorded infector u has its own
     entry tu, an H-arc u->v of delay d and t = tu + d (a shortest-path predecessor);
   * rec_time v = t + dur v and v ends recovered iff that is < tmax, else infectious;
   * initially recovered nodes stay recovered and are never infected; nobody twice. *)
Theorem esir_first_passage : forall tb g delay dur i0 r0 tmin tmax fuel,
  esir_okb g delay dur i0 r0 tmin tmax = true -> (esir_fuel g i0 <= fuel)%nat ->
  exists sF, esir_run tb g delay dur i0 r0 tmin tmax fuel = Ok sF /\
             qu sF = [] /\ percolation_spec g tmax delay dur tmin i0 r0 sF.
Proof. exact EventSIRTop.esir_first_passage. Qed.
Print Assumptions esir_first_passage.

(* esir_sound / esir_closed (DESIGN A.1 J2, J4 at termination) on their own *)
Theorem esir_sound_closed : forall tb g delay dur i0 r0 tmin tmax fuel,
  esir_okb g delay dur i0 r0 tmin tmax = true -> (esir_fuel g i0 <= fuel)%nat ->
  exists sF, esir_run tb g delay dur i0 r0 tmin tmax fuel = Ok sF /\
    sound_log g delay dur tmin i0 r0 (tlog sF) /\
    closed_log g tmax delay dur r0 (tlog sF) /\
    init_log tmin i0 (tlog sF) /\
    (forall e, ~ In e (qu sF)).
Proof. exact EventSIRTop.esir_sound_closed_ok. Qed.
Print Assumptions esir_sound_closed.

(* the queue invariant (J0-J5) is preserved by every pop, for every tie policy *)
Theorem esir_queue_invariant : forall tb g tmax delay dur tmin i0 r0,
  (forall u v d, In u (gnodes g) -> In v (gadj g u) -> delay u v = Some d -> 0 <= d) ->
  (forall u d, In u (gnodes g) -> dur u = Some d -> 0 <= d) ->
  (forall u, In u (gnodes g) -> NoDup (gadj g u)) ->
  ltmax tmax tmin ->
  forall c s e q', Inv g tmax delay dur tmin i0 r0 c s -> qu s = e :: q' ->
  (forall src v, qe e = ETrans src v -> In v (gnodes g)) ->
  Inv g tmax delay dur tmin i0 r0 (qt e) (step_det tb g tmax delay dur e (set_qu s q')).
Proof. exact step_det_inv. Qed.
Print Assumptions esir_queue_invariant.

(* generic: a sound and closed transmission log is the truncated shortest-path solution *)
Theorem bellman_char : forall g tmax delay dur tmin i0 r0,
  (forall u v d, In u (gnodes g) -> In v (gadj g u) -> delay u v = Some d -> 0 <= d) ->
  forall l,
  sound_log g delay dur tmin i0 r0 l -> closed_log g tmax delay dur r0 l -> init_log tmin i0 l ->
  NoDup (map snd l) -> (forall t s v, In (t, s, v) l -> ltmax tmax t) ->
  (forall v, infd l v <-> exists c, hpath g delay dur i0 r0 v c /\ ltmax tmax (tmin + c)) /\
  (forall t s v, In (t, s, v) l ->
     (exists c, hpath g delay dur i0 r0 v c /\ t == tmin + c) /\
     (forall c', hpath g delay dur i0 r0 v c' -> t <= tmin + c')) /\
  (forall t u v, In (t, Some u, v) l ->
     exists tu su d, In (tu, su, u) l /\ hedge g delay dur r0 u v d /\ t == tu + d).
Proof. exact bellman_char_log. Qed.
Print Assumptions bellman_char.

(* ties: any two tie policies (orders in which the queue meets simultaneous events)
   give the same infection times and the same final statuses *)
Theorem esir_tie_independent : forall tb1 tb2 g delay dur i0 r0 tmin tmax,
  esir_okb g delay dur i0 r0 tmin tmax = true ->
  exists s1 s2,
    esir_run tb1 g delay dur i0 r0 tmin tmax (esir_fuel g i0) = Ok s1 /\
    esir_run tb2 g delay dur i0 r0 tmin tmax (esir_fuel g i0) = Ok s2 /\
    (forall v t1 a1 t2 a2, In (t1, a1, v) (tlog s1) -> In (t2, a2, v) (tlog s2) -> t1 == t2) /\
    (forall v, stat s1 v = stS <-> stat s2 v = stS) /\
    (forall v, stat s1 v = stR <-> stat s2 v = stR).
Proof. exact EventSIRTop.esir_tie_independent. Qed.
Print Assumptions esir_tie_independent.

(* the user's rules are consulted at most once per argument (so "the value returned" is
   well defined), and only for nodes that get infected *)
Theorem esir_rules_once : forall tb g delay dur i0 r0 tmin tmax fuel,
  esir_okb g delay dur i0 r0 tmin tmax = true -> (esir_fuel g i0 <= fuel)%nat ->
  exists sF, esir_run tb g delay dur i0 r0 tmin tmax fuel = Ok sF /\
             NoDup (olog sF) /\ (forall u x, In (u, x) (olog sF) -> infd (tlog sF) u).
Proof. exact EventSIROut.esir_rules_once. Qed.
Print Assumptions esir_rules_once.

(* the sampler entry point (the one fast_SIR goes through) with table rules returns, on
   every draw script, what the deterministic run returns: the loop is shared *)
Theorem fast_nonmarkov_is_esir_det : forall tb g delay dur i0 r0 tmin tmax full fuel ds,
  fst (exec (fast_nonmarkov tb g (det_provider delay dur) (Some i0) r0 None tmin tmax full fuel) ds []) =
  esir_det tb g delay dur i0 (match r0 with Some l => l | None => [] end) tmin tmax full fuel.
Proof. exact fast_nonmarkov_exec. Qed.
Print Assumptions fast_nonmarkov_is_esir_det.

(* outputs: the arrays are the rows after the |I0| set-up entries; when full data is
   returned its transmissions() is the log the theorems above speak about *)
Theorem esir_det_arrays : forall tb g delay dur i0 r0 tmin tmax fuel sF,
  esir_run tb g delay dur i0 r0 tmin tmax fuel = Ok sF ->
  esir_det tb g delay dur i0 r0 tmin tmax false fuel =
  Ok (mkOut (skipn (length i0) (rev (rows sF))) None, rev (olog sF)).
Proof. exact EventSIROut.esir_det_arrays. Qed.
Print Assumptions esir_det_arrays.

(* both return modes return (the ValueErr branch of the model = an infinite time inside a node
   history is unreachable), and for every infected node pred_inf_time = its infection time in
   transmissions() (DESIGN A.1 J3b; the code's comment "when finally infected, pred_inf_time is
   correct"), so the infection entry of node_history agrees with transmissions() *)
Theorem esir_det_full : forall tb g delay dur i0 r0 tmin tmax full fuel,
  esir_okb g delay dur i0 r0 tmin tmax = true -> (esir_fuel g i0 <= fuel)%nat ->
  exists sF o cs, esir_run tb g delay dur i0 r0 tmin tmax fuel = Ok sF /\
    esir_det tb g delay dur i0 r0 tmin tmax full fuel = Ok (o, cs) /\
    (forall t sr v, In (t, sr, v) (tlog sF) -> exists p, predt sF v = Some (Some p) /\ p == t).
Proof. exact esir_det_full_ok. Qed.
Print Assumptions esir_det_full.

(* when full data is returned its transmissions() is the log the theorems speak about *)
Theorem esir_det_transmissions : forall tb g delay dur i0 r0 tmin tmax fuel sF o cs,
  esir_run tb g delay dur i0 r0 tmin tmax fuel = Ok sF ->
  esir_det tb g delay dur i0 r0 tmin tmax true fuel = Ok (o, cs) ->
  exists hs, so_full o = Some (mkFull hs (rev (tlog sF))) /\ cs = rev (olog sF).
Proof. exact EventSIROut.esir_det_transmissions. Qed.
Print Assumptions esir_det_transmissions.

(* percolation builders: nonMarkov_directed_percolate_network_with_timing builds exactly H
   (same nodes; attribute duration; arc u->v with attribute delay iff delay <= duration) *)
Theorem perc_builder_spec : forall g delay dur,
  map pn (perc_build g delay dur) = gnodes g /\
  (forall p, In p (perc_build g delay dur) -> pdur p = dur (pn p)) /\
  (forall p v d, In p (perc_build g delay dur) ->
     (In (v, d) (pout p) <-> In v (gadj g (pn p)) /\ d = delay (pn p) v /\ xleb d (dur (pn p)) = true)).
Proof. exact EventSIRPerc.perc_builder_spec. Qed.
Print Assumptions perc_builder_spec.

Theorem perc_calls_once : forall g,
  NoDup (gnodes g) -> (forall u, In u (gnodes g) -> NoDup (gadj g u)) -> NoDup (perc_calls g).
Proof. exact EventSIRPerc.perc_calls_once. Qed.
Print Assumptions perc_calls_once.

(* get_infected_nodes = out-component of the initially infected nodes in that graph minus the
   initially recovered nodes ([preach]: reachable through arcs whose head is not removed);
   nx.descendants is taken by its specification (reachability) *)
Theorem get_infected_spec : forall g delay dur i0 r0,
  NoDup (gnodes g) ->
  (forall u v, In u (gnodes g) -> In v (gadj g u) -> In v (gnodes g)) ->
  (forall u, In u i0 -> In u (gnodes g)) ->
  forall v, In v (get_infected_det g delay dur i0 r0) <-> preach (perc_build g delay dur) r0 i0 v.
Proof. exact EventSIRReach.get_infected_spec. Qed.
Print Assumptions get_infected_spec.

Theorem perc_arc_spec : forall g delay dur removed u v,
  In v (psucc (perc_build g delay dur) removed u) <->
  In u (gnodes g) /\ In v (gadj g u) /\ xleb (delay u v) (dur u) = true /\ ~ In v removed.
Proof. exact psucc_perc. Qed.
Print Assumptions perc_arc_spec.

(* ---------------- non-vacuity ---------------- *)
Definition g3 : graph :=
  mkGraph [0;1;2]%N (fun u => if N.eqb u 0 then [1;2]%N else if N.eqb u 1 then [0;2]%N else [0;1]%N)
          (fun u => if N.eqb u 0 then [1;2]%N else if N.eqb u 1 then [0;2]%N else [0;1]%N)
          false (fun _ _ => 1) (fun _ => 1) false false.
Definition d3 (u v : node) : xtime := if N.eqb u 0 && N.eqb v 2 then Some 3 else Some 1.
Definition r3 (u : node) : xtime := Some 2.

(* a triangle, delays 0->1 = 1, 0->2 = 3 (> duration 2: not an arc of H), others 1:
   the hypotheses hold, and node 2 is reached through node 1 at tmin + 2 *)
Example esir_ok_example : esir_okb g3 d3 r3 [0%N] [] (1#2) (Some 5) = true.
Proof. vm_compute. reflexivity. Qed.
Print Assumptions esir_ok_example.

Example esir_runs :
  match esir_det fifo g3 d3 r3 [0%N] [] (1#2) None true (esir_fuel g3 [0%N]) with
  | Ok (o, _) => map (fun r => Qred (fst r)) (so_rows o) = [1#2; 3#2; 5#2; 5#2; 7#2; 9#2]
  | Err _ => False
  end.
Proof. vm_compute. reflexivity. Qed.
Print Assumptions esir_runs.

(* with tmax = 5 the recovery of node 2 (at 9/2) is still reported, with tmax = 9/2 it is not,
   and node 2 is left infectious *)
Example esir_truncation :
  match esir_run fifo g3 d3 r3 [0%N] [] (1#2) (Some (9#2)) (esir_fuel g3 [0%N]) with
  | Ok s => (stat s 2%N, stat s 1%N, map (fun e => (Qred (fst (fst e)), snd e)) (tlog s)) =
            (stI, stR, [(5#2, 2%N); (3#2, 1%N); (1#2, 0%N)])
  | Err _ => False
  end.
Proof. vm_compute. reflexivity. Qed.
Print Assumptions esir_truncation.

Example get_infected_example : get_infected_det g3 d3 r3 [0%N] [1%N] = [0%N].
Proof. vm_compute. reflexivity. Qed.
Print Assumptions get_infected_example.
