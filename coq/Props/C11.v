(* C11: event-driven SIR with arbitrary delays = first-passage percolation.
   (theorems are added below as they are proved in Proofs/EventSIRP*.v) *)
From EoNV Require Import Prelude Samp Graph EventSIR.

Definition g3 : graph :=
  mkGraph [0;1;2]%N (fun u => if N.eqb u 0 then [1;2]%N else if N.eqb u 1 then [0;2]%N else [0;1]%N)
          (fun u => if N.eqb u 0 then [1;2]%N else if N.eqb u 1 then [0;2]%N else [0;1]%N)
          false (fun _ _ => 1) (fun _ => 1) false false.

(* non-vacuity: a triangle, delays 0->1 = 1, 0->2 = 3, 1->2 = 1, durations 2: node 2 is
   reached through node 1 at tmin + 2, not directly at tmin + 3 (which exceeds the duration) *)
Example esir_runs :
  match esir_det fifo g3 (fun u v => if N.eqb u 0 && N.eqb v 2 then Some 3 else Some 1) (fun _ => Some 2)
          [0%N] [] (1#2) None true (esir_fuel g3 [0%N]) with
  | Ok (o, _) => map (fun r => Qred (fst r)) (so_rows o) = [1#2; 3#2; 5#2; 5#2; 7#2; 9#2]
  | Err _ => False
  end.
Proof. vm_compute. reflexivity. Qed.
Print Assumptions esir_runs.
