(* C09 for the event-driven SIS simulators — recorded transmissions are causally valid
   and complete.  fast_SIS (every draw script via [exec]) and fast_nonMarkov_SIS
   ([nm_run], every rule table).  Statements only; proofs in Proofs/EventSIS{Rows,Log,
   Fast,NM,Out}.v.

   Every full-data run returns transmissions() = one source-less entry per initial node
   (time tmin), followed by the list [txs]; [evs] is the event log after the initial
   condition, chronological (time, node, new status), whose running counts are the
   returned rows.  Checkers (executable, chronological, replaying the statuses from
   "i0 infectious, everybody else susceptible"):
     [valid_logT g st0 evs txs] (Proofs/EventSISOut.v)  the TARGET half: every infection
        event carries exactly one entry of [txs], in order, with the same time and target,
        SOURCED, along an edge source -> target of the graph, and hits a node that is
        susceptible just before; every recovery hits an infectious node;
     [valid_logb g SIS st0 evs txs] (Proofs/GillespieLog.v, the checker of Props/C09.v)
        additionally: the source is infectious in the replayed statuses at that moment;
     [strict_chron evs txs]  every transmission from u recorded before a recovery of u has
        a time STRICTLY smaller than that recovery: with the previous clause and the time
        order of the log (C04) a transmission at t lies in [infection of u, recovery of u).

   fast_SIS: all three, on every script (the source is strictly inside its infectious
   period because an attempt is queued only when its time is < rec_time[source]).
   fast_nonMarkov_SIS: what the model guarantees depends on the user's delays.
     * rules_ok only (durations, delays >= 0, delay lists non-decreasing): the target half.
       Nothing forces the source to be infectious: the code fires every listed delay, also
       one that is later than the duration the user returned for the same infection.
     * rules_ok + rules_strict (every delay STRICTLY smaller than the duration of the same
       infection — the documented contract "all delays are before recovery", strict form):
       all three clauses, as for fast_SIS.
     With a delay EQUAL to the duration the recovery is processed first (it was queued
     first), so the source is already susceptible in the replayed statuses although the
     times coincide; this measure-zero tie is outside the strict theorem and inside the
     weak one (the harness oracle counts it as valid: closed interval, DESIGN C09). *)
From EoNV Require Import Prelude Samp Graph ListDict ListDictP Gillespie KldP GillespieInv SampP GillespieP GillespieLog.
From EoNV Require Import Investigation InvestigationP GillespieC10.
From EoNV Require Import EventSIS EventSISP EventSISRows EventSISLog EventSISFast EventSISNM EventSISOut EventSISClock EventSISProv EventSISEx.

Section C09esis.
Variable g : graph.
Hypothesis Hnd : NoDup (gnodes g).
Hypothesis Hadj : forall u v, In v (gadj g u) -> In v (gnodes g).

Theorem C09_fast_SIS_full_output :
  forall tau gamma tmax tmin i0 fuel ds out tr,
    xlt tmin tmax = true -> NoDup i0 -> incl i0 (gnodes g) ->
    exec (fast_SIS g tau gamma tmax (Some i0) None tmin true fuel) ds [] = (Ok out, tr) ->
    exists (evs : list ev) (txs : list tx),
      ((exists fd, so_full out = Some fd /\ fd_trans fd = map (fun u => (tmin, None, u)) i0 ++ txs) /\
       so_rows out = log_arrays (gnodes g) [stS; stI] tmin (st_init i0 []) evs /\
       length txs = cinf evs /\
       valid_logT g (st_init i0 []) evs txs = true) /\
      valid_logb g SIS (st_init i0 []) evs txs = true /\ strict_chron evs txs.
Proof. exact (fsis_C09 g Hnd Hadj). Qed.

Theorem C09_fast_nonMarkov_SIS_full_output :
  forall dur delays tmax tmin i0 fuel out,
    xlt tmin tmax = true -> NoDup i0 -> incl i0 (gnodes g) -> rules_ok dur delays ->
    nm_run g dur delays tmax tmin true fuel i0 = Ok out ->
    exists (evs : list ev) (txs : list tx),
      ((exists fd, so_full out = Some fd /\ fd_trans fd = map (fun u => (tmin, None, u)) i0 ++ txs) /\
       so_rows out = log_arrays (gnodes g) [stS; stI] tmin (st_init i0 []) evs /\
       length txs = cinf evs /\
       valid_logT g (st_init i0 []) evs txs = true).
Proof. exact (nmsis_C09W g Hnd Hadj). Qed.

Theorem C09_fast_nonMarkov_SIS_full_output_under_the_contract :
  forall dur delays tmax tmin i0 fuel out,
    xlt tmin tmax = true -> NoDup i0 -> incl i0 (gnodes g) -> rules_ok dur delays -> rules_strict dur delays ->
    nm_run g dur delays tmax tmin true fuel i0 = Ok out ->
    exists (evs : list ev) (txs : list tx),
      ((exists fd, so_full out = Some fd /\ fd_trans fd = map (fun u => (tmin, None, u)) i0 ++ txs) /\
       so_rows out = log_arrays (gnodes g) [stS; stI] tmin (st_init i0 []) evs /\
       length txs = cinf evs /\
       valid_logT g (st_init i0 []) evs txs = true) /\
      valid_logb g SIS (st_init i0 []) evs txs = true /\ strict_chron evs txs.
Proof. exact (nmsis_C09_strict g Hnd Hadj). Qed.

(* where a transmission of fast_nonMarkov_SIS comes from (rules_ok only): a sourced entry
   (t, u, v) is t = s + d for the k-th infection (s, u, I) of u in the log and a delay d the
   user's rule returned for exactly that infection.  The code schedules the recovery of
   that infection at s + dur u k (rec_time[u] = time + duration). *)
Theorem C09_fast_nonMarkov_SIS_provenance :
  forall dur delays tmax tmin i0 fuel out,
    xlt tmin tmax = true -> NoDup i0 -> incl i0 (gnodes g) -> rules_ok dur delays ->
    nm_run g dur delays tmax tmin true fuel i0 = Ok out ->
    exists (evs : list ev) (txs : list tx),
      ((exists fd, so_full out = Some fd /\ fd_trans fd = map (fun u => (tmin, None, u)) i0 ++ txs) /\
       so_rows out = log_arrays (gnodes g) [stS; stI] tmin (st_init i0 []) evs /\
       length txs = cinf evs /\
       valid_logT g (st_init i0 []) evs txs = true) /\
      forall t u v, In (t, Some u, v) txs ->
        exists s k d, kth_infection (map (fun x => (tmin, x, stI)) i0 ++ evs) s u k /\
                      In d (delays u v k) /\ t = tadd s d.
Proof. exact (nmsis_provenance g Hnd Hadj). Qed.

(* hence, under the documented contract read non-strictly ([rules_contract]: every delay <=
   the duration of the same infection): the transmission lies in the CLOSED infectious
   period [s, s + dur u k] of its source.  (At t = s + dur u k the recovery, queued first,
   is processed first: the source is then already susceptible in the replayed statuses —
   see the tie example below; this is why the status-level theorem needs the strict form.) *)
Theorem C09_fast_nonMarkov_SIS_closed_infectious_period :
  forall dur delays tmax tmin i0 fuel out,
    xlt tmin tmax = true -> NoDup i0 -> incl i0 (gnodes g) -> rules_ok dur delays -> rules_contract dur delays ->
    nm_run g dur delays tmax tmin true fuel i0 = Ok out ->
    exists (evs : list ev) (txs : list tx),
      ((exists fd, so_full out = Some fd /\ fd_trans fd = map (fun u => (tmin, None, u)) i0 ++ txs) /\
       so_rows out = log_arrays (gnodes g) [stS; stI] tmin (st_init i0 []) evs /\
       length txs = cinf evs /\
       valid_logT g (st_init i0 []) evs txs = true) /\
      forall t u v, In (t, Some u, v) txs ->
        exists s k, kth_infection (map (fun x => (tmin, x, stI)) i0 ++ evs) s u k /\ s <= t /\ t <= tadd s (dur u k).
Proof. exact (nmsis_closed_period g Hnd Hadj). Qed.

(* what the checkers say, event by event.  k-th event (t, x, s) of the log:
   s = I: x is susceptible in the statuses replayed up to it, and the entry of txs at
          position "number of earlier infections" is (t', Some u, x) with t' == t along the
          edge u -> x;   s = S: x is infectious there *)
Theorem C09esis_target_half :
  forall evs txs st, valid_logT g st evs txs = true ->
    forall k t x s, nth_error evs k = Some (t, x, s) ->
      (s = stI /\ replay st (firstn k evs) x = stS /\
       exists t' u, nth_error txs (cinf (firstn k evs)) = Some (t', Some u, x) /\ t == t' /\ In x (gadj g u)) \/
      (s = stS /\ replay st (firstn k evs) x = stI).
Proof. exact (valid_logT_read g). Qed.

(* no entry of txs is source-less or left over: source-less entries are only the initial ones *)
Theorem C09esis_every_later_entry_is_sourced :
  forall evs txs st, valid_logT g st evs txs = true ->
    Forall (fun x : tx => exists u, snd (fst x) = Some u /\ In (snd x) (gadj g u)) txs.
Proof. exact (valid_logT_sourced g). Qed.

(* ... and with the source check the source of that entry is infectious there *)
Theorem C09esis_source_is_infectious :
  forall evs txs st, valid_logb g SIS st evs txs = true ->
    forall k t x, nth_error evs k = Some (t, x, stI) ->
      exists t' u, nth_error txs (cinf (firstn k evs)) = Some (t', Some u, x) /\
                   replay st (firstn k evs) u = stI.
Proof. exact (valid_logb_read_src g). Qed.

(* sources were infected earlier or initially (no cycles backwards in time), as for Gillespie *)
Theorem C09esis_sources_infected_earlier :
  forall evs txs st, valid_logb g SIS st evs txs = true ->
    forall a t u v b, txs = a ++ (t, Some u, v) :: b ->
      (st u = stI \/ In u (map (fun x : tx => snd x) a)) /\ In v (gadj g u).
Proof. exact (vl_sources g SIS). Qed.

End C09esis.

(* [strict_chron] is stated in plain terms; unfolded for the reader *)
Theorem C09esis_strictly_before_recovery :
  forall evs txs, strict_chron evs txs ->
    forall pre r u post, evs = pre ++ (r, u, stS) :: post ->
      forall t v, In (t, Some u, v) (firstn (cinf pre) txs) -> t < r.
Proof. exact (fun evs txs H => H). Qed.

(* ---------------- non-vacuity ---------------- *)
Example C09esis_hypotheses_satisfiable :
  NoDup (gnodes gp) /\ (forall u v, In v (gadj gp u) -> In v (gnodes gp)) /\
  NoDup [0%N] /\ incl [0%N] (gnodes gp) /\ rules_ok durS delS /\ rules_strict durS delS.
Proof. exact (conj gp_nodup (conj gp_adj (conj (proj1 i0_ok) (conj (proj2 i0_ok) (conj exS_rules_ok exS_rules_strict))))). Qed.

(* the fast_SIS example: six sourced transmissions, node 0 is re-infected twice by node 1 *)
Example C09esis_fast_SIS_example :
  exists out tr, exec (fast_SIS gp 2 1 (Some 2) (Some [0%N]) None 0 true 100) script3 [] = (Ok out, tr) /\
    match so_full out with
    | Some fd => map (fun x : tx => (Qred (fst (fst x)), snd (fst x), snd x)) (fd_trans fd) = fs_trans
    | None => False end.
Proof.
  destruct (exec (fast_SIS gp 2 1 (Some 2) (Some [0%N]) None 0 true 100) script3 []) as [[out|e] tr] eqn:E;
    [|vm_compute in E; discriminate E].
  exists out, tr. split; [reflexivity|]. vm_compute in E. injection E as <- _. reflexivity.
Qed.

(* the non-Markov example inside the strict contract: eight sourced transmissions *)
Example C09esis_fast_nonMarkov_SIS_example :
  exists out evs txs, nm_run gp durS delS (Some 4) 0 true 100 [0%N] = Ok out /\
    (exists fd, so_full out = Some fd /\ fd_trans fd = (0, None, 0%N) :: txs) /\ length txs = 8%nat /\
    valid_logb gp SIS (st_init [0%N] []) evs txs = true /\ strict_chron evs txs.
Proof.
  destruct (nm_run gp durS delS (Some 4) 0 true 100 [0%N]) as [out|e] eqn:E; [|vm_compute in E; discriminate E].
  destruct (C09_fast_nonMarkov_SIS_full_output_under_the_contract gp gp_nodup gp_adj durS delS (Some 4) 0 [0%N] 100 out
              eq_refl (proj1 i0_ok) (proj2 i0_ok) exS_rules_ok exS_rules_strict E) as [evs [txs [[[fd [F1 F2]] _] K]]].
  exists out, evs, txs. split; [reflexivity|]. split; [exists fd; split; assumption|].
  split; [|exact K].
  vm_compute in E. injection E as <-. cbn [so_full] in F1. injection F1 as <-. cbn [fd_trans map app] in F2.
  injection F2 as <-. reflexivity.
Qed.

(* the tie: delay = duration.  Inside rules_ok and the non-strict contract, outside the strict
   one; the recovery of node 0 at time 1 is reported BEFORE its transmission to node 1 at
   time 1 (rows: S,I = 1,1 -> 2,0 -> 1,1) *)
Example C09esis_tie_example :
  rules_ok durT delT /\ rules_contract durT delT /\ ~ rules_strict durT delT /\
  exists out, nm_run g2 durT delT (Some 3) 0 true 50 [0%N] = Ok out /\
    map (fun x : row => (Qred (fst x), snd x)) (so_rows out) = [(0, [1; 1]%Z); (1, [2; 0]%Z); (1, [1; 1]%Z)] /\
    match so_full out with
    | Some fd => map (fun x : tx => (Qred (fst (fst x)), snd (fst x), snd x)) (fd_trans fd) = [(0, None, 0%N); (1, Some 0%N, 1%N)]
    | None => False end.
Proof.
  split; [exact exT_rules_ok|]. split; [exact exT_rules_contract|]. split; [exact exT_not_strict|].
  destruct (nm_run g2 durT delT (Some 3) 0 true 50 [0%N]) as [out|e] eqn:E; [|vm_compute in E; discriminate E].
  exists out. split; [reflexivity|]. vm_compute in E. injection E as <-. split; reflexivity.
Qed.

Print Assumptions C09_fast_SIS_full_output.
Print Assumptions C09_fast_nonMarkov_SIS_provenance.
Print Assumptions C09_fast_nonMarkov_SIS_closed_infectious_period.
Print Assumptions C09esis_tie_example.
Print Assumptions C09_fast_nonMarkov_SIS_full_output.
Print Assumptions C09_fast_nonMarkov_SIS_full_output_under_the_contract.
Print Assumptions C09esis_target_half.
Print Assumptions C09esis_every_later_entry_is_sourced.
Print Assumptions C09esis_source_is_infectious.
Print Assumptions C09esis_sources_infected_earlier.
Print Assumptions C09esis_strictly_before_recovery.
Print Assumptions C09esis_hypotheses_satisfiable.
Print Assumptions C09esis_fast_SIS_example.
Print Assumptions C09esis_fast_nonMarkov_SIS_example.
