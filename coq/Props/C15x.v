(* C15, exec level with calls — Gillespie_complex_contagion under EVERY draw script.
   Props/C15.v (C15_every_run) already shows that a scripted run is a sequence of events on
   nodes of G with the invariant all along.  This file adds what that statement leaves implicit:
   the calls made to the random source (the waiting time IS drawn with total_weight() = the sum
   of the user's rate function over ALL nodes on the CURRENT statuses; choose_random is offered
   exactly the nodes whose current rate is positive), that every event node has a positive current
   rate, that event times never go back and stay below tmax, and the complete log of calls to the
   user's three functions: for every event transition_choice on the statuses before, then --
   AFTER the status change -- rate_function at the node, get_influence_set at the node and
   rate_function at exactly the members of the influence set; nothing else is ever re-rated.
   Rows, node histories and the user-call log are functions of ONE chronological event list.
   Proofs: Proofs/ComplexExec.v (over the call-trace relation of Proofs/SimpleExecS.v). *)
From EoNV Require Import Prelude Samp Graph ListDict ListDictP Gillespie KldP Complex ComplexP ComplexRefine SimpleExecS ComplexExec.

Section C15x.
Variable g : graph.
Variable rate : smap -> node -> Q.            (* rate_function(G, u, status, parameters) *)
Variable choice : smap -> node -> N.          (* transition_choice(G, u, status, parameters) *)
Variable infl : smap -> node -> list node.    (* get_influence_set(G, u, status, parameters) *)
Variable rstats : list N.
Variable tmin : Q.
Variable tmax : xtime.
Variable full : bool.
Hypothesis Hnd : NoDup (gnodes g).
Hypothesis rate_nonneg : forall st u, 0 <= rate st u.
Hypothesis infl_in : forall st u v, In u (gnodes g) -> In v (infl st u) -> In v (gnodes g).
Hypothesis covers : influence_covers g rate infl.

(* every returning run: the initial fill (one rate_function call per node on the initial
   statuses), then a sequence of steps, then the stop rule; the trace logged by exec is exactly
   the calls of those steps followed by those of the stop rule *)
Theorem C15x_every_returning_run :
  forall (ic : node -> option N) fuel ds out tr,
  (forall u, In u (gnodes g) -> ic u <> None) ->
  exec (complex g rate choice infl rstats tmin tmax full ic fuel) ds [] = (Ok out, tr) ->
  let st0 := fun u => match ic u with Some s => s | None => 0%N end in
  exists lc l1 l2 t' s',
    fill g rate st0 = Ok lc /\ cgood g rate rstats (init_state g rstats tmin st0 lc) /\
    snd lc = rev (map (call_rate g st0) (gnodes g)) /\
    tr = l1 ++ l2 /\
    crun g rate choice infl rstats tmax full tmin (init_state g rstats tmin st0 lc) l1 t' s' /\
    cstop g rate tmax t' s' l2 /\
    cfinish g rstats tmin full st0 s' = Ret out.
Proof. exact (complex_exec_ok g rate choice infl rstats tmin tmax full Hnd rate_nonneg infl_in covers). Qed.

(* the calls of one step: expovariate(total_weight()) with total_weight() == the sum of the
   user's rates over all nodes on the current statuses; choose_random among exactly the nodes
   with a positive current rate, each with that rate as its weight *)
Theorem C15x_step_calls :
  forall t s l t1 s1, cinv g rate s -> cstep g rate choice infl rstats tmax full t s l t1 s1 ->
  exists l0, l = CExpo (ld_total_weight key (cnbr s)) :: l0 /\
    ld_total_weight key (cnbr s) == total_rate g rate (cstat s) /\
    choose_calls true (kl_cands (cnbr s)) l0 /\
    (forall k w, In (k, w) (kl_cands (cnbr s)) ->
       exists u, k = knode u /\ In u (gnodes g) /\ 0 < w /\ w == rate (cstat s) u) /\
    (forall u, In u (gnodes g) -> 0 < rate (cstat s) u -> exists w, In (knode u, w) (kl_cands (cnbr s))).
Proof. exact (cstep_calls g rate choice infl rstats tmax full Hnd rate_nonneg). Qed.

(* the effect of one step: the node had a positive current rate; only it changes, to the chooser's
   answer; one row; the user functions are called on the statuses AFTER the change, for exactly
   the node and its influence set *)
Theorem C15x_step_effect :
  forall t s l t1 s1, cinv g rate s -> cstep g rate choice infl rstats tmax full t s l t1 s1 ->
  exists u, In u (gnodes g) /\ 0 < rate (cstat s) u /\ t <= t1 /\ xlt t1 tmax = true /\
    cinv g rate s1 /\
    cstat s1 = fupdN (cstat s) u (choice (cstat s) u) /\
    crows s1 = (t1, bump rstats (cstat s u) (choice (cstat s) u) (hd_counts (crows s))) :: crows s /\
    celog s1 = (if full then (t1, u, choice (cstat s) u) :: celog s else celog s) /\
    ccalls s1 = rev (ev_calls g choice infl (cstat s) u) ++ ccalls s.
Proof. exact (cstep_effect g rate choice infl rstats tmax full rate_nonneg infl_in covers). Qed.

Theorem C15x_calls_of_one_event :
  forall st u, ev_calls g choice infl st u =
  let st' := fupdN st u (choice st u) in
  call_choice g st u :: call_rate g st' u :: call_infl g st' u :: map (call_rate g st') (infl st' u).
Proof. reflexivity. Qed.

(* the whole output: ONE chronological event list; rows = its running counts, user-call log =
   the initial fill then the calls of its events, node histories = its per-node projections *)
Theorem C15x_output_is_one_log :
  forall (ic : node -> option N) fuel ds out tr,
  (forall u, In u (gnodes g) -> ic u <> None) ->
  exec (complex g rate choice infl rstats tmin tmax full ic fuel) ds [] = (Ok out, tr) ->
  let st0 := fun u => match ic u with Some s => s | None => 0%N end in
  exists evs st' t',
    clog g rate choice tmax st0 tmin evs st' t' /\
    so_rows (fst out) = (tmin, counts g rstats st0) :: map (row_of g rstats) (statuses choice st0 evs) /\
    snd out = map (call_rate g st0) (gnodes g) ++ run_calls g choice infl st0 evs /\
    so_full (fst out) =
      (if full then Some (mkFull (map (fun u => (u, (tmin, st0 u) :: node_events u (ev_elog choice st0 evs))) (gnodes g)) [])
       else None).
Proof. exact (complex_exec_output g rate choice infl rstats tmin tmax full Hnd rate_nonneg infl_in covers). Qed.

(* reading [clog]: every event node has a positive rate in the statuses of its moment (by the
   definition of clog), the clock never goes back, every event time is below tmax *)
Theorem C15x_log_times :
  forall st t evs st' t', clog g rate choice tmax st t evs st' t' ->
  t <= t' /\ Forall (fun e => t <= fst e /\ fst e <= t' /\ xlt (fst e) tmax = true) evs.
Proof. exact (clog_times g rate choice tmax). Qed.

Theorem C15x_log_first_event :
  forall st t t1 u l st' t', clog g rate choice tmax st t ((t1, u) :: l) st' t' ->
  t <= t1 /\ xlt t1 tmax = true /\ In u (gnodes g) /\ 0 < rate st u /\
  clog g rate choice tmax (fupdN st u (choice st u)) t1 l st' t'.
Proof. intros st t t1 u l st' t' H. inversion H; subst. repeat split; assumption. Qed.

(* every loop head of a run satisfies the invariant (and the rows invariant) *)
Theorem C15x_every_loop_head_is_good :
  forall t s l t' s', crun g rate choice infl rstats tmax full t s l t' s' -> cgood g rate rstats s ->
  cgood g rate rstats s'.
Proof.
  intros t s l t' s' H Hg.
  destruct (crun_log g rate choice infl rstats tmax full Hnd rate_nonneg infl_in covers t s l t' s' H Hg) as [evs [_ [Hg' _]]].
  exact Hg'.
Qed.

(* the property's law clause at EVERY loop head of EVERY run: the node that changes next is u with
   probability rate(u)/sum of rates, rates = the user's function on the CURRENT statuses *)
Theorem C15x_step_law_at_every_loop_head :
  forall t s l t' s', crun g rate choice infl rstats tmax full t s l t' s' -> cgood g rate rstats s ->
  cinv g rate s' /\
  forall u, In u (gnodes g) -> 0 < total_rate g rate (cstat s') ->
    prob (fun o => N.eqb (fst o) u) (law (jump choice s')) == rate (cstat s') u / total_rate g rate (cstat s').
Proof. exact (crun_law g rate choice infl rstats tmax full Hnd rate_nonneg infl_in covers). Qed.

(* no Python-level error, for every draw script: in plain mode, or in full-data mode when
   return_statuses contains the initial statuses and every answer of the chooser (and G has a
   node), a run ends in Ok, or the script / the model's fuel ran out.  (C15_every_run leaves the
   full-data constructor's KeyError / IndexError open; this closes it inside that domain.) *)
Theorem C15x_never_a_python_error :
  forall (ic : node -> option N) fuel ds e tr,
  (forall u, In u (gnodes g) -> ic u <> None) ->
  full = false \/
  (gnodes g <> [] /\ (forall u s, In u (gnodes g) -> ic u = Some s -> In s rstats) /\ (forall st u, In (choice st u) rstats)) ->
  exec (complex g rate choice infl rstats tmin tmax full ic fuel) ds [] = (Err e, tr) ->
  e = OutOfDraws \/ e = OutOfFuel.
Proof. exact (complex_exec_never_crashes g rate choice infl rstats tmin tmax full Hnd rate_nonneg infl_in covers). Qed.

End C15x.

(* non-vacuity: the threshold contagion on a triangle of Props/C15.v satisfies every hypothesis
   (C15_example_hypotheses) and its scripted run logs expovariate(7/2) [= 1 + 1 + 3/2], a choice
   among all three nodes with the accept test of the chosen weight, then expovariate(3), ... *)
Example C15x_example :
  NoDup (gnodes ex_graph) /\
  influence_covers ex_graph (fam_rate ex_graph ex_model) (fam_infl ex_graph ex_model) /\
  snd ex_run = [CExpo (7 # 2); CPick [[0]; [1]; [2]]%N; CAcc (3 # 2); CExpo (12 # 4);
                CPick [[0]; [1]; [2]]%N; CAcc 1; CExpo (8 # 4)].
Proof. split; [exact ex_nodup|]. split; [exact ex_covers|]. rewrite ex_run_ok. reflexivity. Qed.

Print Assumptions C15x_every_returning_run.
Print Assumptions C15x_step_calls.
Print Assumptions C15x_step_effect.
Print Assumptions C15x_calls_of_one_event.
Print Assumptions C15x_output_is_one_log.
Print Assumptions C15x_log_times.
Print Assumptions C15x_log_first_event.
Print Assumptions C15x_every_loop_head_is_good.
Print Assumptions C15x_step_law_at_every_loop_head.
Print Assumptions C15x_never_a_python_error.
Print Assumptions C15x_example.
