(* C16, float side — "the total rate used for the clock equals the sum of current
   weights (to rounding)".  Statements only, each closed by [exact] of a lemma of
   Proofs/ListDictFP*.v.  The model Model/ListDictF.v is Model/ListDict.v with a
   rounding [rnd] at every float operation of EoN.simulation._ListDict_.
   Notation: g eps n = (1+eps)^n, gam eps n = (1+eps)^n - 1, drift s = total s - wsum s,
   wsum s = sum of the STORED weights, hist_count = number of roundings of the total
   (insert 2, update 1, remove 1), hist_total = sum of all weights ever handed in,
   ldf_peak = max over the operations of (stored sum before + incoming weight). *)
From EoNV Require Import Prelude Samp ListDict ListDictP ListDictF ListDictFP ListDictFPr ListDictFPr2
  ListDictFP2 ListDictFP3 ListDictFP4 ListDictFPb.
From Coq Require Import Qabs.

(* with the identity rounding the model IS the exact model of Props/C16.v *)
Theorem C16f_no_rounding_is_exact_model :
  forall (K : Type) (Keqb : K -> K -> bool) (ops : list (op K)) (s : ld K),
    ldf_run K Keqb (fun x => x) s ops = ld_run K Keqb s ops.
Proof. exact ldf_run_exact_is_ld. Qed.

Section C16f.
Variable K : Type.
Variable Keqb : K -> K -> bool.
Hypothesis Keqb_spec : forall a b, reflect (a = b) (Keqb a b).
(* the standard model of floating-point arithmetic (no underflow): a rounding with
   relative error at most eps *)
Variable rnd : Q -> Q.
Variable eps : Q.
Hypothesis eps_nonneg : 0 <= eps.
Hypothesis eps_le1 : eps <= 1.
Hypothesis rnd_err : forall x, Qabs (rnd x - x) <= eps * Qabs x.

(* after ANY history of insert / update / remove with non-negative weights the
   running total differs from the sum of the stored weights by at most
   ((1+eps)^n - 1) * 2 * peak ... *)
Theorem C16f_drift_bound_peak :
  forall (ops : list (op K)) (s : ld K),
    Forall (op_ok K true) ops -> ldf_run K Keqb rnd (ld_empty true) ops = Ok s ->
    Qabs (drift K s) <=
      gam eps (hist_count K ops) * (2 * ldf_peak K Keqb rnd (ld_empty true) ops).
Proof. exact (ldf_drift_peak K Keqb Keqb_spec rnd eps eps_nonneg eps_le1 rnd_err). Qed.

(* ... hence by at most ((1+eps)^n - 1) * 2 (1+eps)^n * (sum of all weights ever handed in) *)
Theorem C16f_drift_bound_history :
  forall (ops : list (op K)) (s : ld K),
    Forall (op_ok K true) ops -> ldf_run K Keqb rnd (ld_empty true) ops = Ok s ->
    Qabs (drift K s) <=
      gam eps (hist_count K ops) * (2 * (g eps (hist_count K ops) * hist_total K ops)).
Proof. exact (ldf_drift_hist K Keqb Keqb_spec rnd eps eps_nonneg eps_le1 rnd_err). Qed.

(* the same from any reachable state whose drift is already bounded (the bound restarts
   at 0 after the structure was emptied, by the next theorem) *)
Theorem C16f_drift_bound_from_state :
  forall (ops : list (op K)) (s s' : ld K) (j : nat) (C : Q),
    ldf_inv K s -> weighted s = true ->
    Forall (op_ok K true) ops -> ldf_run K Keqb rnd s ops = Ok s' ->
    0 <= C -> Qabs (drift K s) <= gam eps j * C -> 2 * ldf_peak K Keqb rnd s ops <= C ->
    Qabs (drift K s') <= gam eps (j + hist_count K ops) * C.
Proof. exact (drift_le_peak K Keqb Keqb_spec rnd eps eps_nonneg eps_le1 rnd_err). Qed.

(* drift does not survive emptiness: an emptied structure has total EXACTLY 0 *)
Theorem C16f_emptied_total_is_zero :
  forall (ops : list (op K)) (s : ld K),
    Forall (op_ok K true) ops -> ldf_run K Keqb rnd (ld_empty true) ops = Ok s ->
    items s = [] -> total s = 0.
Proof. exact (ldf_empty_total_zero K Keqb Keqb_spec rnd eps eps_nonneg eps_le1 rnd_err). Qed.

(* structure (duplicate-free items, exact position map, weights non-negative) and the
   reset property hold in every reachable state; the only failure is removing an absent key *)
Theorem C16f_structure_every_history :
  forall (ops : list (op K)) (s : ld K),
    Forall (op_ok K true) ops -> ldf_run K Keqb rnd (ld_empty true) ops = Ok s ->
    ldf_inv K s /\ weighted s = true /\ reset_ok K s.
Proof.
  exact (fun ops s => ldf_run_inv K Keqb Keqb_spec rnd eps eps_nonneg eps_le1 rnd_err ops
           (ld_empty true) s (ldf_empty_inv K true) eq_refl (fun _ => eq_refl)).
Qed.

Theorem C16f_only_failure_is_absent_remove :
  forall (s : ld K) (o : op K) (e : err),
    ldf_inv K s -> weighted s = true -> op_ok K true o ->
    ldf_step K Keqb rnd s o = Err e -> exists k, o = OpRemove k /\ pos s k = None /\ e = KeyErr.
Proof. exact (ldf_step_fails K Keqb Keqb_spec rnd eps eps_nonneg eps_le1 rnd_err). Qed.

(* update_total_weight(): relative accuracy gam (number of candidates), never negative *)
Theorem C16f_update_total_weight_relative :
  forall s : ld K, ldf_inv K s -> weighted s = true ->
    wsum K (ldf_resum K rnd s) = wsum K s /\
    0 <= total (ldf_resum K rnd s) /\
    Qabs (drift K (ldf_resum K rnd s)) <= gam eps (length (items s)) * wsum K s.
Proof. exact (ldf_resum_spec K rnd eps eps_nonneg eps_le1 rnd_err). Qed.

(* the drift guard of Gillespie_simple_contagion (total < 10**(-7) and total != 0 =>
   update_total_weight()): afterwards the rate is never negative, and a rate below the
   cutoff is exactly 0 or accurate to RELATIVE gam (number of candidates) *)
Theorem C16f_guard_rate_nonnegative_and_relative :
  forall (cut : Q) (s : ld K), ldf_inv K s -> weighted s = true -> 0 < cut ->
    let s' := ldf_guard K rnd cut s in
    wsum K s' = wsum K s /\ items s' = items s /\ 0 <= total s' /\
    (total s' < cut -> total s' == 0 \/ Qabs (drift K s') <= gam eps (length (items s)) * wsum K s).
Proof. exact (ldf_guard_nonneg K rnd eps eps_nonneg eps_le1 rnd_err). Qed.

(* the accept threshold fl(weight/max_weight) of choose_random is within 1 -+ eps of
   weight/max_weight: 0 for a zero weight (never selected), positive for a positive one *)
Theorem C16f_accept_threshold_relative :
  forall (s : ld K) k, ldf_inv K s -> weighted s = true -> 0 < maxw s ->
    let q := wread K s k / maxw s in
    (1 - eps) * q <= ldf_threshold K rnd s k /\ ldf_threshold K rnd s k <= (1 + eps) * q /\
    (eps < 1 -> 0 < wread K s k -> 0 < ldf_threshold K rnd s k).
Proof. exact (ldf_threshold_bounds K rnd eps rnd_err). Qed.

(* what is stored: a rounding that respects == and leaves the weights handed in alone *)
Hypothesis rnd_proper : forall x y, x == y -> rnd x == rnd y.

(* insert stores the weight exactly (weight 0 removes), other candidates untouched *)
Theorem C16f_insert_stores_exactly :
  forall (s : ld K) k q (s' : ld K), ldf_inv K s -> weighted s = true -> 0 <= q ->
    rep rnd q -> ldf_step K Keqb rnd s (OpInsert k q) = Ok s' ->
    (Qeqb q 0 = true -> ~ In k (items s')) /\
    (Qeqb q 0 = false -> In k (items s') /\ wread K s' k == q) /\
    (forall x, x <> k -> wread K s' x = wread K s x /\ (In x (items s') <-> In x (items s))).
Proof. exact (ldf_insert_stores K Keqb Keqb_spec rnd eps eps_le1 rnd_err rnd_proper). Qed.

(* an increment stores one rounding of old + increment: relative error eps; exact
   when it creates its key *)
Theorem C16f_update_relative_error :
  forall (s : ld K) k d (s' : ld K), ldf_inv K s -> weighted s = true -> 0 <= d ->
    ldf_step K Keqb rnd s (OpUpdate k d) = Ok s' ->
    In k (items s') /\
    wread K s' k = fadd rnd (wread K s k) d /\
    Qabs (wread K s' k - (wread K s k + d)) <= eps * (wread K s k + d) /\
    (~ In k (items s) -> rep rnd d -> wread K s' k == d) /\
    (forall x, x <> k -> wread K s' x = wread K s x /\ (In x (items s') <-> In x (items s))).
Proof. exact (ldf_update_stores K Keqb Keqb_spec rnd eps eps_le1 rnd_err rnd_proper). Qed.

(* on histories in which every increment creates its key (all histories the simulators
   produce) the stored weights are EXACTLY the finite map of the specification of
   Props/C16.v: selection is exactly proportional, only the clock rate drifts *)
Theorem C16f_stored_weights_exact_when_increments_create :
  forall (ops : list (op K)) (s : ld K),
    Forall (op_ok K true) ops -> Forall (op_rep K rnd) ops ->
    hist_fresh K Keqb (sp_empty K) ops ->
    ldf_run K Keqb rnd (ld_empty true) ops = Ok s ->
    forall x, oQeq (abs K s x) (fold_left (sp_step K Keqb) ops (sp_empty K) x).
Proof.
  exact (ldf_refines_fresh K Keqb Keqb_spec rnd eps eps_nonneg eps_le1 rnd_err rnd_proper).
Qed.

(* EVERY history: a stored weight is within [(1-eps)^j, (1+eps)^j] of the weight the
   specification of Props/C16.v assigns, j = number of increments in the history; the
   candidate sets agree exactly (wrel relates None only to None) *)
Theorem C16f_stored_weights_relative_every_history :
  forall (ops : list (op K)) (s : ld K),
    Forall (op_ok K true) ops -> Forall (op_rep K rnd) ops ->
    ldf_run K Keqb rnd (ld_empty true) ops = Ok s ->
    forall x, wrel eps (count_upd K ops) (abs K s x)
                (fold_left (sp_step K Keqb) ops (sp_empty K) x).
Proof.
  exact (ldf_weights_relative K Keqb Keqb_spec rnd eps eps_nonneg eps_le1 rnd_err rnd_proper).
Qed.

(* the tracked maximum bounds every stored weight, for a rounding whose values are
   representable (idempotent; proved for rnd53 below: C16f_binary64_max_weight_is_upper_bound) *)
Hypothesis rnd_idem : forall x, rnd (rnd x) == rnd x.

Theorem C16f_max_weight_is_upper_bound :
  forall (ops : list (op K)) (s : ld K),
    Forall (op_ok K true) ops -> ldf_run K Keqb rnd (ld_empty true) ops = Ok s ->
    forall k, wread K s k <= maxw s \/ wt s k = None.
Proof.
  exact (ldf_max_weight_bounds K Keqb Keqb_spec rnd eps eps_nonneg eps_le1 rnd_err rnd_proper rnd_idem).
Qed.

(* hence, for a monotone rounding that leaves 1 alone, every accept threshold
   fl(weight/max_weight) is a probability.  _partial: monotonicity holds for IEEE-754
   round-to-nearest but is NOT proved for rnd53 here, so the binary64 instance of THIS
   theorem is missing (weight <= max_weight is proved, so the threshold is at most 1+eps);
   the check evaluates weight <= max_weight and the threshold on the class after every
   history (harness/c16f.py, oracles 'max-bound', 'threshold') *)
Hypothesis rnd_mono : forall x y, x <= y -> rnd x <= rnd y.
Hypothesis rep_one : rnd 1 == 1.

Theorem C16f_accept_threshold_is_probability_partial :
  forall (ops : list (op K)) (s : ld K) k,
    Forall (op_ok K true) ops -> ldf_run K Keqb rnd (ld_empty true) ops = Ok s -> 0 < maxw s ->
    0 <= ldf_threshold K rnd s k /\ ldf_threshold K rnd s k <= 1.
Proof.
  exact (ldf_threshold_le1 K Keqb Keqb_spec rnd eps eps_nonneg eps_le1 rnd_err rnd_proper rnd_idem
           rnd_mono rep_one).
Qed.

End C16f.

(* ---------- binary64: the hypothesis is a theorem ---------- *)
(* rnd53 = round to nearest, ties to even, 53 significant bits, defined over Z and Q
   (Model/ListDictF.v); relative error 2^-53 for EVERY rational *)
Theorem C16f_binary64_rounding_error :
  forall x, Qabs (rnd53 x - x) <= eps53 * Qabs x.
Proof. exact rnd53_err. Qed.

Theorem C16f_binary64_rounding_respects_eq : forall x y, x == y -> rnd53 x = rnd53 y.
Proof. exact rnd53_proper. Qed.

Theorem C16f_binary64_drift_bound_history :
  forall (K : Type) (Keqb : K -> K -> bool), (forall a b, reflect (a = b) (Keqb a b)) ->
  forall (ops : list (op K)) (s : ld K),
    Forall (op_ok K true) ops -> ldf_run K Keqb rnd53 (ld_empty true) ops = Ok s ->
    Qabs (drift K s) <=
      gam eps53 (hist_count K ops) * (2 * (g eps53 (hist_count K ops) * hist_total K ops)).
Proof. exact b64_drift_hist. Qed.

Theorem C16f_binary64_drift_bound_peak :
  forall (K : Type) (Keqb : K -> K -> bool), (forall a b, reflect (a = b) (Keqb a b)) ->
  forall (ops : list (op K)) (s : ld K),
    Forall (op_ok K true) ops -> ldf_run K Keqb rnd53 (ld_empty true) ops = Ok s ->
    Qabs (drift K s) <=
      gam eps53 (hist_count K ops) * (2 * ldf_peak K Keqb rnd53 (ld_empty true) ops).
Proof. exact b64_drift_peak. Qed.

Theorem C16f_binary64_stored_weights_exact :
  forall (K : Type) (Keqb : K -> K -> bool), (forall a b, reflect (a = b) (Keqb a b)) ->
  forall (ops : list (op K)) (s : ld K),
    Forall (op_ok K true) ops -> Forall (op_rep K rnd53) ops ->
    hist_fresh K Keqb (sp_empty K) ops ->
    ldf_run K Keqb rnd53 (ld_empty true) ops = Ok s ->
    forall x, oQeq (abs K s x) (fold_left (sp_step K Keqb) ops (sp_empty K) x).
Proof. exact b64_refines_fresh. Qed.

Theorem C16f_binary64_rounding_idempotent : forall x, rnd53 (rnd53 x) == rnd53 x.
Proof. exact rnd53_idem. Qed.

(* under binary64 the tracked maximum bounds every stored weight after every history *)
Theorem C16f_binary64_max_weight_is_upper_bound :
  forall (K : Type) (Keqb : K -> K -> bool), (forall a b, reflect (a = b) (Keqb a b)) ->
  forall (ops : list (op K)) (s : ld K),
    Forall (op_ok K true) ops -> ldf_run K Keqb rnd53 (ld_empty true) ops = Ok s ->
    forall k, wread K s k <= maxw s \/ wt s k = None.
Proof. exact b64_max_weight_bounds. Qed.

(* non-vacuity: on the doubles 0.1, 0.2, 0.3, 0.7 rounding really happens (drift <> 0)
   and the bound holds and is small *)
Example C16f_history_nonvacuous : C16f_example_statement.
Proof. exact C16f_example_proof. Qed.

(* total >= 0 is NOT guaranteed, nor total > 0 while a positive weight is left *)
Example C16f_total_can_be_negative : C16f_negative_total_statement.
Proof. exact C16f_negative_total_proof. Qed.

Example C16f_total_can_be_absorbed_to_zero : C16f_absorbed_statement.
Proof. exact C16f_absorbed_proof. Qed.

Print Assumptions C16f_no_rounding_is_exact_model.
Print Assumptions C16f_drift_bound_peak.
Print Assumptions C16f_drift_bound_history.
Print Assumptions C16f_drift_bound_from_state.
Print Assumptions C16f_emptied_total_is_zero.
Print Assumptions C16f_structure_every_history.
Print Assumptions C16f_only_failure_is_absent_remove.
Print Assumptions C16f_update_total_weight_relative.
Print Assumptions C16f_guard_rate_nonnegative_and_relative.
Print Assumptions C16f_accept_threshold_relative.
Print Assumptions C16f_insert_stores_exactly.
Print Assumptions C16f_update_relative_error.
Print Assumptions C16f_stored_weights_exact_when_increments_create.
Print Assumptions C16f_stored_weights_relative_every_history.
Print Assumptions C16f_max_weight_is_upper_bound.
Print Assumptions C16f_accept_threshold_is_probability_partial.
Print Assumptions C16f_binary64_rounding_error.
Print Assumptions C16f_binary64_rounding_respects_eq.
Print Assumptions C16f_binary64_drift_bound_history.
Print Assumptions C16f_binary64_drift_bound_peak.
Print Assumptions C16f_binary64_stored_weights_exact.
Print Assumptions C16f_binary64_rounding_idempotent.
Print Assumptions C16f_binary64_max_weight_is_upper_bound.
Print Assumptions C16f_history_nonvacuous.
Print Assumptions C16f_total_can_be_negative.
Print Assumptions C16f_total_can_be_absorbed_to_zero.
