(* C13 — event-driven SIS with arbitrary delays follows the plain reference
   semantics.  Statements only; proofs in Proofs/EventSISP{,2,3}.v.

   Model (Model/EventSIS.v): [nm_run] = fast_nonMarkov_SIS as the code is —
   myQueue ordered by (time, counter) that silently drops times >= tmax, queue
   entries carrying the stored tails of delay lists, the pruning at scheduling
   (status[v]=='I': keep times > rec_time[v]) and at firing (keep stored times
   > rec_time[target]), user rules asked once per infection ([dur v k],
   [delays v w k], k = infection ordinal).
   Reference (same file): [ref_sis] = one agenda processed in time order; an
   infection of v at s inserts Rec v at s+dur and Att v w at s+d for every
   neighbour w and EVERY listed d; an attempt infects iff the target is
   susceptible at that instant; nothing at or after tmax happens.  Its boolean
   component is its own domain of definition: delay lists ascending, every
   inserted time strictly in the future and different from every pending time
   (= "all event times distinct"), initial nodes distinct. *)
From EoNV Require Import Prelude Samp Graph EventSIS EventSISP EventSISP2 EventSISP3.

(* Whenever the reference run is inside its domain (second component true) and
   ends within [fuel] agenda items, the model of fast_nonMarkov_SIS returns
   LITERALLY the same output — arrays, node histories and transmissions,
   truncated at tmax — for every graph, every rule tables, every initial list
   and both return modes.  (The queue needs at most one pop per reference item
   plus one per initial node; attempts that hit an infected target cost the
   queue nothing.) *)
Theorem nmsis_refines :
  forall (g : graph) (dur : node -> nat -> Q) (delays : node -> node -> nat -> list Q) (tmax : xtime)
         (tmin : Q) (full : bool) (fuel : nat) (i0 : list node) (out : simout),
    xlt tmin tmax = true ->
    ref_sis g dur delays tmax tmin full fuel i0 = Ok (out, true) ->
    nm_run g dur delays tmax tmin full (length i0 + fuel) i0 = Ok out.
Proof. exact EventSISP3.nmsis_refines. Qed.
Print Assumptions nmsis_refines.

(* more fuel never changes a finished run: OutOfFuel is excluded for every larger fuel *)
Theorem nmsis_fuel_monotone :
  forall g dur delays tmax f s s',
    n_loop g dur delays tmax f s = Ok s' -> n_loop g dur delays tmax (S f) s = Ok s'.
Proof. exact EventSISP3.n_loop_mono. Qed.
Print Assumptions nmsis_fuel_monotone.

(* the invariant pieces of DESIGN A.2, as used by the proof *)
(* (i) an infection preserves the simulation relation queue <-> agenda *)
Theorem nmsis_infection_preserves_relation :
  forall g dur delays tmax t src v fut S R0 dead,
    (forall x, ns_stat S x = r_stat R0 x) -> (forall x, ns_ord S x = r_ord R0 x) -> ns_log S = r_log R0 ->
    ns_stat S v = stS ->
    Permutation.Permutation (r_ag R0)
      (vis tmax (satts src v fut) ++ vis tmax (expandQ (q_items (ns_q S))) ++ dead) ->
    Forall (deadP (ns_stat S) (ns_rec S)) dead ->
    QI tmax (ns_stat S) (ns_rec S) (q_items (ns_q S)) ->
    (forall w, ns_stat S w = stI -> xlt (ns_rec S w) tmax = true -> In (ns_rec S w, ARec w) (r_ag R0)) ->
    RInv t (r_ag R0) ->
    ascending fut = true -> (src = None -> fut = []) ->
    (forall x, ns_stat S x = stS \/ ns_stat S x = stI) ->
    r_ok (r_infect g dur delays tmax t src v R0) = true ->
    Rel tmax t (n_trans g dur delays tmax t src v fut S) (r_infect g dur delays tmax t src v R0).
Proof. exact EventSISP2.infect_rel. Qed.
Print Assumptions nmsis_infection_preserves_relation.

(* (ii) related states stay related until both loops end, with equal logs *)
Theorem nmsis_loop_simulation :
  forall g dur delays tmax f S R now R',
    Rel tmax now S R -> r_loop g dur delays tmax f R = Ok R' -> r_ok R' = true ->
    exists S', n_loop g dur delays tmax f S = Ok S' /\ ns_log S' = r_log R'.
Proof. exact EventSISP3.sim_main. Qed.
Print Assumptions nmsis_loop_simulation.

(* the law clause of the property ("with exponential rules this coincides in
   law with fast_SIS") is CITED, not proved: fast_SIS draws one exponential
   clock per (source, target) pair at a time and restarts it at the end of the
   target's infectious period; that this has the law of the agenda semantics
   with i.i.d. exponential gaps is the memorylessness of the exponential
   distribution.  What is proved about fast_SIS pathwise is in Props/C02fast.v
   (every event enabled, clock structure).  The part that is a theorem here:
   the agenda semantics is insensitive to attempts that hit an infected target
   (they are exactly the [dead] items of the relation), which is the pathwise
   fact the memorylessness argument needs. *)
Theorem nmsis_vs_fast_SIS_partial :
  forall g dur delays tmax f S R now R',
    Rel tmax now S R -> r_loop g dur delays tmax f R = Ok R' -> r_ok R' = true ->
    exists S', n_loop g dur delays tmax f S = Ok S' /\ ns_log S' = r_log R'.
Proof. exact EventSISP3.sim_main. Qed.
Print Assumptions nmsis_vs_fast_SIS_partial.

(* ---------------- non-vacuity ---------------- *)
Definition adj3 (u : node) : list node :=
  match u with 0%N => [1%N] | 1%N => [0%N; 2%N] | 2%N => [1%N] | _ => [] end.
Definition g3 : graph := mkGraph [0%N;1%N;2%N] adj3 adj3 false (fun _ _ => 1) (fun _ => 1) false false.
Definition dur3 (u : node) (k : nat) : Q :=
  match u, k with 0%N, O => 37#64 | 0%N, _ => 53#64 | 1%N, O => 71#64 | 1%N, _ => 59#128 | _, _ => 101#64 end.
Definition del3 (u v : node) (k : nat) : list Q :=
  match u, v with
  | 0%N, 1%N => [11#64; 47#64]
  | 1%N, 0%N => [43#64; 135#128; 97#64]
  | 1%N, 2%N => [45#128]
  | 2%N, 1%N => match k with O => [83#64; 131#64] | _ => [] end
  | _, _ => []
  end.

(* a path 0-1-2 from node 0: 15 events before tmax = 3 with several reinfections;
   the reference run is inside its domain, so the theorem applies *)
Example nmsis_refines_nonvacuous :
  exists out, ref_sis g3 dur3 del3 (Some 3) 0 true 60 [0%N] = Ok (out, true) /\
              length (so_rows out) = 16%nat /\
              nm_run g3 dur3 del3 (Some 3) 0 true 61 [0%N] = Ok out.
Proof.
  destruct (ref_sis g3 dur3 del3 (Some 3) 0 true 60 [0%N]) as [[out b]|e] eqn:E; [|vm_compute in E; discriminate E].
  assert (b = true) as -> by (vm_compute in E; injection E as _ <-; reflexivity).
  exists out. split; [reflexivity|]. split.
  - vm_compute in E. injection E as <-. reflexivity.
  - apply (nmsis_refines g3 dur3 del3 (Some 3) 0 true 60 [0%N] out eq_refl E).
Qed.
Print Assumptions nmsis_refines_nonvacuous.
