(* C13 — event-driven SIS with arbitrary delays follows the plain reference
   semantics.  Statements only; proofs in Proofs/EventSISP.v. *)
From EoNV Require Import Prelude Samp Graph EventSIS.

(* placeholder: theorems are added as Proofs/EventSISP.v grows *)
Example C13_placeholder : tadd 1 1 == 2.
Proof. reflexivity. Qed.
Print Assumptions C13_placeholder.
