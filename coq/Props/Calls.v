(* calls2v -- argument forwarding of EoN's wrapper functions (DESIGN 2.4(b); used by
   C05, C06, C12).  Statements only: the binding-rule theorems are closed by [exact]
   of a lemma of Proofs/CallsP.v; the theorems about the code are closed by evaluation
   over Gen/Calls.v, which translate/calls2v.py regenerates from the CURRENT text of
   EoN/simulation.py and EoN/analytic.py on every run.  What [site_ok] checks is
   documented above [site_check] in Model/Calls.v. *)
From Coq Require Import String List Bool NArith Arith.
From EoNV Require Import Prelude.
Require Import EoNV.Model.Calls EoNV.Proofs.CallsP EoNV.Gen.Calls.
Import ListNotations.
Open Scope string_scope.
Open Scope nat_scope.
Open Scope list_scope.

(* ===================== Python's argument-binding rule ===================== *)

(* (a) a successful binding binds no parameter twice ... *)
Theorem bind_no_parameter_twice : forall sg c b,
  sig_wfb sg = true -> bindx sg c = BOk b -> NoDup (map fst (b_named b)).
Proof. exact bindx_named_nodup. Qed.

(* ... binds every required parameter exactly once ... *)
Theorem bind_required_exactly_once : forall sg c b p,
  sig_wfb sg = true -> bindx sg c = BOk b -> In p (sg_params sg) -> p_default p = false ->
  count_occ string_dec (map fst (b_named b)) (p_name p) = 1.
Proof. exact bindx_required_bound_once. Qed.

(* ... binds only parameters of the callee; what a callee with *args / **kwargs
   absorbs is kept apart, and is empty for a callee without them *)
Theorem bind_only_parameters : forall sg c b k,
  bindx sg c = BOk b -> In k (map fst (b_named b)) -> In k (param_names sg).
Proof. exact bindx_named_are_params. Qed.

Theorem bind_no_surplus : forall sg c b,
  bindx sg c = BOk b ->
  (sg_varargs sg = false -> b_xpos b = []) /\ (sg_kwargs sg = false -> b_xkw b = []).
Proof. exact bindx_no_surplus. Qed.

(* (b) positional argument i is bound to the i-th positional parameter *)
Theorem bind_positional : forall sg c b i a p,
  bindx sg c = BOk b ->
  nth_error (c_pos c) i = Some a -> nth_error (pos_params sg) i = Some p ->
  nth_error (b_named b) i = Some (p_name p, a).
Proof. exact bindx_positional. Qed.

(* (c) keyword argument k=a is bound to the parameter named k (to **kwargs when the
   callee has no such parameter) *)
Theorem bind_keyword : forall sg c b k a,
  bindx sg c = BOk b -> In (k, a) (c_kw c) ->
  (In k (param_names sg) -> In (k, a) (b_named b)) /\
  (~ In k (param_names sg) -> In (k, a) (b_xkw b) /\ sg_kwargs sg = true).
Proof. exact bindx_keyword. Qed.

(* (d) nothing is invented: every binding is a positional argument at its rank or a
   keyword argument under its name; with no *args/**kwargs every argument is used *)
Theorem bind_provenance : forall sg c b p a,
  bindx sg c = BOk b -> In (p, a) (b_named b) ->
  (exists i q, nth_error (c_pos c) i = Some a /\ nth_error (pos_params sg) i = Some q /\ p_name q = p)
  \/ In (p, a) (c_kw c).
Proof. exact bindx_provenance. Qed.

Theorem bind_consumes_every_argument : forall sg c b,
  sg_varargs sg = false -> sg_kwargs sg = false -> bindx sg c = BOk b ->
  length (b_named b) = length (c_pos c) + length (c_kw c).
Proof. exact bindx_consumes_all. Qed.

(* (e) every reported error is justified by the call *)
Theorem bind_error_too_many : forall sg c,
  bindx sg c = BErr TooManyPositional ->
  length (pos_params sg) < length (c_pos c) /\ sg_varargs sg = false.
Proof. exact bindx_too_many. Qed.

Theorem bind_error_unknown_keyword : forall sg c k,
  bindx sg c = BErr (UnknownKeyword k) ->
  In k (map fst (c_kw c)) /\ ~ In k (param_names sg) /\ sg_kwargs sg = false.
Proof. exact bindx_unknown_keyword. Qed.

Theorem bind_error_bound_twice : forall sg c k,
  bindx sg c = BErr (BoundTwice k) ->
  exists pre a post, c_kw c = pre ++ (k, a) :: post /\
    (In k (firstn (length (c_pos c)) (map p_name (pos_params sg))) \/ In k (map fst pre)).
Proof. exact bindx_bound_twice. Qed.

Theorem bind_error_missing_required : forall sg c x,
  bindx sg c = BErr (MissingRequired x) ->
  exists p, In p (sg_params sg) /\ p_name p = x /\ p_default p = false /\
            ~ In x (firstn (length (c_pos c)) (map p_name (pos_params sg))) /\
            ~ In x (map fst (c_kw c)).
Proof. exact bindx_missing_required. Qed.

Theorem bind_error_star : forall sg c,
  bindx sg c = BErr StarArg <->
  existsb is_star (c_pos c) || existsb (fun ka => is_star (snd ka)) (c_kw c) = true.
Proof. exact bindx_star. Qed.

(* the same in terms of [bind : signature -> call -> result (list (string * argexpr))] *)
Theorem bind_implements_the_rule : forall sg c l,
  sig_wfb sg = true -> bind sg c = Ok l ->
  NoDup (map fst l) /\
  (forall p, In p (sg_params sg) -> p_default p = false ->
             count_occ string_dec (map fst l) (p_name p) = 1) /\
  (forall k, In k (map fst l) -> In k (param_names sg)) /\
  (forall i a p, nth_error (c_pos c) i = Some a -> nth_error (pos_params sg) i = Some p ->
                 nth_error l i = Some (p_name p, a)) /\
  (forall k a, In (k, a) (c_kw c) -> In k (param_names sg) -> In (k, a) l) /\
  (forall p a, In (p, a) l ->
     (exists i q, nth_error (c_pos c) i = Some a /\ nth_error (pos_params sg) i = Some q /\ p_name q = p)
     \/ In (p, a) (c_kw c)).
Proof. exact bind_correct. Qed.

Theorem bind_failure_is_TypeError : forall sg c e, bind sg c = Err e -> e = TypeErr.
Proof. exact bind_err_is_TypeErr. Qed.

(* what a site that passes [site_ok] is guaranteed *)
Theorem site_ok_meaning : forall s,
  site_ok s = true ->
  exists b, bindx (s_sig s) (s_call s) = BOk b /\
    (forall p x r, In (p, ABare x r) (b_named b) -> same_meaning (s_callee s) x p = true) /\
    (forall p x, In (p, ALocal x) (b_named b) -> x = p \/ ~ In x (param_names (s_sig s))) /\
    (forall x, ~ In (AUndefined x) (c_pos (s_call s))) /\
    (forall k x, ~ In (k, AUndefined x) (c_kw (s_call s))) /\
    (forall x, In x (s_wparams s) -> In x (param_names (s_sig s)) ->
       exists a, lookup x (b_named b) = Some a /\ forall r, a <> AConst r).
Proof. exact site_ok_sound. Qed.

(* ====================== the code, as it is now ============================ *)

(* The forwarding sites of the current tree that fail [site_ok], exactly: none.
   History (calibration of the rule): on the tree before the fix: commits 311c285,
   e718403, 6e8b3e6, 77c7252, c069c0a and the SIR_individual_based_pure_IC fix, this list
   was basic_discrete_SIR, Gillespie_Arbitrary (star-star of None, dropped kwargs),
   SIR_individual_based_pure_IC (12 shifted positionals),
   SIR_heterogeneous_meanfield_from_graph (return_full_data=False),
   SIR_effective_degree_from_graph (initial_recovereds dropped) and
   Attack_rate_discrete_from_graph (undefined PhiS0); each was confirmed by execution
   (harness/calls_lib.py RECIPES) before it was fixed in /repo. *)
Theorem forwarding_ok_all : forallb site_ok sites = true.
Proof. vm_compute. reflexivity. Qed.

Theorem forwarding_bad_sites : bad_sites sites = [].
Proof. vm_compute. reflexivity. Qed.

(* hence every other site forwards correctly; in particular the wrappers that the
   simulation properties rely on (C05, C12) *)
Theorem forwarding_ok_simulation_wrappers :
  forallb site_ok
    (sites_of "basic_discrete_SIR" sites ++ sites_of "percolation_based_discrete_SIR" sites ++
     sites_of "fast_SIR" sites ++ sites_of "fast_SIS" sites ++
     sites_of "fast_nonMarkov_SIR" sites ++ sites_of "fast_nonMarkov_SIS" sites ++
     sites_of "Gillespie_SIR" sites ++ sites_of "Gillespie_SIS" sites ++
     sites_of "estimate_SIR_prob_size" sites ++ sites_of "directed_percolate_network" sites ++
     sites_of "estimate_directed_SIR_prob_size" sites ++
     sites_of "estimate_nonMarkov_SIR_prob_size" sites ++
     sites_of "estimate_nonMarkov_SIR_prob_size_with_timing" sites ++
     sites_of "get_infected_nodes" sites) = true.
Proof. vm_compute. reflexivity. Qed.

(* every callee signature in the generated data is a legal `def` (no repeated
   parameter name): the hypothesis [sig_wfb] of the binding theorems holds of it *)
Theorem generated_signatures_wf : forallb (fun s => sig_wfb (s_sig s)) sites = true.
Proof. vm_compute. reflexivity. Qed.

(* public functions with a parameter that nothing in their body reads *)
Theorem public_unread_parameters :
  unread_params =
  [ ("discrete_SIR", ["progress"]) ].
Proof. vm_compute. reflexivity. Qed.

(* ============================ non-vacuity ================================= *)
(* the generated data is substantial: more than 100 sites, the listed wrappers have
   sites, some passing site has 11 positional arguments, some has 7 keywords *)
Example sites_nonvacuous :
  (100 <=? length sites) = true /\
  (14 <=? length (sites_of "basic_discrete_SIR" sites ++ sites_of "fast_SIR" sites ++
                  sites_of "fast_SIS" sites ++ sites_of "fast_nonMarkov_SIR" sites ++
                  sites_of "fast_nonMarkov_SIS" sites ++ sites_of "Gillespie_SIR" sites ++
                  sites_of "Gillespie_SIS" sites ++ sites_of "get_infected_nodes" sites)) = true /\
  existsb (fun s => site_ok s && (11 <=? length (c_pos (s_call s)))) sites = true /\
  existsb (fun s => site_ok s && (7 <=? length (c_kw (s_call s)))) sites = true.
Proof. vm_compute. repeat split; reflexivity. Qed.

(* example signatures ex_sig = `def f(a, b, c=0, *, d=1)`, ex_sig_kw = `def g(a, *args, **kwargs)`
   are defined at the end of Model/Calls.v *)
Example bind_accepts :
  bind ex_sig (mkCall [AConst "1"; ALocal "y"] [("d", AConst "2")])
  = Ok [("a", AConst "1"); ("b", ALocal "y"); ("d", AConst "2")] /\
  bindx ex_sig_kw (mkCall [AConst "1"; AConst "2"; AConst "3"] [("z", AConst "4")])
  = BOk (mkBound [("a", AConst "1")] [AConst "2"; AConst "3"] [("z", AConst "4")]).
Proof. vm_compute. split; reflexivity. Qed.

Example bind_rejects_each_error_kind :
  (* f(1, 2, 3, 4): d is keyword-only *)
  bindx ex_sig (mkCall [AConst "1"; AConst "2"; AConst "3"; AConst "4"] []) = BErr TooManyPositional /\
  (* f(1, 2, a=3) *)
  bindx ex_sig (mkCall [AConst "1"; AConst "2"] [("a", AConst "3")]) = BErr (BoundTwice "a") /\
  (* f(1, b=2, b=3) *)
  bindx ex_sig (mkCall [AConst "1"] [("b", AConst "2"); ("b", AConst "3")]) = BErr (BoundTwice "b") /\
  (* f(1, 2, e=3) *)
  bindx ex_sig (mkCall [AConst "1"; AConst "2"] [("e", AConst "3")]) = BErr (UnknownKeyword "e") /\
  (* f(1, c=3) *)
  bindx ex_sig (mkCall [AConst "1"] [("c", AConst "3")]) = BErr (MissingRequired "b") /\
  (* f(1, *t) and f(1, 2, **k) *)
  bindx ex_sig (mkCall [AConst "1"; AStar "t"] []) = BErr StarArg /\
  bindx ex_sig (mkCall [AConst "1"; AConst "2"] [("", AStarStar "k")]) = BErr StarArg /\
  bind ex_sig (mkCall [AConst "1"] [("c", AConst "3")]) = Err TypeErr.
Proof. vm_compute. repeat split; reflexivity. Qed.

(* a wrapper W(G, tau, gamma, rho) calling F(G, gamma, tau): swapped positionals are
   detected, and so are a dropped keyword and a constant in place of a parameter *)
Example site_check_detects :
  site_check (ex_site (mkCall [ABare "G" false; ABare "tau" false; ABare "gamma" false]
                              [("rho", ABare "rho" false)])) = [] /\
  site_check (ex_site (mkCall [ABare "G" false; ABare "gamma" false; ABare "tau" false]
                              [("rho", ABare "rho" false)]))
    = [RName "gamma" "tau"; RName "tau" "gamma"] /\
  site_check (ex_site (mkCall [ABare "G" false; ABare "tau" false; ABare "gamma" false] []))
    = [RDropped "rho"] /\
  site_check (ex_site (mkCall [ABare "G" false; ABare "tau" false; ABare "gamma" false]
                              [("rho", AConst "None")]))
    = [RConstShadow "rho" "None"] /\
  site_check (ex_site (mkCall [ABare "G" false; ABare "tau" false; ABare "gamma" false]
                              [("rho", ABare "rho" false); ("rh0", ABare "rho" false)]))
    = [RBind (UnknownKeyword "rh0")] /\
  site_check (ex_site (mkCall [ABare "G" false; ABare "tau" false; AUndefined "gama"]
                              [("rho", ABare "rho" true)]))
    = [RUndefined "gama"].
Proof. vm_compute. repeat split; reflexivity. Qed.

Print Assumptions bind_no_parameter_twice.
Print Assumptions bind_required_exactly_once.
Print Assumptions bind_only_parameters.
Print Assumptions bind_no_surplus.
Print Assumptions bind_positional.
Print Assumptions bind_keyword.
Print Assumptions bind_provenance.
Print Assumptions bind_consumes_every_argument.
Print Assumptions bind_error_too_many.
Print Assumptions bind_error_unknown_keyword.
Print Assumptions bind_error_bound_twice.
Print Assumptions bind_error_missing_required.
Print Assumptions bind_error_star.
Print Assumptions bind_implements_the_rule.
Print Assumptions bind_failure_is_TypeError.
Print Assumptions site_ok_meaning.
Print Assumptions forwarding_bad_sites.
Print Assumptions forwarding_ok_all.
Print Assumptions forwarding_ok_simulation_wrappers.
Print Assumptions generated_signatures_wf.
Print Assumptions public_unread_parameters.
Print Assumptions sites_nonvacuous.
Print Assumptions bind_accepts.
Print Assumptions bind_rejects_each_error_kind.
Print Assumptions site_check_detects.
