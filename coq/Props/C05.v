(* C05 — requested initial conditions are what the simulation starts from.
   This file: Gillespie_SIR / Gillespie_SIS (generic in the kind); wrapper
   forwarding is in Gen/Calls.v (translator), the other simulators in their files. *)
From EoNV Require Import Prelude Samp Graph ListDict ListDictP Gillespie KldP GillespieInv SampP GillespieP GillespieEx.

Section C05.
Variable g : graph.
Hypothesis Hg : wfg g.
Hypothesis Hnd : NoDup (gnodes g).
Hypothesis Hadj : forall u v, In v (gadj g u) -> In v (gnodes g).
Variable kind : model_kind.
Variables tau gamma tmin : Q.
Variable tmax : xtime.
Variable full : bool.

(* row 0 of every run is (N-|I0|-|R0|, |I0|, |R0|) at tmin (SIS: (N-|I0|, |I0|)) *)
Theorem C05_row0_is_the_request :
  forall i0 r0 fuel out, wf_init g kind i0 r0 ->
    reach (gillespie g kind tau gamma (Some i0) r0 None tmin tmax full fuel) out ->
    exists rest, so_rows out = init_rows g kind tmin i0 (r0_list kind r0) ++ rest.
Proof. exact (gillespie_row0 g Hg Hnd kind tau gamma tmin tmax full Hadj). Qed.

Theorem C05_row0_for_every_script :
  forall i0 r0 fuel ds out tr, wf_init g kind i0 r0 ->
    exec (gillespie g kind tau gamma (Some i0) r0 None tmin tmax full fuel) ds [] = (Ok out, tr) ->
    exists rest, so_rows out = init_rows g kind tmin i0 (r0_list kind r0) ++ rest.
Proof.
  intros i0 r0 fuel ds out tr Hwf H. apply exec_reach in H.
  exact (gillespie_row0 g Hg Hnd kind tau gamma tmin tmax full Hadj i0 r0 fuel out Hwf H).
Qed.

(* the state the run starts from has exactly the requested statuses *)
Theorem C05_initial_statuses :
  forall i0 r0 x, (forall y, In y i0 -> ~ In y r0) ->
    N.eqb (st_init i0 r0 x) stI = mem x i0 /\ N.eqb (st_init i0 r0 x) stR = mem x r0.
Proof. intros i0 r0 x H. split; [apply st_init_I; exact H|apply st_init_R]. Qed.

(* giving both rho and initial_infecteds is rejected with EoNError *)
Theorem C05_rho_and_infecteds_rejected :
  forall i0 r0 rho fuel,
    gillespie g kind tau gamma (Some i0) r0 (Some rho) tmin tmax full fuel = Fail EoNError.
Proof. exact (gillespie_rho_and_infecteds_rejected g kind tau gamma tmin tmax full). Qed.

(* Gillespie_SIR: giving both rho and initial_recovereds is rejected with EoNError (as fast_SIR does; repaired in
   /repo — without the guard random.sample could draw an initially recovered node as initially infected, see
   known_findings.json "fixed") *)
Theorem C05_rho_and_recovereds_rejected :
  forall i0 l0 rho fuel, kind = SIR ->
    gillespie g kind tau gamma i0 (Some l0) (Some rho) tmin tmax full fuel = Fail EoNError.
Proof. exact (gillespie_rho_and_recovereds_rejected g kind tau gamma tmin tmax full). Qed.

(* rho selects int(round(N*rho)) DISTINCT nodes of the graph (one node when neither is
   given), NONE OF THEM INITIALLY RECOVERED (repaired in /repo: the default start node used to be drawn
   from all of G), and the run is the run from that explicit set *)
Theorem C05_rho_selects_round_N_rho_distinct_nodes :
  forall r0 rho fuel out,
    reach (gillespie g kind tau gamma None r0 rho tmin tmax full fuel) out ->
    let n := match rho with None => 1%Z | Some r => round_half_even (Qnat (length (gnodes g)) * r) end in
    (0 <= n)%Z /\ exists i0, NoDup i0 /\ incl i0 (gnodes g) /\
      (forall y, In y i0 -> ~ In y (r0_list kind r0)) /\ Z.of_nat (length i0) = n /\
      reach (gillespie g kind tau gamma (Some i0) r0 None tmin tmax full fuel) out.
Proof. exact (gillespie_rho g Hnd kind tau gamma tmin tmax full). Qed.

End C05.

(* int(round(x)) rounds half to even, as Python does *)
Example C05_round_half_even :
  map round_half_even [1 # 2; 3 # 2; 5 # 2; 7 # 4; 9 # 4; -(1 # 2); 10 # 4] = [0; 2; 2; 2; 2; 0; 2]%Z.
Proof. vm_compute. reflexivity. Qed.

Example C05_hypotheses_satisfiable :
  wfg ex_graph /\ NoDup (gnodes ex_graph) /\ wf_init ex_graph SIR [0%N] (Some [3%N]).
Proof. exact (conj ex_wfg (conj ex_nodup ex_wf_init_SIR)). Qed.

Print Assumptions C05_row0_is_the_request.
Print Assumptions C05_row0_for_every_script.
Print Assumptions C05_initial_statuses.
Print Assumptions C05_rho_and_infecteds_rejected.
Print Assumptions C05_rho_and_recovereds_rejected.
Print Assumptions C05_rho_selects_round_N_rho_distinct_nodes.
Print Assumptions C05_round_half_even.
Print Assumptions C05_hypotheses_satisfiable.
