(* C14 (proof side), over the definitions GENERATED from EoN/analytic.py on this run (coq/Gen/Rhs2.v, emitted by
   translate/rhs2d2v.py, fail-closed): the node-level right-hand sides as the file states them now commute with the
   relabelling action.  Kept apart from Props/C14x.v so that a translator refusal breaks only this file.
   pb_wfb (Proofs/Rhs2GenP.v) = index_of_node is enumerate(nodelist) over the nodes of a simple graph, which every caller
   in analytic.py establishes; it is required of both problems (it is what makes "cell = sum over the iterations that
   address it" a single term). *)
From EoNV Require Import Prelude Graph Vec Rhs2D VecP Rhs2 Rhs2GenP C14xDef C14xRhs C14xTop C14xEx C14xGen.

Theorem C14x_generated_node_rhs_equivariant : forall sys G nodelist idx tr rc G' nl2 phi idx' tr' rc' V V' t,
  relabel_okb G nodelist idx tr rc G' nl2 phi idx' tr' rc' = true ->
  pb_wfb G nodelist idx = true -> pb_wfb G' (map phi nl2) idx' = true ->
  length V = state_len sys (nN nodelist) -> veq V' (perm_state idx nl2 sys V) ->
  veq (rhs2g_node sys G' (map phi nl2) idx' tr' rc' V' t)
      (perm_state idx nl2 sys (rhs2g_node sys G nodelist idx tr rc V t)).
Proof. exact gen_node_rhs_equivariant. Qed.

Theorem C14x_generated_is_model : forall sys G nodelist idx tr rc V t,
  pb_wfb G nodelist idx = true -> length V = state_len sys (nN nodelist) ->
  veq (rhs2g_node sys G nodelist idx tr rc V t) (rhs2_node sys G nodelist idx tr rc V t).
Proof. exact rhs2g_is_model. Qed.

Example C14x_generated_hypotheses_satisfiable :
  relabel_okb exG ex_nodelist ex_idx ex_tr ex_rc exG' ex_nl2 ex_phi ex_idx' ex_tr' ex_rc' = true /\
  pb_wfb exG ex_nodelist ex_idx = true /\ pb_wfb exG' (map ex_phi ex_nl2) ex_idx' = true.
Proof. exact (conj ex_relabel_ok ex_pb_wf). Qed.

Print Assumptions C14x_generated_node_rhs_equivariant.
Print Assumptions C14x_generated_is_model.
Print Assumptions C14x_generated_hypotheses_satisfiable.
