(* C04 for the generic simulator Gillespie_simple_contagion (both return modes): the returned
   rows are well-formed, for EVERY graph, specification, initial statuses, return_statuses,
   tmin/tmax and EVERY draw script.  The clause of the property for the generic simulators:
   one count per status in return_statuses, counts non-negative, summing to N when every
   status is returned, first time tmin, times never decrease and never reach tmax, consecutive
   rows differ by exactly one node making one move along a spec edge.
   [wf_gtrajb] (Model/GenxChk.v) is the decidable form of that clause over the arrays alone; it
   is extracted and applied to the implementation's own arrays (harness/genx.py).
   Proofs: Proofs/SimpleExecChk.v, SimpleExecTop.v. *)
From EoNV Require Import Prelude Samp Graph ListDict ListDictP Gillespie KldP GillespieInv SampP Simple SimpleP
  SimpleExecS SimpleExec SimpleExecLog SimpleExecTop SimpleExecChk.
From EoNV Require Complex ComplexP ComplexExec ComplexExecChk.

(* every run, every draw script, both return modes: the checker accepts the returned rows.
   [cov] = "every status a node can take is a return status" may be claimed only when it holds
   ([covered]); then the counts of a row sum to exactly N *)
Theorem C04gen_rows_well_formed :
  forall g (Hg : wfg2 g) ic rstat tmin tmax full sortable spont induced fuel ds out tr cov,
  Forall (sp_tr_ok g) spont -> Forall (in_tr_ok g) induced ->
  (cov = true -> covered g ic rstat spont induced) ->
  exec (simple g sortable spont induced ic rstat tmin tmax full fuel) ds [] = (Ok out, tr) ->
  wf_gtrajb (order g) (moves_of spont induced) rstat cov tmin tmax (so_rows out) = true.
Proof. exact wf_gtrajb_accepts. Qed.

(* what acceptance means, clause by clause *)
Theorem C04gen_checker_sound :
  forall n mv rstat cov tmin tmax rows,
  wf_gtrajb n mv rstat cov tmin tmax rows = true ->
  (exists r l, rows = r :: l /\ fst r == tmin) /\
  (forall r, In r rows -> length (snd r) = length rstat /\ Forall (fun x => (0 <= x <= n)%Z) (snd r) /\
                          (NoDup rstat -> (sumZ (snd r) <= n)%Z /\ (cov = true -> sumZ (snd r) = n))) /\
  (forall l1 a b l2, rows = l1 ++ a :: b :: l2 ->
     fst a <= fst b /\ xlt (fst b) tmax = true /\
     exists old new, In (old, new) mv /\ snd b = next_counts rstat (snd a) old new).
Proof. exact wf_gtrajb_sound. Qed.

(* the moves the checker allows are the spec edges: A -> B of H, and B -> C for (A,B) -> (A,C) of J *)
Theorem C04gen_moves_are_spec_edges :
  forall spont induced old new, In (old, new) (moves_of spont induced) <->
  (exists tr, In tr spont /\ hd_status (tr_from tr) = old /\ hd_status (tr_to tr) = new) \/
  (exists tr, In tr induced /\ snd_status (tr_from tr) = old /\ snd_status (tr_to tr) = new).
Proof.
  intros spont induced old new. unfold moves_of. rewrite in_app_iff, !in_map_iff. split.
  - intros [[tr [E Hin]]|[tr [E Hin]]]; injection E as E1 E2; [left|right]; exists tr; repeat split; assumption.
  - intros [[tr [Hin [E1 E2]]]|[tr [Hin [E1 E2]]]]; [left|right]; exists tr; (split; [rewrite E1, E2; reflexivity|exact Hin]).
Qed.

(* stronger than the arrays can show: the rows ARE the running census of a chronological log of
   legal events -- one node changes per row, to the target of an enabled transition *)
Theorem C04gen_rows_are_running_census_of_one_log :
  forall g (Hg : wfg2 g) ic rstat tmin tmax full sortable spont induced fuel ds out tr,
  Forall (sp_tr_ok g) spont -> Forall (in_tr_ok g) induced ->
  exec (simple g sortable spont induced ic rstat tmin tmax full fuel) ds [] = (Ok out, tr) ->
  exists evs st' t',
    glog g spont induced tmax ic tmin evs st' t' /\
    so_rows out = (tmin, census g rstat ic) :: ev_rows g rstat ic evs.
Proof.
  intros g Hg ic rstat tmin tmax full sortable spont induced fuel ds out tr Hsp Hin Hex.
  destruct (simple_exec_output g Hg ic rstat tmin tmax full sortable spont induced fuel ds out tr Hsp Hin Hex)
    as [evs [st' [t' [Hlog [Hrows _]]]]].
  exists evs, st', t'. split; [exact Hlog|exact Hrows].
Qed.

(* a census: one count per return status, each within 0..N; distinct return statuses sum to at
   most N, and to N when every node's status is returned *)
Theorem C04gen_census :
  forall g rstat st,
  length (census g rstat st) = length rstat /\
  (forall x, (0 <= count_status g st x <= order g)%Z) /\
  (NoDup rstat -> (sumZ (census g rstat st) <= order g)%Z /\
                  ((forall u, In u (gnodes g) -> In (st u) rstat) -> sumZ (census g rstat st) = order g)).
Proof.
  intros g rstat st. split; [apply census_length|]. split; [apply count_status_range|]. apply census_sum.
Qed.

(* ... and no run ends in a Python-level failure (plain mode, or return_statuses covering) *)
Theorem C04gen_never_crashes :
  forall g (Hg : wfg2 g) ic rstat tmin tmax full sortable spont induced fuel ds e tr,
  Forall (sp_tr_ok g) spont -> Forall (in_tr_ok g) induced ->
  full = false \/ covered g ic rstat spont induced ->
  exec (simple g sortable spont induced ic rstat tmin tmax full fuel) ds [] = (Err e, tr) ->
  e = OutOfDraws \/ e = OutOfFuel.
Proof. exact simple_exec_never_crashes. Qed.

(* the generic counterpart of "an unbounded run ends with no infected node": with tmax = Inf the
   run returns only when nothing is enabled any more -- in the final state every spec edge's
   rate x (sum of the weights of its enabled actors) is zero *)
Theorem C04gen_unbounded_run_ends_with_nothing_enabled :
  forall g (Hg : wfg2 g) ic rstat tmin tmax full sortable spont induced fuel ds out tr,
  Forall (sp_tr_ok g) spont -> Forall (in_tr_ok g) induced -> tmax = None ->
  exec (simple g sortable spont induced ic rstat tmin tmax full fuel) ds [] = (Ok out, tr) ->
  exists sp inn l1 t' s',
    srun g rstat tmax full tmin (start g ic rstat tmin sp inn) l1 t' s' /\ finish g ic rstat tmin full s' = Ok out /\
    SInv g s' /\ ~ 0 < total_rate s' /\
    sumQ (map (fun sl => tr_rate (sl_tr sl) * sumQ (map (wgt sl) (items (sl_pot sl)))) (slots s')) <= 0.
Proof. exact simple_exec_unbounded. Qed.

(* ---- Gillespie_complex_contagion: the same checker accepts the rows of every run, every draw
   script, with "any status of the model's status universe [sts] to any other" as the moves (the
   user's transition_choice decides); hypotheses = the domain of C15 plus: the chooser and the
   initial statuses stay inside [sts]; [cov] may be claimed when return_statuses contains [sts] ---- *)
Theorem C04gen_complex_rows_well_formed :
  forall g rate choice infl rstats tmin tmax full,
  NoDup (gnodes g) -> (forall st u, 0 <= rate st u) ->
  (forall st u v, In u (gnodes g) -> In v (infl st u) -> In v (gnodes g)) ->
  ComplexP.influence_covers g rate infl ->
  forall sts, (forall st u, In (choice st u) sts) ->
  forall (ic : node -> option N) fuel ds out tr cov,
  (forall u, In u (gnodes g) -> ic u <> None) ->
  (forall u s, In u (gnodes g) -> ic u = Some s -> In s sts) ->
  (cov = true -> forall s, In s sts -> In s rstats) ->
  exec (Complex.complex g rate choice infl rstats tmin tmax full ic fuel) ds [] = (Ok out, tr) ->
  wf_gtrajb (order g) (ComplexExecChk.all_moves sts) rstats cov tmin tmax (so_rows (fst out)) = true.
Proof. exact ComplexExecChk.complex_wf_gtrajb_accepts. Qed.

(* non-vacuity for the complex simulator: the threshold contagion of Props/C15.v (statuses 0,1,2;
   return_statuses all three) -- its scripted run is accepted with cov = true *)
Example C04gen_complex_example :
  match fst ComplexP.ex_run with
  | Ok out => wf_gtrajb 3 (ComplexExecChk.all_moves [0; 1; 2]%N) [0; 1; 2]%N true 0 (Some 1) (so_rows (fst out)) = true /\
              length (so_rows (fst out)) = 3%nat
  | Err _ => False
  end.
Proof. vm_compute. split; reflexivity. Qed.

(* non-vacuity: the scripted run of Props/C03.v's example (SIS-like, weighted, path 0-1-2) is
   accepted with cov = true; the same rows with one count off, or with a move that is not a
   spec edge, are rejected *)
Example C04gen_example :
  match fst (run_simple ex_g true ex_sp ex_in ex_ic [0%N; 1%N] 0 (Some 5) true 10 ex_draws) with
  | Ok out =>
    wf_gtrajb 3 (moves_of ex_sp ex_in) [0%N; 1%N] true 0 (Some 5) (so_rows out) = true /\
    map snd (so_rows out) = [[2; 1]; [1; 2]; [2; 1]]%Z
  | Err _ => False
  end /\
  wf_gtrajb 3 (moves_of ex_sp ex_in) [0%N; 1%N] true 0 (Some 5) [(0, [2; 1]%Z); (1 # 4, [1; 2]%Z); (1 # 2, [1; 1]%Z)] = false /\
  wf_gtrajb 3 (moves_of ex_sp ex_in) [0%N; 1%N] true 0 (Some 5) [(0, [2; 1]%Z); (1 # 4, [0; 3]%Z)] = false /\
  wf_gtrajb 3 (moves_of ex_sp ex_in) [0%N; 1%N] true 0 (Some 5) [(0, [2; 1]%Z); (1 # 4, [1; 2]%Z); (1 # 8, [2; 1]%Z)] = false.
Proof. vm_compute. repeat split; reflexivity. Qed.

Print Assumptions C04gen_rows_well_formed.
Print Assumptions C04gen_checker_sound.
Print Assumptions C04gen_moves_are_spec_edges.
Print Assumptions C04gen_rows_are_running_census_of_one_log.
Print Assumptions C04gen_census.
Print Assumptions C04gen_never_crashes.
Print Assumptions C04gen_unbounded_run_ends_with_nothing_enabled.
Print Assumptions C04gen_complex_rows_well_formed.
Print Assumptions C04gen_complex_example.
Print Assumptions C04gen_example.
