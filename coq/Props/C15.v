(* placeholder, replaced by the real statements *)
From EoNV Require Import Prelude Samp Graph ListDict Gillespie Complex.
Example C15_placeholder : True. Proof. exact I. Qed.
Print Assumptions C15_placeholder.
