(* C15 — Gillespie_complex_contagion always acts on up-to-date rates.
   Only statements, each closed by [exact] of a lemma from Proofs/ComplexP.v.
   The model is Model/Complex.v (the definitions that are extracted and run
   against /repo); the user's rate function, transition chooser and
   influence-set function are arbitrary (Section variables).  Hypotheses = the
   domain of the property: nodes of G distinct, rates >= 0, influence sets
   inside G, and [influence_covers]. *)
From EoNV Require Import Prelude Samp Graph ListDict ListDictP Gillespie KldP Complex ComplexP ComplexRefine.

Section C15.
Variable g : graph.
Variable rate : smap -> node -> Q.            (* rate_function(G, u, status, parameters) *)
Variable choice : smap -> node -> N.          (* transition_choice(G, u, status, parameters) *)
Variable infl : smap -> node -> list node.    (* get_influence_set(G, u, status, parameters) *)
Variable rstats : list N.                     (* return_statuses *)
Variable tmin : Q.
Variable tmax : xtime.
Variable full : bool.
Hypothesis Hnd : NoDup (gnodes g).
Hypothesis rate_nonneg : forall st u, 0 <= rate st u.
Hypothesis infl_in : forall st u v, In u (gnodes g) -> In v (infl st u) -> In v (gnodes g).
Hypothesis covers : influence_covers g rate infl.

(* complex_inv (1/2): after the initial fill nodes_by_rate is, as a finite map,
   exactly {u -> rate u status | rate u status > 0}, and the rate function was
   called once per node on the initial statuses *)
Theorem C15_inv_initial : forall st,
  exists L, fill g rate st = Ok (L, rev (map (call_rate g st) (gnodes g))) /\
    ld_inv key L /\ weighted L = true /\ forall k, oQeq (abs key L k) (rspec g rate st k).
Proof. exact (fill_inv g rate Hnd rate_nonneg). Qed.

(* complex_inv (2/2): every event (any node of G, any time) keeps that invariant,
   never fails, sets the node's status to the chooser's answer ON THE STATUSES
   BEFORE the event, and calls the rate and influence functions ON THE STATUSES
   AFTER it (callbacks receive the current statuses) *)
Theorem C15_inv_event : forall t u s,
  cinv g rate s -> In u (gnodes g) ->
  exists s', apply_event g rate choice infl rstats full t u s = Ok s' /\ cinv g rate s' /\
    cstat s' = fupdN (cstat s) u (choice (cstat s) u) /\
    crows s' = (t, bump rstats (cstat s u) (choice (cstat s) u) (hd_counts (crows s))) :: crows s /\
    celog s' = (if full then (t, u, choice (cstat s) u) :: celog s else celog s) /\
    ccalls s' = rev (map (call_rate g (cstat s')) (infl (cstat s') u)) ++
                call_infl g (cstat s') u :: call_rate g (cstat s') u :: call_choice g (cstat s) u :: ccalls s.
Proof. exact (apply_event_inv g rate choice infl rstats full rate_nonneg infl_in covers). Qed.

(* the holding rate: total_weight() is the sum over ALL nodes of the user's rate
   function evaluated on the current statuses *)
Theorem C15_total_is_sum_of_current_rates : forall s,
  cinv g rate s -> ld_total_weight key (cnbr s) == total_rate g rate (cstat s).
Proof. exact (total_inv g rate Hnd rate_nonneg). Qed.

Theorem C15_total_zero_iff_all_rates_zero : forall st,
  total_rate g rate st == 0 <-> forall u, In u (gnodes g) -> rate st u == 0.
Proof. exact (total_rate_zero g rate rate_nonneg). Qed.

(* complex_step_law: the node that changes next is u with probability
   rate(u)/sum of rates, rates evaluated on the current statuses ... *)
Theorem C15_step_law : forall s u,
  cinv g rate s -> In u (gnodes g) -> 0 < total_rate g rate (cstat s) ->
  prob (fun o => N.eqb (fst o) u) (law (jump choice s)) == rate (cstat s) u / total_rate g rate (cstat s).
Proof. exact (jump_law g rate choice Hnd rate_nonneg). Qed.

(* ... nothing else ever happens: every outcome is a node of G with a positive
   current rate, and its new status is the chooser's answer *)
Theorem C15_step_support : forall s o p,
  cinv g rate s -> In (o, p) (law (jump choice s)) ->
  In (fst o) (gnodes g) /\ 0 < rate (cstat s) (fst o) /\ snd o = choice (cstat s) (fst o).
Proof. exact (jump_support g rate choice Hnd). Qed.

(* complex_stop: from a state satisfying the invariant the loop returns at once
   iff the sum of the current rates is 0; otherwise it waits with exactly that
   sum and then performs an event iff the new time is below tmax *)
Theorem C15_stop : forall st0 fuel t s, cinv g rate s ->
  (total_rate g rate (cstat s) == 0 ->
     cloop g rate choice infl rstats tmin tmax full st0 fuel t s = cfinish g rstats tmin full st0 s) /\
  (0 < total_rate g rate (cstat s) ->
     exists r, r == total_rate g rate (cstat s) /\
       cloop g rate choice infl rstats tmin tmax full st0 fuel t s =
       Expo r (fun d =>
         if xlt (t + d) tmax then
           match fuel with
           | O => Fail OutOfFuel
           | S f => event g rate choice infl rstats full (t + d) s
                      (fun s' => cloop g rate choice infl rstats tmin tmax full st0 f (t + d) s')
           end
         else cfinish g rstats tmin full st0 s)).
Proof. exact (cloop_stop g rate choice infl rstats tmin tmax full Hnd rate_nonneg). Qed.

(* counts track the statuses: after any sequence of events the rows are the
   counts (per return status) of the replayed status maps, in order *)
Theorem C15_rows_track_statuses : forall evs s,
  cgood g rate rstats s -> (forall e, In e evs -> In (snd e) (gnodes g)) ->
  exists s', run_events g rate choice infl rstats full s evs = Ok s' /\ cgood g rate rstats s' /\
    cstat s' = last_status choice (cstat s) evs /\
    crows s' = rev (map (row_of g rstats) (statuses choice (cstat s) evs)) ++ crows s.
Proof. exact (run_events_good g rate choice infl rstats full Hnd rate_nonneg infl_in covers). Qed.

(* the whole program under ANY draw script: a run that returns is a sequence of
   events on nodes of G from the initial state (hence invariant and row
   tracking all along), stopped exactly when the sum of the current rates is 0
   or the next time is not below tmax; the only failures are an exhausted
   script, exhausted fuel (more than [fuel] events), or the full-data
   constructor (KeyError/IndexError, full = true only).  In particular no
   ZeroDivisionError from expovariate and no IndexError from random.choice([]). *)
Theorem C15_every_run : forall (ic : node -> option N) fuel ds tr,
  (forall u, In u (gnodes g) -> ic u <> None) ->
  let st0 := fun u => match ic u with Some s => s | None => 0%N end in
  exists lc, fill g rate st0 = Ok lc /\
    match fst (exec (complex g rate choice infl rstats tmin tmax full ic fuel) ds tr) with
    | Ok out =>
      exists evs s', (forall e, In e evs -> In (snd e) (gnodes g)) /\
        run_events g rate choice infl rstats full (init_state g rstats tmin st0 lc) evs = Ok s' /\
        cgood g rate rstats s' /\ cfinish g rstats tmin full st0 s' = Ret out /\
        (total_rate g rate (cstat s') == 0 \/
         exists d, 0 <= d /\ xlt (last_time tmin evs + d) tmax = false)
    | Err e => e = OutOfDraws \/ e = OutOfFuel \/ (full = true /\ (e = KeyErr \/ e = IndexErr))
    end.
Proof. exact (complex_exec g rate choice infl rstats tmin tmax full Hnd rate_nonneg infl_in covers). Qed.

(* an IC dict that lacks a node of G is a KeyError *)
Theorem C15_missing_ic_is_keyerror : forall (ic : node -> option N) fuel ds tr u,
  In u (gnodes g) -> ic u = None ->
  fst (exec (complex g rate choice infl rstats tmin tmax full ic fuel) ds tr) = Err KeyErr.
Proof. exact (complex_missing_ic g rate choice infl rstats tmin tmax full). Qed.

(* fuel is only a bound on the number of events of the executable model: a draw
   script no longer than the fuel never exhausts it *)
Theorem C15_fuel_suffices : forall (ic : node -> option N) fuel ds tr,
  (length ds <= fuel)%nat ->
  fst (exec (complex g rate choice infl rstats tmin tmax full ic fuel) ds tr) <> Err OutOfFuel.
Proof. exact (complex_fuel g rate choice infl rstats tmin tmax full Hnd rate_nonneg infl_in covers). Qed.

(* refinement to the textbook direct method: for EVERY draw script the program of
   Model/Complex.v (incremental bookkeeping) and [scomplex], which before every
   draw recomputes every rate from scratch with the user's function on the
   current statuses (waiting rate = their sum over all nodes; candidates = the
   nodes whose current rate is positive, weighted by it; no bookkeeping
   structure is read), return the same result and make the same calls to the
   random source with the same arguments (rationals up to ==) *)
Theorem C15_refines_direct_method : forall (ic : node -> option N) fuel ds tr,
  let impl := exec (complex g rate choice infl rstats tmin tmax full ic fuel) ds tr in
  let spec := exec (scomplex g rate choice infl rstats tmin tmax full ic fuel) ds tr in
  fst impl = fst spec /\ Forall2 call_eq (snd impl) (snd spec).
Proof. exact (complex_refines g rate choice infl rstats tmin tmax full Hnd rate_nonneg infl_in covers). Qed.

End C15.

(* ---- non-vacuity: the hypotheses are satisfiable by non-trivial models ---- *)
(* every model of the executable family with local sources and successors as
   influence set covers, on every graph whose predecessor lists are the converse
   of the adjacency lists (threshold contagions, SIS/SIR-like, cascades) *)
Theorem C15_family_covers : forall g m,
  (forall u v, In v (gpred g u) -> In u (gadj g v)) ->
  cm_src m = 0%N -> cm_infl m = 0%N \/ cm_infl m = 3%N ->
  influence_covers g (fam_rate g m) (fam_infl g m).
Proof. exact fam_covers. Qed.

(* long-range models (rates depending on nodes anywhere) with the whole node set
   as influence set cover, on every graph *)
Theorem C15_family_covers_long_range : forall g m, cm_infl m = 2%N ->
  influence_covers g (fam_rate g m) (fam_infl g m).
Proof. exact fam_covers_global. Qed.

Theorem C15_family_rates_nonneg : forall g m,
  (forall u v, 0 <= ew g u v) -> (forall u, 0 <= nw g u) ->
  (forall r, In r (cm_rows m) -> 0 <= r_base r /\ 0 <= r_slope r /\ 0 <= r_low r) ->
  forall st u, 0 <= fam_rate g m st u.
Proof. exact fam_rate_nonneg. Qed.

(* a concrete threshold contagion on a triangle satisfies every hypothesis ... *)
Example C15_example_hypotheses :
  NoDup (gnodes ex_graph) /\
  (forall st u, 0 <= fam_rate ex_graph ex_model st u) /\
  (forall st u v, In u (gnodes ex_graph) -> In v (fam_infl ex_graph ex_model st u) -> In v (gnodes ex_graph)) /\
  influence_covers ex_graph (fam_rate ex_graph ex_model) (fam_infl ex_graph ex_model).
Proof. exact (conj ex_nodup (conj ex_rate_nonneg (conj ex_infl_in ex_covers))). Qed.

(* ... and runs non-trivially: node 2 reaches the threshold and turns I (total
   rate 7/2 = 1 + 1 + 3/2), then node 0 recovers (total rate 3), then tmax *)
Example C15_example_run : ex_run = ex_run_value.
Proof. exact ex_run_ok. Qed.

Print Assumptions C15_inv_initial.
Print Assumptions C15_inv_event.
Print Assumptions C15_total_is_sum_of_current_rates.
Print Assumptions C15_total_zero_iff_all_rates_zero.
Print Assumptions C15_step_law.
Print Assumptions C15_step_support.
Print Assumptions C15_stop.
Print Assumptions C15_rows_track_statuses.
Print Assumptions C15_every_run.
Print Assumptions C15_missing_ic_is_keyerror.
Print Assumptions C15_fuel_suffices.
Print Assumptions C15_refines_direct_method.
Print Assumptions C15_family_covers.
Print Assumptions C15_family_covers_long_range.
Print Assumptions C15_family_rates_nonneg.
Print Assumptions C15_example_hypotheses.
Print Assumptions C15_example_run.
