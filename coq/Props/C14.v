(* C14 — results depend on network structure, not on node names or ordering.
   Statements about the initial-condition builders shared by the *_from_graph ODE
   wrappers (Model/IC.v); proofs in Proofs/ICEquiv.v.  g' is g with its nodes renamed
   by f and G.nodes() / every adjacency list listed in any other order: all the proofs
   need is that the node list of g' is a permutation of the renamed node list of g and
   that renamed nodes keep their degree. *)
From EoNV Require Import Prelude Graph Vec IC ICP ICEquiv.
From Coq Require Import Permutation.

Section C14.
Variables (g g' : graph) (f : node -> node).
Hypothesis Hnodes : Permutation (gnodes g') (map f (gnodes g)).
Hypothesis Hdeg : forall u, In u (gnodes g) -> deg g' (f u) = deg g u.

(* number of nodes and the degree-class sizes N_k *)
Theorem C14_order_invariant : gN g' = gN g.
Proof. exact (C14_ic_order_equivariant g g' f Hnodes). Qed.

Theorem C14_Nk_invariant : Nk_of g' = Nk_of g.
Proof. exact (C14_ic_Nk_equivariant g g' f Hnodes Hdeg). Qed.

(* the per-degree-class count of ANY node class that is transported by the renaming *)
Theorem C14_class_counts_invariant :
  forall p p' : node -> bool, (forall u, In u (gnodes g) -> p' (f u) = p u) -> byclass g' p' = byclass g p.
Proof. exact (C14_ic_byclass_equivariant g g' f Hnodes Hdeg). Qed.

(* _get_Nk_and_IC_as_arrays_ with explicit initial sets: Sk0, Ik0, Rk0 *)
Theorem C14_explicit_sets_invariant :
  forall st st' : status, (forall u, In u (gnodes g) -> st' (f u) = st u) ->
  byclass g' (isS st') = byclass g (isS st) /\ byclass g' (isI st') = byclass g (isI st) /\
  byclass g' (fun u => negb (isS st' u) && negb (isI st' u)) = byclass g (fun u => negb (isS st u) && negb (isI st u)).
Proof. exact (C14_ic_get_Nk_equivariant g g' f Hnodes Hdeg). Qed.

(* ... and with rho *)
Theorem C14_rho_path_invariant :
  forall rho,
  smul (1 - rho_or_default g' rho) (Nk_of g') = smul (1 - rho_or_default g rho) (Nk_of g) /\
  smul (rho_or_default g' rho) (Nk_of g') = smul (rho_or_default g rho) (Nk_of g).
Proof. exact (C14_ic_get_Nk_rho_equivariant g g' f Hnodes Hdeg). Qed.

End C14.

(* Simulators driven by deterministic rules: Props/C11.v (esir_first_passage, for EVERY
   tie order of the priority queue: infection time of v = tmin + shortest-path distance in
   the delay graph, infector = a tight predecessor) and Props/C12.v (dsir_bfs: tmin + BFS
   distance, independent of the iteration order of the infected set) characterise the
   per-node histories by graph distances, which mention neither labels nor insertion
   order.  The implementation-level statement is carried by the relabelling runs of the
   check. *)

(* non-vacuity: the path 0-1-2 renamed by u -> 2-u with the node order reversed *)
Example C14_hypotheses_satisfiable :
  let g' := mk_ugraph [2%N; 1%N; 0%N] (gadj path3) in
  Permutation (gnodes g') (map (fun u => (2 - u)%N) (gnodes path3)) /\
  (forall u, In u (gnodes path3) -> deg g' ((fun u => (2 - u)%N) u) = deg path3 u).
Proof. exact C14_ic_relabel_example. Qed.

Print Assumptions C14_order_invariant.
Print Assumptions C14_Nk_invariant.
Print Assumptions C14_class_counts_invariant.
Print Assumptions C14_explicit_sets_invariant.
Print Assumptions C14_rho_path_invariant.
Print Assumptions C14_hypotheses_satisfiable.
