(* C10 for the generic simulator Gillespie_simple_contagion: the full-data object and the arrays
   describe the same epidemic, for EVERY graph, specification, initial statuses,
   return_statuses and EVERY draw script.  The node histories are the per-node projections of
   ONE event log, the rows (the `data` lists that the plain mode returns) are its running
   counts; hence, by the generic log lemma (Props/C10.v, C10_log_lemma), summary() of the
   histories = the arrays whenever return_statuses covers the statuses and no two events share
   an instant; each node history starts at tmin, is time-ordered, uses possible statuses and
   only makes moves along spec edges (consistent_b accepts).
   Proofs: Proofs/SimpleExecC10.v, SimpleExecChk.v. *)
From EoNV Require Import Prelude Samp Graph ListDict ListDictP Gillespie KldP GillespieInv SampP Simple SimpleP
  SimpleExecS SimpleExec SimpleExecLog SimpleExecTop SimpleExecChk SimpleExecC10 SimpleExecFuel SimpleExecFlag SimpleExecC10b.
From EoNV Require Import Investigation InvestigationP.
From EoNV Require Complex ComplexP ComplexExec ComplexExecChk ComplexExecC10 ComplexExecFlag.

Theorem C10gen_summary_equals_arrays :
  forall g (Hg : wfg2 g) ic rstat tmin tmax sortable spont induced fuel ds out tr,
  Forall (sp_tr_ok g) spont -> Forall (in_tr_ok g) induced ->
  exec (simple g sortable spont induced ic rstat tmin tmax true fuel) ds [] = (Ok out, tr) ->
  exists (evs : list gev) (fd : fulldata),
    so_full out = Some fd /\
    fd_hist fd = iv_hist (log_inv (gnodes g) rstat tmin ic (map ev3 evs)) /\
    so_rows out = log_arrays (gnodes g) rstat tmin ic (map ev3 evs) /\
    (covered g ic rstat spont induced -> increasing tmin (map ev3 evs) = true ->
       summary (mkInv (gnodes g) (fd_hist fd) None (Some rstat)) None = Ok (so_rows out) /\
       consistent_b (mkInv (gnodes g) (fd_hist fd) None (Some rstat)) (so_rows out) tmin (moves_of spont induced) = true).
Proof. exact simple_summary_equals_arrays. Qed.

(* ---- the premise of C10, proved: return_full_data does not influence the run.  For EVERY draw
   script the plain run and the full-data run make the same calls to the random source; when both
   return their rows are equal; the only possible difference is the constructor of the full-data
   object failing after the simulation (return_statuses missing a status) ---- *)
Theorem C10gen_both_modes_consume_the_same_draws :
  forall g ic rstat tmin tmax sortable spont induced fuel ds,
  let r1 := exec (simple g sortable spont induced ic rstat tmin tmax false fuel) ds [] in
  let r2 := exec (simple g sortable spont induced ic rstat tmin tmax true fuel) ds [] in
  snd r1 = snd r2 /\
  match fst r1, fst r2 with
  | Ok o1, Ok o2 => so_rows o1 = so_rows o2 /\ so_full o1 = None /\ so_full o2 <> None
  | Ok o1, Err e => e = KeyErr \/ e = IndexErr
  | Err e1, Err e2 => e1 = e2
  | Err _, Ok _ => False
  end.
Proof. exact simple_flag_independent. Qed.

(* ---- C10 as stated: on the same draw script, the arrays returned WITHOUT return_full_data are
   summary() of the node histories returned WITH it (return_statuses covering, no two events at
   one instant), and consistent_b accepts the pair (histories of the full run, arrays of the plain run) ---- *)
Theorem C10gen_plain_arrays_are_summary_of_full_run :
  forall g (Hg : wfg2 g) ic rstat tmin tmax sortable spont induced fuel ds o1 tr1 o2 tr2,
  Forall (sp_tr_ok g) spont -> Forall (in_tr_ok g) induced ->
  exec (simple g sortable spont induced ic rstat tmin tmax false fuel) ds [] = (Ok o1, tr1) ->
  exec (simple g sortable spont induced ic rstat tmin tmax true fuel) ds [] = (Ok o2, tr2) ->
  tr1 = tr2 /\ so_rows o1 = so_rows o2 /\ so_full o1 = None /\
  exists (evs : list gev) (fd : fulldata),
    so_full o2 = Some fd /\
    fd_hist fd = iv_hist (log_inv (gnodes g) rstat tmin ic (map ev3 evs)) /\
    so_rows o1 = log_arrays (gnodes g) rstat tmin ic (map ev3 evs) /\
    (covered g ic rstat spont induced -> increasing tmin (map ev3 evs) = true ->
       summary (mkInv (gnodes g) (fd_hist fd) None (Some rstat)) None = Ok (so_rows o1) /\
       consistent_b (mkInv (gnodes g) (fd_hist fd) None (Some rstat)) (so_rows o1) tmin (moves_of spont induced) = true).
Proof. exact simple_plain_arrays_are_summary_of_full_run. Qed.

(* in BOTH return modes the rows are the running counts of the run's log (the plain mode
   returns them; the witness checker [gen_rows_okb] accepts them) *)
Theorem C10gen_rows_are_running_counts_in_both_modes :
  forall g (Hg : wfg2 g) ic rstat tmin tmax full sortable spont induced fuel ds out tr,
  Forall (sp_tr_ok g) spont -> Forall (in_tr_ok g) induced ->
  exec (simple g sortable spont induced ic rstat tmin tmax full fuel) ds [] = (Ok out, tr) ->
  exists evs st' t',
    glog g spont induced tmax ic tmin evs st' t' /\
    so_rows out = log_arrays (gnodes g) rstat tmin ic (map ev3 evs) /\
    gen_rows_okb g rstat tmin ic (so_rows out) evs = true.
Proof.
  intros g Hg ic rstat tmin tmax full sortable spont induced fuel ds out tr Hsp Hin Hex.
  destruct (simple_exec_output g Hg ic rstat tmin tmax full sortable spont induced fuel ds out tr Hsp Hin Hex)
    as [evs [st' [t' [Hlog [Hrows _]]]]].
  exists evs, st', t'. split; [exact Hlog|]. split.
  - rewrite Hrows. unfold log_arrays, row0. rewrite ev_rows_log_rows. reflexivity.
  - unfold gen_rows_okb. rewrite Hrows. unfold row0. apply (list_eqb_refl _ _ row_eqb_refl).
Qed.

(* what acceptance by the witness checker means: the arrays equal the running counts of the
   witness log, row by row (times up to ==) *)
Theorem C10gen_rows_checker_sound :
  forall g rstat tmin ic rows w, gen_rows_okb g rstat tmin ic rows w = true ->
  Forall2 row_eq rows (log_arrays (gnodes g) rstat tmin ic (map ev3 w)).
Proof.
  intros g rstat tmin ic rows w Hb. unfold gen_rows_okb in Hb.
  unfold log_arrays. rewrite <- ev_rows_log_rows.
  exact (list_eqb_Forall2 _ row_eqb _ row_eqb_sound _ _ Hb).
Qed.

(* each node history only makes moves along spec edges *)
Theorem C10gen_histories_make_spec_moves :
  forall g H J tmax st t evs st' t', glog g H J tmax st t evs st' t' ->
  forall u t0, legalb (moves_of H J) ((t0, st u) :: map pe (filter (of_node u) (map ev3 evs))) = true.
Proof. exact glog_legalb. Qed.

(* ---- Gillespie_complex_contagion: the same, for every user model inside C15's domain whose
   chooser only answers return statuses: histories = per-node projections of one log, rows = its
   running counts, hence summary() = arrays when no two events share an instant ---- *)
Theorem C10gen_complex_summary_equals_arrays :
  forall g rate choice infl rstats tmin tmax,
  NoDup (gnodes g) -> (forall st u, 0 <= rate st u) ->
  (forall st u v, In u (gnodes g) -> In v (infl st u) -> In v (gnodes g)) ->
  ComplexP.influence_covers g rate infl ->
  (forall st u, In (choice st u) rstats) ->
  forall (ic : node -> option N) fuel ds out tr,
  (forall u, In u (gnodes g) -> ic u <> None) ->
  exec (Complex.complex g rate choice infl rstats tmin tmax true ic fuel) ds [] = (Ok out, tr) ->
  let st0 := fun u => match ic u with Some s => s | None => 0%N end in
  exists (evs : list (Q * node)) (fd : fulldata),
    let log := ComplexExec.ev_elog choice st0 evs in
    so_full (fst out) = Some fd /\
    fd_hist fd = iv_hist (log_inv (gnodes g) rstats tmin st0 log) /\
    so_rows (fst out) = log_arrays (gnodes g) rstats tmin st0 log /\
    (gnodes g <> [] -> (forall u, In u (gnodes g) -> In (st0 u) rstats) -> increasing tmin log = true ->
       summary (mkInv (gnodes g) (fd_hist fd) None (Some rstats)) None = Ok (so_rows (fst out)) /\
       consistent_b (mkInv (gnodes g) (fd_hist fd) None (Some rstats)) (so_rows (fst out)) tmin (ComplexExecChk.all_moves rstats) = true).
Proof. exact ComplexExecC10.complex_summary_equals_arrays. Qed.

(* ... and return_full_data does not influence the run of Gillespie_complex_contagion either: for
   EVERY user model (no hypothesis) and draw script both modes make the same calls to the random
   source, and when both return, the same rows and the same calls to the user's functions *)
Theorem C10gen_complex_both_modes_consume_the_same_draws :
  forall g rate choice infl rstats tmin tmax (ic : node -> option N) fuel ds,
  let r1 := exec (Complex.complex g rate choice infl rstats tmin tmax false ic fuel) ds [] in
  let r2 := exec (Complex.complex g rate choice infl rstats tmin tmax true ic fuel) ds [] in
  snd r1 = snd r2 /\
  match fst r1, fst r2 with
  | Ok o1, Ok o2 => so_rows (fst o1) = so_rows (fst o2) /\ snd o1 = snd o2 /\ so_full (fst o1) = None /\ so_full (fst o2) <> None
  | Ok o1, Err e => e = KeyErr \/ e = IndexErr
  | Err e1, Err e2 => e1 = e2
  | Err _, Ok _ => False
  end.
Proof. exact ComplexExecFlag.complex_flag_independent. Qed.

(* non-vacuity: the example run of Props/C03.v (return_statuses = both statuses, covering);
   summary() of its histories is its rows, and consistent_b rejects the histories against rows
   with one count changed *)
Example C10gen_example :
  covered ex_g ex_ic [0%N; 1%N] ex_sp ex_in /\
  match fst (run_simple ex_g true ex_sp ex_in ex_ic [0%N; 1%N] 0 (Some 5) true 10 ex_draws) with
  | Ok out => match so_full out with
              | Some fd =>
                let iv := mkInv (gnodes ex_g) (fd_hist fd) None (Some [0%N; 1%N]) in
                option_map (map snd) (match summary iv None with Ok r => Some r | Err _ => None end) = Some (map snd (so_rows out)) /\
                consistent_b iv (so_rows out) 0 (moves_of ex_sp ex_in) = true /\
                consistent_b iv [(0, [2; 1]%Z); (1 # 4, [1; 2]%Z); (1 # 2, [1; 2]%Z)] 0 (moves_of ex_sp ex_in) = false
              | None => False
              end
  | Err _ => False
  end.
Proof.
  split.
  - split; [discriminate|]. split.
    + intros u [E|[E|[E|[]]]]; subst u; cbn; auto.
    + split; intros tr [E|[]]; subst tr; cbn; auto.
  - vm_compute. repeat split; reflexivity.
Qed.

Print Assumptions C10gen_summary_equals_arrays.
Print Assumptions C10gen_both_modes_consume_the_same_draws.
Print Assumptions C10gen_plain_arrays_are_summary_of_full_run.
Print Assumptions C10gen_rows_are_running_counts_in_both_modes.
Print Assumptions C10gen_rows_checker_sound.
Print Assumptions C10gen_histories_make_spec_moves.
Print Assumptions C10gen_complex_summary_equals_arrays.
Print Assumptions C10gen_complex_both_modes_consume_the_same_draws.
Print Assumptions C10gen_example.
