(* C04 — trajectories are well-formed, for the discrete-time simulators discrete_SIR
   (hence basic_discrete_SIR, which forwards to it: Props/C12.v [C12_basic_forwards]) and
   basic_discrete_SIS.  Model: Model/Discrete.v (the definitions that are extracted and run
   against /repo); checker: Model/DiscreteChk.v; proofs: Proofs/DiscreteRun.v, DiscreteRunS.v,
   DiscreteTop.v, DiscreteC04.v.

   Reading guide.  [discrete_SIR g R trec ord (Some i0) r0o None tmin tmax full fuel] is the
   simulator as a sampler program: R = the transmission rule and random.choice as ARBITRARY
   sampler programs (a table of outcomes [det_rules], the code's default rule [simple_rules p]
   = one random.random() < p per test, or anything else), trec = test_recovery or None, ord =
   the iteration order of the Python set `infecteds`, full = return_full_data.  [exec m ds []] runs it
   on the draw script ds.  [wf_inputb] = the property's domain (nodes distinct, neighbours are
   nodes, initial sets duplicate-free, inside the graph, disjoint).  [pick_sound R] = random.choice
   returns one of the candidates it is given (proved for both rule families below).
   [drun g kind onestep tmin tmax full st0 tl0 K t st rows hl tl] (Proofs/DiscreteRun.v), read
   chronologically: status maps st_0 .. st_K, st_0 = the requested statuses; row k = (tmin + k,
   census of st_k) where [census] is GillespieP.census, the one of Props/C04.v; step k -> k+1 is
   taken only while st_k has an infected node and tmin + k < tmax, and is a [dstep]: every node
   keeps its status or makes one legal move -- S -> I only next to a node infectious in st_k,
   I -> R (SIR; without test_recovery every infectious node does: infectious for exactly one
   step), I -> S for every infectious node (SIS).  [dstopped]: after the last row no infected
   node is left or its time is not before tmax. *)
From EoNV Require Import Prelude Samp Graph Discrete DiscreteP SampP DiscreteChk DiscreteRun DiscreteRunS DiscreteTop DiscreteC04 DiscreteSafe DiscreteC05 DiscreteHist DiscreteC09 DiscretePerc.
From EoNV Require Gillespie GillespieP.
From Coq Require Import Permutation.

(* --- discrete_SIR: every graph, every rule, with or without test_recovery, every order of
   iteration, initial sets, tmin/tmax, fuel, both return modes, EVERY draw script: if the run
   returns, its rows are the censuses of a chain of status maps linked by legal steps, one per
   unit step from tmin, stopped when no infected node remains or tmax is reached *)
Theorem C04_discrete_SIR_rows_are_a_run : forall g R trec ord i0 r0o tmin tmax full fuel ds out tr,
  wf_inputb g i0 (opt_list r0o) = true -> perm_oracle ord -> (full = true -> pick_sound R) ->
  exec (discrete_SIR g R trec ord (Some i0) r0o None tmin tmax full fuel) ds [] = (Ok out, tr) ->
  exists K t st rows hl tl,
    drun g kSIR (onestep_of trec) tmin tmax full (init_status i0 (opt_list r0o)) (init_tl full tmin i0) K t st rows hl tl /\
    dstopped g tmax t st /\
    so_rows (o_sim out) = rev rows /\
    so_full (o_sim out) = (if full then Some (mkFull (build_hist g tmin i0 (opt_list r0o) hl) (rev tl)) else None).
Proof. exact dsir_exec_run. Qed.

Theorem C04_basic_discrete_SIS_rows_are_a_run : forall g R ord i0 tmin tmax full fuel ds out tr,
  wf_inputb g i0 [] = true -> perm_oracle ord -> (full = true -> pick_sound R) ->
  exec (basic_discrete_SIS_R g R ord (Some i0) None tmin tmax full fuel) ds [] = (Ok out, tr) ->
  exists K t st rows hl tl,
    drun g kSIS true tmin tmax full (init_status i0 []) (init_tl full tmin i0) K t st rows hl tl /\
    dstopped g tmax t st /\
    so_rows (o_sim out) = rev rows /\
    so_full (o_sim out) = (if full then Some (mkFull (build_hist g tmin i0 [] hl) (rev tl)) else None).
Proof. exact dsis_exec_run. Qed.

(* the k-th row of a drun is (its k-th time, census of its k-th status map) and there are K+1 rows *)
Theorem C04_discrete_rows_are_censuses : forall g kind os tmin tmax full st0 tl0 K t st rows hl tl,
  drun g kind os tmin tmax full st0 tl0 K t st rows hl tl ->
  length rows = S K /\ nth_error (rev rows) K = Some (t, GillespieP.census g kind st).
Proof. exact drun_nth. Qed.

(* --- the decidable checker [dwf_rowsb sir onestep g tmin tmax rows] (Model/DiscreteChk.v;
   extracted and applied to the IMPLEMENTATION's arrays by harness/discx.py) accepts the rows
   of every run of the model, both simulators, every draw script *)
Theorem C04_discrete_SIR_checker_accepts_every_run : forall g R trec ord i0 r0o tmin tmax full fuel ds out tr,
  wf_inputb g i0 (opt_list r0o) = true -> perm_oracle ord -> (full = true -> pick_sound R) ->
  exec (discrete_SIR g R trec ord (Some i0) r0o None tmin tmax full fuel) ds [] = (Ok out, tr) ->
  dwf_rowsb true (onestep_of trec) g tmin tmax (so_rows (o_sim out)) = true.
Proof. exact dsir_rows_accepted. Qed.

Theorem C04_basic_discrete_SIS_checker_accepts_every_run : forall g R ord i0 tmin tmax full fuel ds out tr,
  wf_inputb g i0 [] = true -> perm_oracle ord -> (full = true -> pick_sound R) ->
  exec (basic_discrete_SIS_R g R ord (Some i0) None tmin tmax full fuel) ds [] = (Ok out, tr) ->
  dwf_rowsb false true g tmin tmax (so_rows (o_sim out)) = true.
Proof. exact dsis_rows_accepted. Qed.

(* percolation_based_discrete_SIR (percolate the network with the rule, then discrete_SIR with
   H.has_edge): every reachable result is a result of discrete_SIR on a percolated graph H with the
   nodes of G and edges of G (Proofs/DiscretePerc.v [psir_is_dsir_on_percolated]); so its rows pass
   the same checker, and row 0 is the request *)
Theorem C04_percolation_based_discrete_SIR_checker_accepts_every_run : forall g R ord i0 r0o tmin tmax full fuel ds out tr,
  wf_inputb g i0 (opt_list r0o) = true -> perm_oracle ord -> (full = true -> pick_sound R) ->
  exec (percolation_based_discrete_SIR_R g R ord (Some i0) r0o None tmin tmax full fuel) ds [] = (Ok out, tr) ->
  dwf_rowsb true true g tmin tmax (so_rows (o_sim out)) = true /\
  exists rest, so_rows (o_sim out) = (tmin, row0_of true g i0 (opt_list r0o)) :: rest.
Proof. exact psir_rows_accepted. Qed.

(* ... and acceptance means the discrete-time clause of the property: the first row is at
   tmin; every row has the right number of columns, non-negative counts summing to N;
   consecutive rows a, b: b is exactly one unit later, a is before tmax and has an infected
   node (the loop condition), and the counts move legally ([dmove_spec]: SIR -- S does not
   increase, R does not decrease, at most the I nodes recover, and without test_recovery
   R' = R + I; SIS -- the new infections come from the previously susceptible nodes); after the
   last row no infected node is left or its time is not before tmax *)
Theorem C04_discrete_checker_sound : forall sir os g tmin tmax l, dwf_rowsb sir os g tmin tmax l = true ->
  (exists r l', l = r :: l' /\ fst r == tmin /\ drow_spec sir (order g) (snd r)) /\
  (forall l1 a b l2, l = l1 ++ a :: b :: l2 -> dpair_spec sir os (order g) tmax a b) /\
  (exists l1 z, l = l1 ++ [z] /\ ((cntz (snd z) 1 = 0)%Z \/ xlt (fst z) tmax = false)).
Proof. exact dwf_rowsb_sound. Qed.

Theorem C04_discrete_counts_nonnegative_and_sum_to_N : forall sir os g tmin tmax l,
  dwf_rowsb sir os g tmin tmax l = true -> forall r, In r l ->
  length (snd r) = (if sir then 3 else 2)%nat /\ Forall (fun x => (0 <= x)%Z) (snd r) /\ sumZ (snd r) = order g.
Proof. exact accepted_rows_ok. Qed.

(* one row per unit step from tmin *)
Theorem C04_discrete_kth_row_is_at_tmin_plus_k : forall sir os g tmin tmax l,
  dwf_rowsb sir os g tmin tmax l = true ->
  forall k r, nth_error l k = Some r -> fst r == tmin + inject_Z (Z.of_nat k).
Proof. exact accepted_times. Qed.

(* a horizon of a whole number of steps is never exceeded *)
Theorem C04_discrete_never_exceeds_whole_step_horizon : forall sir os g tmin l (n : nat),
  dwf_rowsb sir os g tmin (Some (tmin + inject_Z (Z.of_nat n))) l = true ->
  forall r, In r l -> fst r <= tmin + inject_Z (Z.of_nat n).
Proof. exact accepted_within_horizon. Qed.

Theorem C04_discrete_SIR_monotone : forall os g tmin tmax l, dwf_rowsb true os g tmin tmax l = true ->
  forall l1 a b l2, l = l1 ++ a :: b :: l2 -> (cntz (snd b) 0 <= cntz (snd a) 0)%Z /\ (cntz (snd a) 2 <= cntz (snd b) 2)%Z.
Proof. exact accepted_SIR_monotone. Qed.

(* an unbounded run (tmax = inf) ends with no infected node *)
Theorem C04_discrete_unbounded_run_ends_without_infection : forall sir os g tmin l,
  dwf_rowsb sir os g tmin None l = true -> exists l1 z, l = l1 ++ [z] /\ cntz (snd z) 1 = 0%Z.
Proof. exact accepted_unbounded_ends_without_infection. Qed.

(* --- no run ends in a Python-level failure: under rules that do not fail themselves
   ([rules_safe]: no error from the test, none from random.choice on a non-empty list -- the
   table rules and the code's default rule) a run of the model either returns or stops for lack
   of scripted draws or of the model's fuel; and without test_recovery fuel > N is never
   exhausted (the susceptible nodes strictly decrease while the loop runs), so every draw script
   that is long enough yields a result *)
Theorem C04_discrete_SIR_never_crashes : forall g R trec ord i0 r0o tmin tmax full fuel ds e tr, rules_safe R ->
  exec (discrete_SIR g R trec ord (Some i0) r0o None tmin tmax full fuel) ds [] = (Err e, tr) ->
  e = OutOfDraws \/ e = OutOfFuel.
Proof. exact dsir_never_crashes. Qed.

Theorem C04_basic_discrete_SIS_never_crashes : forall g R ord i0 tmin tmax full fuel ds e tr, rules_safe R ->
  exec (basic_discrete_SIS_R g R ord (Some i0) None tmin tmax full fuel) ds [] = (Err e, tr) ->
  e = OutOfDraws \/ e = OutOfFuel.
Proof. exact dsis_never_crashes. Qed.

Theorem C04_discrete_SIR_fuel_suffices : forall g R ord i0 r0o tmin tmax full fuel ds e tr, rules_safe R ->
  wf_inputb g i0 (opt_list r0o) = true -> perm_oracle ord -> (full = true -> pick_sound R) ->
  (length (gnodes g) < fuel)%nat ->
  exec (discrete_SIR g R None ord (Some i0) r0o None tmin tmax full fuel) ds [] = (Err e, tr) -> e = OutOfDraws.
Proof. exact dsir_fuel_suffices. Qed.

(* a finite horizon tmax = tmin + n bounds the number of steps: fuel > n is never exhausted,
   with or without test_recovery, and for basic_discrete_SIS *)
Theorem C04_discrete_SIR_horizon_bounds_the_steps : forall g R trec ord i0 r0o tmin (n : nat) full fuel ds e tr,
  rules_safe R -> (n < fuel)%nat ->
  exec (discrete_SIR g R trec ord (Some i0) r0o None tmin (Some (tmin + inject_Z (Z.of_nat n))) full fuel) ds [] = (Err e, tr) -> e = OutOfDraws.
Proof. exact dsir_horizon_suffices. Qed.

Theorem C04_basic_discrete_SIS_horizon_bounds_the_steps : forall g R ord i0 tmin (n : nat) full fuel ds e tr,
  rules_safe R -> (n < fuel)%nat ->
  exec (basic_discrete_SIS_R g R ord (Some i0) None tmin (Some (tmin + inject_Z (Z.of_nat n))) full fuel) ds [] = (Err e, tr) -> e = OutOfDraws.
Proof. exact dsis_horizon_suffices. Qed.

Theorem C04_table_rules_safe : forall tt pick, rules_safe (det_rules tt pick).
Proof. exact det_rules_safe. Qed.
Theorem C04_default_rule_safe : forall p, rules_safe (simple_rules p).
Proof. exact simple_rules_safe. Qed.

(* the two rule families of the check satisfy [pick_sound] *)
Theorem C04_table_rules_pick_sound : forall tt pick, pick_sound (det_rules tt pick).
Proof. exact det_pick_sound. Qed.
Theorem C04_default_rule_pick_sound : forall p, pick_sound (simple_rules p).
Proof. exact simple_pick_sound. Qed.

(* ---------------- non-vacuity ---------------- *)
(* path 0 - 1 - 2 - 3 plus the chord 0 - 2 (the graph of Props/C12.v), node 3 initially recovered *)
Definition ex_adj (u : node) : list node :=
  match u with 0%N => [1; 2]%N | 1%N => [0; 2]%N | 2%N => [1; 3; 0]%N | 3%N => [2]%N | _ => [] end.
Definition ex_g : graph := mkGraph [0; 1; 2; 3]%N ex_adj ex_adj false (fun _ _ => 1) (fun _ => 1) false false.
Definition ex_tt (u v : node) (_ : nat) : bool := negb (N.eqb u 0 && N.eqb v 2).
Definition ex_ord (k : nat) (l : list node) : list node := rev l.
(* test_recovery: a node recovers at its second test *)
Definition ex_rec (u : node) (a : nat) : bool := Nat.leb 1 a.

Example C04_disc_hypotheses_satisfiable :
  wf_inputb ex_g [0%N] [3%N] = true /\ perm_oracle ex_ord /\ wf_inputb ex_g [0%N; 2%N] [] = true.
Proof.
  split; [vm_compute; reflexivity|]. split; [|vm_compute; reflexivity].
  intros k l. unfold ex_ord. apply Permutation_sym. apply Permutation_rev.
Qed.

(* table rule, no recovery test; table rule with a recovery test; the default rule under a draw
   script (p = 1/2, draws 1/4 = success, 3/4 = failure); the SIS simulator for 3 steps *)
Example C04_disc_example_runs :
  (exists o tr, exec (discrete_SIR ex_g (det_rules ex_tt (fun _ _ => O)) None ex_ord (Some [0%N]) (Some [3%N]) None 0 None false 9) [] [] = (Ok o, tr) /\
     map snd (so_rows (o_sim o)) = [[2; 1; 1]; [1; 1; 2]; [0; 1; 3]; [0; 0; 4]]%Z /\
     dwf_rowsb true true ex_g 0 None (so_rows (o_sim o)) = true) /\
  (exists o tr, exec (discrete_SIR ex_g (det_rules ex_tt (fun _ _ => O)) (Some ex_rec) ex_ord (Some [0%N]) (Some [3%N]) None 0 None true 9) [] [] = (Ok o, tr) /\
     map snd (so_rows (o_sim o)) = [[2; 1; 1]; [1; 2; 1]; [0; 2; 2]; [0; 1; 3]; [0; 0; 4]]%Z /\
     dwf_rowsb true false ex_g 0 None (so_rows (o_sim o)) = true /\ dwf_rowsb true true ex_g 0 None (so_rows (o_sim o)) = false) /\
  (exists o tr, exec (basic_discrete_SIR ex_g (1 # 2) ex_ord (Some [0%N]) (Some [3%N]) None (5 # 2) (Some (9 # 2)) false 9) [1 # 4; 3 # 4; 1 # 4] [] = (Ok o, tr) /\
     map (fun r => (Qred (fst r), snd r)) (so_rows (o_sim o)) = [(5 # 2, [2; 1; 1]); (7 # 2, [1; 1; 2]); (9 # 2, [0; 1; 3])]%Z /\
     dwf_rowsb true true ex_g (5 # 2) (Some (9 # 2)) (so_rows (o_sim o)) = true) /\
  (exists o tr, exec (basic_discrete_SIS_R ex_g (det_rules ex_tt (fun _ _ => O)) ex_ord (Some [0%N; 2%N]) None 0 (Some 3) true 9) [] [] = (Ok o, tr) /\
     map snd (so_rows (o_sim o)) = [[2; 2]; [2; 2]; [2; 2]; [2; 2]]%Z /\
     dwf_rowsb false true ex_g 0 (Some 3) (so_rows (o_sim o)) = true).
Proof.
  split; [|split; [|split]]; eexists; eexists; (split; [vm_compute; reflexivity|]); vm_compute; repeat split.
Qed.

(* the checker rejects: a first time other than tmin; a gap of two time units; counts not
   summing to N; S increasing; recovered nodes lost; a run that stops although a node is
   infected and tmax is not reached; a run that goes on after the infection died out; a step
   taken at tmax; without test_recovery an infectious node that stays infectious *)
Definition r3 (t : Q) (a b c : Z) : row := (t, [a; b; c]).
Definition r2 (t : Q) (a b : Z) : row := (t, [a; b]).
Example C04_disc_checker_rejects :
  let chk := dwf_rowsb true true ex_g 0 None in
  chk [r3 0 2 1 1; r3 1 1 1 2; r3 2 0 1 3; r3 3 0 0 4] = true /\
  chk [r3 1 2 1 1; r3 2 1 1 2; r3 3 0 1 3; r3 4 0 0 4] = false /\
  chk [r3 0 2 1 1; r3 2 1 1 2; r3 3 0 1 3; r3 4 0 0 4] = false /\
  chk [r3 0 2 1 1; r3 1 1 1 1; r3 2 1 0 2] = false /\
  chk [r3 0 2 1 1; r3 1 3 0 1] = false /\
  chk [r3 0 2 1 1; r3 1 1 2 1; r3 2 1 0 3] = false /\
  chk [r3 0 2 1 1; r3 1 1 1 2] = false /\
  chk [r3 0 2 1 1; r3 1 2 0 2; r3 2 2 0 2] = false /\
  dwf_rowsb true true ex_g 0 (Some 1) [r3 0 2 1 1; r3 1 1 1 2; r3 2 0 1 3; r3 3 0 0 4] = false /\
  dwf_rowsb false true ex_g 0 (Some 2) [r2 0 2 2; r2 1 1 3; r2 2 3 1] = false.
Proof. vm_compute. repeat split. Qed.

Print Assumptions C04_discrete_SIR_rows_are_a_run.
Print Assumptions C04_basic_discrete_SIS_rows_are_a_run.
Print Assumptions C04_discrete_rows_are_censuses.
Print Assumptions C04_discrete_SIR_checker_accepts_every_run.
Print Assumptions C04_basic_discrete_SIS_checker_accepts_every_run.
Print Assumptions C04_percolation_based_discrete_SIR_checker_accepts_every_run.
Print Assumptions C04_discrete_checker_sound.
Print Assumptions C04_discrete_counts_nonnegative_and_sum_to_N.
Print Assumptions C04_discrete_kth_row_is_at_tmin_plus_k.
Print Assumptions C04_discrete_never_exceeds_whole_step_horizon.
Print Assumptions C04_discrete_SIR_monotone.
Print Assumptions C04_discrete_unbounded_run_ends_without_infection.
Print Assumptions C04_discrete_SIR_never_crashes.
Print Assumptions C04_basic_discrete_SIS_never_crashes.
Print Assumptions C04_discrete_SIR_fuel_suffices.
Print Assumptions C04_discrete_SIR_horizon_bounds_the_steps.
Print Assumptions C04_basic_discrete_SIS_horizon_bounds_the_steps.
Print Assumptions C04_table_rules_safe.
Print Assumptions C04_default_rule_safe.
Print Assumptions C04_table_rules_pick_sound.
Print Assumptions C04_default_rule_pick_sound.
Print Assumptions C04_disc_hypotheses_satisfiable.
Print Assumptions C04_disc_example_runs.
Print Assumptions C04_disc_checker_rejects.
