(* C10 for the event-driven SIS simulators — the full-data object and the plain time
   series describe the same epidemic.  fast_SIS (every draw script via [exec]) and
   fast_nonMarkov_SIS ([nm_run], every rule table inside [rules_ok]).  Statements
   only; proofs in Proofs/EventSIS{Rows,Log,Fast,NM,Out}.v.

   Every full-data run: there is ONE event log [evs] (after the initial condition,
   chronological) such that, whenever its times are strictly increasing after tmin (no
   two events at the same instant, none at tmin: probability one for fast_SIS)
     - the per-node histories handed to Simulation_Investigation — built by
       _transform_to_node_history_(SIR=False) from the infection_times / recovery_times
       dicts, with its reset of the default ([tmin],['S']) by an INFECTION entry at tmin —
       are literally the per-node projections of the log ([log_inv], Model/Investigation.v);
     - the returned arrays are its running counts ([log_arrays]);
     - hence, by the log lemma (Props/C10.v, C10_log_lemma), summary() of the object
       equals the arrays. *)
From EoNV Require Import Prelude Samp Graph ListDict ListDictP Gillespie KldP GillespieInv SampP GillespieP GillespieLog.
From EoNV Require Import Investigation InvestigationP GillespieC10.
From EoNV Require Import EventSIS EventSISP EventSISRows EventSISLog EventSISFast EventSISNM EventSISOut EventSISEx.

Section C10esis.
Variable g : graph.
Hypothesis Hnd : NoDup (gnodes g).
Hypothesis Hadj : forall u v, In v (gadj g u) -> In v (gnodes g).

Theorem C10_fast_SIS_summary_equals_arrays :
  forall tau gamma tmax tmin i0 fuel ds out tr,
    xlt tmin tmax = true -> NoDup i0 -> incl i0 (gnodes g) ->
    exec (fast_SIS g tau gamma tmax (Some i0) None tmin true fuel) ds [] = (Ok out, tr) ->
    exists (evs : list ev) (fd : fulldata),
      so_full out = Some fd /\
      so_rows out = log_arrays (gnodes g) [stS; stI] tmin (st_init i0 []) evs /\
      (increasing tmin evs = true ->
         fd_hist fd = iv_hist (log_inv (gnodes g) [stS; stI] tmin (st_init i0 []) evs) /\
         (gnodes g <> [] ->
          summary (log_inv (gnodes g) [stS; stI] tmin (st_init i0 []) evs) None = Ok (so_rows out))).
Proof. exact (fsis_C10 g Hnd Hadj). Qed.

Theorem C10_fast_nonMarkov_SIS_summary_equals_arrays :
  forall dur delays tmax tmin i0 fuel out,
    xlt tmin tmax = true -> NoDup i0 -> incl i0 (gnodes g) -> rules_ok dur delays ->
    nm_run g dur delays tmax tmin true fuel i0 = Ok out ->
    exists (evs : list ev) (fd : fulldata),
      so_full out = Some fd /\
      so_rows out = log_arrays (gnodes g) [stS; stI] tmin (st_init i0 []) evs /\
      (increasing tmin evs = true ->
         fd_hist fd = iv_hist (log_inv (gnodes g) [stS; stI] tmin (st_init i0 []) evs) /\
         (gnodes g <> [] ->
          summary (log_inv (gnodes g) [stS; stI] tmin (st_init i0 []) evs) None = Ok (so_rows out))).
Proof. exact (nmsis_C10 g Hnd Hadj). Qed.

(* the same with a hypothesis on the OUTPUT alone: whenever the returned times are strictly
   increasing ([ascending], Model/EventSIS.v), the summary of the object built from the
   returned node histories (all nodes, possible statuses S, I) is the returned arrays *)
Theorem C10_fast_SIS_summary_of_returned_histories :
  forall tau gamma tmax tmin i0 fuel ds out tr,
    xlt tmin tmax = true -> NoDup i0 -> incl i0 (gnodes g) -> gnodes g <> [] ->
    exec (fast_SIS g tau gamma tmax (Some i0) None tmin true fuel) ds [] = (Ok out, tr) ->
    ascending (map fst (so_rows out)) = true ->
    exists fd, so_full out = Some fd /\
      summary (mkInv (gnodes g) (fd_hist fd) None (Some [stS; stI])) None = Ok (so_rows out).
Proof. exact (fsis_C10_obs g Hnd Hadj). Qed.

Theorem C10_fast_nonMarkov_SIS_summary_of_returned_histories :
  forall dur delays tmax tmin i0 fuel out,
    xlt tmin tmax = true -> NoDup i0 -> incl i0 (gnodes g) -> gnodes g <> [] -> rules_ok dur delays ->
    nm_run g dur delays tmax tmin true fuel i0 = Ok out ->
    ascending (map fst (so_rows out)) = true ->
    exists fd, so_full out = Some fd /\
      summary (mkInv (gnodes g) (fd_hist fd) None (Some [stS; stI])) None = Ok (so_rows out).
Proof. exact (nmsis_C10_obs g Hnd Hadj). Qed.

End C10esis.

(* with and without return_full_data the rows are the same function of the logs
   ([finish] only adds the object), so the arrays above are the plain-mode arrays too *)
Theorem C10esis_rows_do_not_depend_on_the_flag :
  forall g tmin ni0 lg, so_rows (finish g tmin true ni0 lg) = so_rows (finish g tmin false ni0 lg).
Proof. reflexivity. Qed.

(* ---------------- non-vacuity ---------------- *)
(* both example runs return strictly increasing times, so the conclusion holds for them
   (11 and 16 rows; node 0 is re-infected twice in the first one) *)
Example C10esis_fast_SIS_example :
  exists out tr fd, exec (fast_SIS gp 2 1 (Some 2) (Some [0%N]) None 0 true 100) script3 [] = (Ok out, tr) /\
    so_full out = Some fd /\ length (so_rows out) = 11%nat /\
    summary (mkInv (gnodes gp) (fd_hist fd) None (Some [stS; stI])) None = Ok (so_rows out).
Proof.
  destruct (exec (fast_SIS gp 2 1 (Some 2) (Some [0%N]) None 0 true 100) script3 []) as [[out|e] tr] eqn:E;
    [|vm_compute in E; discriminate E].
  pose proof (C10_fast_SIS_summary_of_returned_histories gp gp_nodup gp_adj 2 1 (Some 2) 0 [0%N] 100 script3 out tr eq_refl
              (proj1 i0_ok) (proj2 i0_ok) ltac:(discriminate) E) as K.
  assert (Ha : ascending (map fst (so_rows out)) = true /\ length (so_rows out) = 11%nat).
  { vm_compute in E. injection E as <- _. split; reflexivity. }
  destruct (K (proj1 Ha)) as [fd [F1 F2]]. exists out, tr, fd. split; [reflexivity|]. split; [exact F1|]. split; [exact (proj2 Ha)|exact F2].
Qed.

Example C10esis_fast_nonMarkov_SIS_example :
  exists out fd, nm_run gp durS delS (Some 4) 0 true 100 [0%N] = Ok out /\
    so_full out = Some fd /\ length (so_rows out) = 16%nat /\
    summary (mkInv (gnodes gp) (fd_hist fd) None (Some [stS; stI])) None = Ok (so_rows out).
Proof.
  destruct (nm_run gp durS delS (Some 4) 0 true 100 [0%N]) as [out|e] eqn:E; [|vm_compute in E; discriminate E].
  pose proof (C10_fast_nonMarkov_SIS_summary_of_returned_histories gp gp_nodup gp_adj durS delS (Some 4) 0 [0%N] 100 out eq_refl
              (proj1 i0_ok) (proj2 i0_ok) ltac:(discriminate) exS_rules_ok E) as K.
  assert (Ha : ascending (map fst (so_rows out)) = true /\ length (so_rows out) = 16%nat).
  { vm_compute in E. injection E as <-. split; reflexivity. }
  destruct (K (proj1 Ha)) as [fd [F1 F2]]. exists out, fd. split; [reflexivity|]. split; [exact F1|]. split; [exact (proj2 Ha)|exact F2].
Qed.

Print Assumptions C10_fast_SIS_summary_equals_arrays.
Print Assumptions C10_fast_nonMarkov_SIS_summary_equals_arrays.
Print Assumptions C10esis_rows_do_not_depend_on_the_flag.
Print Assumptions C10_fast_SIS_summary_of_returned_histories.
Print Assumptions C10_fast_nonMarkov_SIS_summary_of_returned_histories.
Print Assumptions C10esis_fast_SIS_example.
Print Assumptions C10esis_fast_nonMarkov_SIS_example.
