(* C09 — recorded transmissions are causally valid and complete, for the event-driven SIR
   simulator (fast_nonMarkov_SIR with its rules given as tables; fast_SIR goes through the
   same loop).  Proofs: Proofs/EventSIR{Rows,Traj,C09}.v.  Much of the content is C11's
   [percolation_spec] (Props/C11.v) restated in the vocabulary of this property; what is
   added: the closed-interval infectiousness of the source read off rec_time, the replay
   of the event log, the order, the forest.

   Reading guide.  [esir_det ... true fuel] is the run with return_full_data=True;
   [fd_trans] of its full data is transmissions(): entries (time, source or None, target) in
   the order in which they were appended.  [esir_log] = the status changes of the run in
   order (Model/EventSIRLog.v).  [rect sF u] is rec_time[u] of the final state. *)
From EoNV Require Import Prelude Samp Graph EventSIR EventSIRP EventSIRInv EventSIRMain EventSIRPred.
From EoNV Require Import Investigation EventSIRLog EventSIRRows EventSIRTraj EventSIRC04 EventSIRC09 EventSIRChk EventSIRChkP.

(* every full-data run, EVERY tie policy: the transmissions list is valid ([tx_valid],
   spelled out clause by clause below) *)
Theorem C09_esir_transmissions_valid : forall tb g delay dur i0 r0 tmin tmax fuel,
  esir_okb2 g delay dur i0 r0 tmin tmax = true -> (esir_fuel g i0 <= fuel)%nat ->
  exists sF evs out cs fd,
    esir_run tb g delay dur i0 r0 tmin tmax fuel = Ok sF /\
    esir_log tb g delay dur i0 r0 tmin tmax fuel = Ok evs /\
    esir_det tb g delay dur i0 r0 tmin tmax true fuel = Ok (out, cs) /\
    so_full out = Some fd /\
    tx_valid g tmax delay dur tmin i0 r0 sF evs (fd_trans fd).
Proof. exact esir_transmissions_valid. Qed.

Section Clauses.
Variables (g : graph) (tmax : xtime) (delay : node -> node -> xtime) (dur : node -> xtime)
          (tmin : Q) (i0 r0 : list node) (sF : est) (evs : list event) (txs : txl).
Hypothesis V : tx_valid g tmax delay dur tmin i0 r0 sF evs txs.

(* a sourced entry (t, u, v) goes along an edge u -> v of the graph; u has its own entry
   (tu, _, u) EARLIER in the list; t = tu + delay u v; and u is infectious at t in the
   closed sense: tu <= t <= rec_time[u] = tu + dur u *)
Theorem C09_esir_sourced_entries : forall a t u v b, txs = a ++ (t, Some u, v) :: b ->
  In u (gnodes g) /\ In v (gadj g u) /\
  exists tu su d, In (tu, su, u) a /\ delay u v = Some d /\ t == tu + d /\
    tu <= t /\ rect sF u = Some (xadd tu (dur u)) /\ xleb (Some t) (xadd tu (dur u)) = true.
Proof. exact (tv_sourced _ _ _ _ _ _ _ _ _ _ V). Qed.

(* the target of an entry is a node of the graph that is not initially recovered and has no
   earlier entry; the entry is dated before tmax *)
Theorem C09_esir_targets : forall a t s v b, txs = a ++ (t, s, v) :: b ->
  ~ In v r0 /\ ~ In v (map tx_tgt a) /\ In v (gnodes g) /\ ltmax tmax t.
Proof. exact (tv_target _ _ _ _ _ _ _ _ _ _ V). Qed.

(* the entries are, in order, the infection events of the run (same time, same node): every
   infection has exactly one entry and every entry is an infection; and replaying the run's
   events from the statuses before the initial infections, every infection hits a node that
   is susceptible just before it and every recovery an infectious node *)
Theorem C09_esir_one_entry_per_infection :
  map (fun x => (tx_time x, tx_tgt x, stI)) txs = filter is_inf evs /\ enabledb (st00 r0) evs = true.
Proof. exact (conj (tv_events _ _ _ _ _ _ _ _ _ _ V) (tv_enabled _ _ _ _ _ _ _ _ _ _ V)). Qed.

(* completeness on the final statuses *)
Theorem C09_esir_complete : forall v, ~ In v r0 -> (stat sF v <> stS <-> In v (map tx_tgt txs)).
Proof. exact (tv_complete _ _ _ _ _ _ _ _ _ _ V). Qed.

(* source-less entries: exactly one for each initially infected node, at tmin, and no other *)
Theorem C09_esir_sourceless_entries :
  (forall t v, In (t, None, v) txs -> In v i0 /\ t = tmin) /\ (forall v, In v i0 -> In (tmin, None, v) txs).
Proof. exact (conj (tv_sourceless _ _ _ _ _ _ _ _ _ _ V) (tv_initial _ _ _ _ _ _ _ _ _ _ V)). Qed.

(* nobody is infected twice; the list is time-ordered *)
Theorem C09_esir_infected_at_most_once_and_ordered :
  NoDup (map tx_tgt txs) /\ (forall a x b, txs = a ++ x :: b -> forall y, In y a -> tx_time y <= tx_time x).
Proof. exact (conj (tv_once _ _ _ _ _ _ _ _ _ _ V) (tv_sorted _ _ _ _ _ _ _ _ _ _ V)). Qed.

(* forest: following sources backwards from any entry ends at a source-less entry, i.e. at
   an initially infected node (with the two theorems above: in-degree <= 1, sources earlier) *)
Theorem C09_esir_forest : forall t s v, In (t, s, v) txs -> rooted txs v /\ exists r, In r i0 /\ rooted txs r.
Proof. exact (tv_rooted _ _ _ _ _ _ _ _ _ _ V). Qed.
End Clauses.

(* --- the decidable checker [tx_validb] (Model/EventSIRChk.v; extracted and applied to the
   IMPLEMENTATION's transmissions() by harness/esir_lib.py [xchk]): it needs only the graph,
   the rules, the initial sets, tmin/tmax and the list.  Every full-data run of the model
   passes it; acceptance means [tx_spec]: every entry (t, s, v), relative to the entries [a]
   before it ([entry_spec a (t,s,v)]): no earlier entry is later; tmin <= t < tmax; v is a node,
   not initially recovered, without an earlier entry; s = None: v initially infected and
   t = tmin; s = Some u: u -> v is an edge, u has an earlier entry (tu,_,u), t = tu + delay u v,
   tu <= t <= tu + dur u (closed interval); every initial node has a source-less entry; no
   node has two entries. *)
Theorem C09_esir_checker_accepts_every_run : forall tb g delay dur i0 r0 tmin tmax fuel,
  esir_okb2 g delay dur i0 r0 tmin tmax = true -> (esir_fuel g i0 <= fuel)%nat ->
  exists out cs fd, esir_det tb g delay dur i0 r0 tmin tmax true fuel = Ok (out, cs) /\ so_full out = Some fd /\
                    tx_validb g delay dur tmin tmax i0 r0 (fd_trans fd) = true.
Proof. exact esir_transmissions_pass_checker. Qed.

Theorem C09_esir_checker_sound : forall g delay dur tmin tmax i0 r0 txs,
  tx_validb g delay dur tmin tmax i0 r0 txs = true ->
  (forall a x b, txs = a ++ x :: b -> entry_spec g delay dur tmin tmax i0 r0 a x) /\
  (forall v, In v i0 -> exists t, In (t, None, v) txs) /\
  NoDup (map tx_tgt txs).
Proof.
  intros g delay dur tmin tmax i0 r0 txs H. destruct (tx_validb_sound g delay dur tmin tmax i0 r0 txs H) as [A B C].
  exact (conj A (conj B C)).
Qed.

(* ---------------- non-vacuity ---------------- *)
(* a path 0 - 1 - 2, all delays 2, all durations 2: each transmission happens at exactly the
   source's recovery time; under the code's tie policy the recovery is even processed first
   (the event log shows (2, 0, R) before (2, 1, I)) and the entry is still valid: closed interval *)
Definition p3 : graph :=
  mkGraph [0;1;2]%N (fun u => if N.eqb u 0 then [1]%N else if N.eqb u 1 then [0;2]%N else [1]%N)
          (fun u => if N.eqb u 0 then [1]%N else if N.eqb u 1 then [0;2]%N else [1]%N)
          false (fun _ _ => 1) (fun _ => 1) false false.

Example C09_esir_example :
  esir_okb2 p3 (fun _ _ => Some 2) (fun _ => Some 2) [0%N] [] 0 None = true /\
  match esir_det fifo p3 (fun _ _ => Some 2) (fun _ => Some 2) [0%N] [] 0 None true (esir_fuel p3 [0%N]),
        esir_log fifo p3 (fun _ _ => Some 2) (fun _ => Some 2) [0%N] [] 0 None (esir_fuel p3 [0%N]) with
  | Ok (o, _), Ok evs =>
      match so_full o with
      | Some fd => map (fun x => (Qred (tx_time x), tx_src x, tx_tgt x)) (fd_trans fd) =
                     [(0, None, 0%N); (2, Some 0%N, 1%N); (4, Some 1%N, 2%N)]
      | None => False
      end /\
      map (fun e => (Qred (ev_t e), ev_u e, ev_s e)) evs =
        [(0, 0%N, stI); (2, 0%N, stR); (2, 1%N, stI); (4, 1%N, stR); (4, 2%N, stI); (6, 2%N, stR)] /\
      enabledb (st00 []) evs = true
  | _, _ => False
  end.
Proof. vm_compute. repeat split. Qed.

(* the checker rejects: a transmission after the source's recovery (3 > 0 + 2), a wrong date,
   a target infected twice, a missing initial entry *)
Example C09_esir_checker_rejects :
  let chk := tx_validb p3 (fun _ _ => Some 2) (fun _ => Some 2) 0 None [0%N] [] in
  chk [(0, None, 0%N); (2, Some 0%N, 1%N); (4, Some 1%N, 2%N)] = true /\
  chk [(0, None, 0%N); (3, Some 0%N, 1%N)] = false /\
  chk [(0, None, 0%N); (2, Some 0%N, 1%N); (4, Some 0%N, 2%N)] = false /\
  chk [(0, None, 0%N); (2, Some 0%N, 1%N); (4, Some 1%N, 0%N)] = false /\
  chk [(2, Some 0%N, 1%N)] = false.
Proof. vm_compute. repeat split. Qed.

Print Assumptions C09_esir_checker_rejects.
Print Assumptions C09_esir_transmissions_valid.
Print Assumptions C09_esir_sourced_entries.
Print Assumptions C09_esir_targets.
Print Assumptions C09_esir_one_entry_per_infection.
Print Assumptions C09_esir_complete.
Print Assumptions C09_esir_sourceless_entries.
Print Assumptions C09_esir_infected_at_most_once_and_ordered.
Print Assumptions C09_esir_forest.
Print Assumptions C09_esir_checker_accepts_every_run.
Print Assumptions C09_esir_checker_sound.
Print Assumptions C09_esir_example.
