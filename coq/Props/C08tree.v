(* C08, first clause ("... on every tree"): the executable acceptance test tree_okb of Props/C08t.v accepts EVERY tree.
   Statements only; proofs in Proofs/C08tTreeA.v (peeling orders, no walk round a vertex), C08tTreeB.v (the bounded search
   of tree_okb: saturation, soundness; side conditions), C08tTreeC.v (degree-sum characterisation, families).

   DEFINITION OF "TREE" USED.  Positions 0 .. n-1 of `nodelist`, adjacency adjb G nodelist (an edge in either direction).
   `tree_orderb G nodelist ord`: ord lists every position exactly once and every listed position has EXACTLY ONE
   neighbour among the positions listed after it, except the last one listed (`forest_orderb`: AT MOST one).  Read from
   the back, ord is a construction of G from a single vertex by repeatedly attaching a pendant vertex; C08tree_pendant_iff
   states the equivalence with that inductive definition (`pendant`).  The usual definitions are related to it by
   C08tree_order_of_connected_degsum / C08tree_connected_degsum_of_order (connected with degree sum 2 (n - 1), i.e.
   |E| = |V| - 1) and by C08tree_no_bypass (no walk joins two neighbours of a vertex j inside G - j: no cycle).

   RESULT.  C08tree_accepted: for every graph with a forest (a fortiori tree) order, tree_okb = true, given the two
   decidable side conditions pb_wfb (index map as the callers build it) and noloopb; C08tree_side_conditions: they hold
   for nodelist = list(G.nodes()), idx = position in that list, for every simple graph (wf_graphb).  Hence
   C08tree_exact_on_M / C08tree_pure_ic_partial: the conclusions of C08t_tree_exact_on_M / C08t_tree_pure_ic_partial for
   EVERY tree, with no acceptance hypothesis left.  (`_partial` only for the reason stated in Props/C08t.v: the lift from
   the identity of right-hand sides on the invariant set M to the returned curves is cited.) *)
From EoNV Require Import Prelude Graph Vec VecP Rhs2D Rhs2DP Rhs2 Rhs2GenP Master C08tG C08tS C08tT C08tR C08tA C08tO C08tF C08tC
  C08tTreeA C08tTreeB C08tTreeC C08tTreeD C08tTreeE.

(* ---------------- the definition: boolean test = inductive pendant-vertex construction ---------------- *)
Theorem C08tree_pendant_iff : forall (adj : nat -> nat -> bool) ord,
  (pendant adj true ord <-> tree_peelb adj ord = true) /\ (pendant adj false ord <-> forest_peelb adj ord = true).
Proof. exact pendant_iff. Qed.
Theorem C08tree_tree_is_forest : forall G nodelist ord, tree_orderb G nodelist ord = true -> forest_orderb G nodelist ord = true.
Proof. exact tree_forest_order. Qed.

(* no cycle: in a graph with a peeling order no walk inside G - j joins two distinct neighbours i, k of j *)
Theorem C08tree_no_bypass : forall (adj : nat -> nat -> bool), (forall a b, adj a b = adj b a) ->
  forall ord, (forall x, In x ord -> adj x x = false) -> forest_peelb adj ord = true ->
  forall j i k, In j ord -> In i ord -> In k ord -> i <> k -> adj i j = true -> adj k j = true -> ~ reach adj ord j i k.
Proof. exact peel_no_bypass. Qed.

(* ---------------- tree_okb, conjunct by conjunct ---------------- *)
(* the branches found by the bounded search are separated from the rest by j: EVERY graph *)
Theorem C08tree_cuts_ok_every_graph : forall G nodelist, cuts_okb G nodelist (branch_cuts G nodelist) = true.
Proof. exact cuts_okb_always. Qed.
Theorem C08tree_cover : forall G nodelist ord, noloopb G nodelist = true -> forest_orderb G nodelist ord = true ->
  coverb G nodelist (branch_cuts G nodelist) = true.
Proof. exact coverb_forest. Qed.
Theorem C08tree_accepted : forall G nodelist idx ord,
  pb_wfb G nodelist idx = true -> noloopb G nodelist = true -> forest_orderb G nodelist ord = true ->
  tree_okb G nodelist idx = true.
Proof. exact forest_tree_okb. Qed.
(* the side conditions, for the callers' nodelist = list(G.nodes()) and index_of_node = position in it *)
Theorem C08tree_side_conditions : forall G, wf_graphb G = true ->
  pb_wfb G (gnodes G) (pos_in (gnodes G)) = true /\ noloopb G (gnodes G) = true.
Proof. exact wf_pb_wfb. Qed.
Theorem C08tree_accepted_simple_graph : forall G ord, wf_graphb G = true -> tree_orderb G (gnodes G) ord = true ->
  tree_okb G (gnodes G) (pos_in (gnodes G)) = true.
Proof. exact tree_accepted_simple_graph. Qed.

(* ---------------- the clause, for every tree ---------------- *)
Theorem C08tree_exact_on_M : forall G nodelist idx ord tr rc,
  pb_wfb G nodelist idx = true -> noloopb G nodelist = true -> tree_orderb G nodelist ord = true ->
  forall p t, nonneg nodelist p -> inMs nodelist (branch_cuts G nodelist) p ->
  veq (g_dSIR_pair_based (marginals G nodelist p) t G nodelist idx tr rc)
      (marginals G nodelist (master_rhs G nodelist idx tr rc p)).
Proof. exact tree_exact_every_tree. Qed.
Theorem C08tree_exact_on_M_simple_graph : forall G ord tr rc, wf_graphb G = true -> tree_orderb G (gnodes G) ord = true ->
  let nodelist := gnodes G in let idx := pos_in (gnodes G) in
  forall p t, nonneg nodelist p -> inMs nodelist (branch_cuts G nodelist) p ->
  veq (g_dSIR_pair_based (marginals G nodelist p) t G nodelist idx tr rc)
      (marginals G nodelist (master_rhs G nodelist idx tr rc p)).
Proof. exact tree_exact_simple_graph. Qed.
Theorem C08tree_pure_ic_partial : forall G ord tr rc, wf_graphb G = true -> tree_orderb G (gnodes G) ord = true ->
  let nodelist := gnodes G in let idx := pos_in (gnodes G) in
  forall s0, length s0 = nN nodelist ->
  let cuts := branch_cuts G nodelist in
  let master := master_rhs G nodelist idx tr rc in
  (nonneg nodelist (delta s0) /\ inMs nodelist cuts (delta s0)) /\
  (forall p, inMs nodelist cuts p -> forall c, In c cuts -> forall s1 s2,
     In s1 (slice nodelist (fst c)) -> In s2 (slice nodelist (fst c)) -> dminor nodelist (snd c) p (master p) s1 s2 == 0) /\
  (forall p t, nonneg nodelist p -> inMs nodelist cuts p ->
     veq (g_dSIR_pair_based (marginals G nodelist p) t G nodelist idx tr rc) (marginals G nodelist (master p))).
Proof. exact tree_pure_ic_simple_graph. Qed.

(* ---------------- against the usual definition: connected with |E| = |V| - 1 ---------------- *)
(* abstract adjacency: a duplicate-free vertex list V that is connected (`walk`: walks inside V) and whose degree sum is
   2 (|V| - 1) has a tree peeling order listing exactly V; and conversely *)
Theorem C08tree_order_of_connected_degsum : forall (adj : nat -> nat -> bool), (forall a b, adj a b = adj b a) ->
  forall n V, length V = n -> NoDup V -> (forall x, In x V -> adj x x = false) ->
  connected adj V -> degsum adj V = (2 * (n - 1))%nat -> exists ord, same_elts ord V /\ tree_peelb adj ord = true.
Proof. exact order_of_connected_degsum. Qed.
Theorem C08tree_connected_degsum_of_order : forall (adj : nat -> nat -> bool), (forall a b, adj a b = adj b a) ->
  forall ord, (forall x, In x ord -> adj x x = false) -> tree_peelb adj ord = true ->
  connected adj ord /\ degsum adj ord = (2 * (length ord - 1))%nat.
Proof. exact connected_degsum_of_order. Qed.
(* on the positions of a graph: the usual definition <=> a tree order exists *)
Theorem C08tree_usual_iff : forall G nodelist, noloopb G nodelist = true ->
  ((pos_connected G nodelist /\ pos_degsum G nodelist = (2 * (nN nodelist - 1))%nat) <->
   exists ord, tree_orderb G nodelist ord = true).
Proof. exact usual_iff. Qed.
(* executable, no certificate: no loop, degree sum 2 (n - 1), every position found from position 0 *)
Theorem C08tree_usual_treeb_order : forall G nodelist, usual_treeb G nodelist = true -> exists ord, tree_orderb G nodelist ord = true.
Proof. exact usual_treeb_order. Qed.
Theorem C08tree_usual_tree_accepted : forall G, wf_graphb G = true -> usual_treeb G (gnodes G) = true ->
  tree_okb G (gnodes G) (pos_in (gnodes G)) = true.
Proof. exact usual_tree_accepted. Qed.
Theorem C08tree_usual_tree_exact_on_M : forall G tr rc, wf_graphb G = true -> usual_treeb G (gnodes G) = true ->
  let nodelist := gnodes G in let idx := pos_in (gnodes G) in
  forall p t, nonneg nodelist p -> inMs nodelist (branch_cuts G nodelist) p ->
  veq (g_dSIR_pair_based (marginals G nodelist p) t G nodelist idx tr rc)
      (marginals G nodelist (master_rhs G nodelist idx tr rc p)).
Proof. exact usual_tree_exact. Qed.

(* ---------------- instances: paths, stars, caterpillars, a relabelled tree; a cycle has no order ---------------- *)
Definition ex_path6 : graph := graph_of [(0, [1]); (1, [0; 2]); (2, [1; 3]); (3, [2; 4]); (4, [3; 5]); (5, [4])]%N.
Definition ex_star5 : graph := graph_of [(0, [1; 2; 3; 4; 5]); (1, [0]); (2, [0]); (3, [0]); (4, [0]); (5, [0])]%N.
(* spine 0 - 1 - 2, legs 3, 4 at 0; 5 at 1; 6, 7 at 2 *)
Definition ex_cater8 : graph :=
  graph_of [(0, [1; 3; 4]); (1, [0; 2; 5]); (2, [1; 6; 7]); (3, [0]); (4, [0]); (5, [1]); (6, [2]); (7, [2])]%N.
(* nodes in the order 3, 1, 2, 0, 5, 4 (positions 0 .. 5) *)
Definition ex_tree6' : graph := graph_of [(3, [1; 5]); (1, [3; 2; 0]); (2, [1]); (0, [1]); (5, [3; 4]); (4, [5])]%N.
Definition ex_tri' : graph := graph_of [(0, [1; 2]); (1, [0; 2]); (2, [0; 1])]%N.
Example C08tree_nonvacuous_instances :
  (wf_graphb ex_path6 = true /\ tree_orderb ex_path6 (gnodes ex_path6) [0; 1; 2; 3; 4; 5]%nat = true) /\
  (wf_graphb ex_star5 = true /\ tree_orderb ex_star5 (gnodes ex_star5) [1; 2; 3; 4; 5; 0]%nat = true) /\
  (wf_graphb ex_cater8 = true /\ tree_orderb ex_cater8 (gnodes ex_cater8) [3; 4; 5; 6; 7; 0; 1; 2]%nat = true) /\
  (wf_graphb ex_tree6' = true /\ tree_orderb ex_tree6' (gnodes ex_tree6') [2; 3; 5; 4; 0; 1]%nat = true) /\
  (* a forest that is not a tree *)
  (forest_orderb (graph_of [(0, [1]); (1, [0]); (2, [])]%N) [0; 1; 2]%N [0; 1; 2]%nat = true /\
   tree_orderb (graph_of [(0, [1]); (1, [0]); (2, [])]%N) [0; 1; 2]%N [0; 1; 2]%nat = false) /\
  (* the triangle: none of the 6 orders is a forest order, and tree_okb rejects it *)
  (forallb (fun ord => negb (forest_orderb ex_tri' (gnodes ex_tri') ord))
     [[0; 1; 2]; [0; 2; 1]; [1; 0; 2]; [1; 2; 0]; [2; 0; 1]; [2; 1; 0]]%nat = true /\
   tree_okb ex_tri' (gnodes ex_tri') (pos_in (gnodes ex_tri')) = false).
Proof. vm_compute. repeat split; reflexivity. Qed.
(* the theorem and the evaluation of tree_okb agree on the instances *)
Example C08tree_nonvacuous_agree :
  tree_okb ex_path6 (gnodes ex_path6) (pos_in (gnodes ex_path6)) = true /\
  tree_okb ex_tree6' (gnodes ex_tree6') (pos_in (gnodes ex_tree6')) = true.
Proof. vm_compute. repeat split; reflexivity. Qed.

(* usual_treeb: true on the trees; false on a triangle, on two disjoint edges, on a triangle plus an isolated vertex
   (whose degree sum IS 2 (n - 1)) *)
Example C08tree_nonvacuous_usual :
  usual_treeb ex_path6 (gnodes ex_path6) = true /\ usual_treeb ex_star5 (gnodes ex_star5) = true /\
  usual_treeb ex_cater8 (gnodes ex_cater8) = true /\ usual_treeb ex_tree6' (gnodes ex_tree6') = true /\
  usual_treeb ex_tri' (gnodes ex_tri') = false /\
  usual_treeb (graph_of [(0, [1]); (1, [0]); (2, [3]); (3, [2])]%N) [0; 1; 2; 3]%N = false /\
  usual_treeb (graph_of [(0, [1; 2]); (1, [0; 2]); (2, [0; 1]); (3, [])]%N) [0; 1; 2; 3]%N = false.
Proof. vm_compute. repeat split; reflexivity. Qed.

Print Assumptions C08tree_pendant_iff.
Print Assumptions C08tree_tree_is_forest.
Print Assumptions C08tree_no_bypass.
Print Assumptions C08tree_cuts_ok_every_graph.
Print Assumptions C08tree_cover.
Print Assumptions C08tree_accepted.
Print Assumptions C08tree_side_conditions.
Print Assumptions C08tree_accepted_simple_graph.
Print Assumptions C08tree_exact_on_M.
Print Assumptions C08tree_exact_on_M_simple_graph.
Print Assumptions C08tree_pure_ic_partial.
Print Assumptions C08tree_nonvacuous_instances.
Print Assumptions C08tree_nonvacuous_agree.
Print Assumptions C08tree_order_of_connected_degsum.
Print Assumptions C08tree_connected_degsum_of_order.
Print Assumptions C08tree_usual_iff.
Print Assumptions C08tree_usual_treeb_order.
Print Assumptions C08tree_usual_tree_accepted.
Print Assumptions C08tree_usual_tree_exact_on_M.
Print Assumptions C08tree_nonvacuous_usual.
