(* C08, first clause ("... on every tree"): the executable acceptance test tree_okb of Props/C08t.v accepts EVERY tree
   (and exactly the forests).  Statements only; proofs in Proofs/C08tTreeA.v (peeling orders; no walk round a vertex),
   C08tTreeB.v (the bounded search of tree_okb: saturation, soundness; side conditions), C08tTreeC.v (corollaries),
   C08tTreeD.v (connected + degree sum), C08tTreeE.v (the same on positions; executable usual_treeb), C08tTreeG.v
   (acyclic = no simple cycle; leaf existence; loop erasure), C08tTreeH.v (positions; converse tree_okb => acyclic),
   C08tTreeI.v (all paths, all stars; non-vacuity), C08tTreeJ.v (usual_treeb decides), C08tTreeK.v (any nodelist),
   C08tTreeL.v (inductive family of graphs).

   DEFINITIONS OF "TREE".  Positions 0 .. n-1 of `nodelist`, adjacency adjb G nodelist (an edge in either direction).
   (a) `tree_orderb G nodelist ord`: ord lists every position exactly once and every listed position has EXACTLY ONE
       neighbour among the positions listed after it, except the last one listed (`forest_orderb`: AT MOST one).  Read
       from the back, ord constructs G from a single vertex by repeatedly attaching a pendant vertex; C08tree_pendant_iff:
       equivalence with that inductive definition (`pendant`).
   (a'') `gtree G`: the inductive family of `graph`s generated from a single node by attaching a new pendant node
       (C08tree_gtree_order: every such graph has a tree order; C08tree_gtree_simple: it is a simple graph).
   (b) connected, and degree sum 2 (n - 1), i.e. |E| = |V| - 1 (pos_connected, pos_degsum; executable: usual_treeb).
   (c) connected and acyclic: no simple cycle (pos_connected, pos_acyclic).
   C08tree_usual_iff: (b) <=> (a).  C08tree_tree_iff_connected_acyclic(_pos): (c) <=> (a).  Forests: acyclic <=> (a').

   RESULT.  C08tree_accepted: a graph with a forest (a fortiori tree) order has tree_okb = true, given the two decidable
   side conditions pb_wfb (index map as the callers build it) and noloopb; C08tree_side_conditions: they hold for
   nodelist = list(G.nodes()), idx = position in that list, for every simple graph (wf_graphb of Base/Graph.v).
   C08tree_tree_okb_iff: conversely an accepted graph is a forest.  Hence, with no acceptance hypothesis left,
     C08tree_exact_on_M(_simple_graph), C08tree_usual_tree_exact_on_M, C08tree_connected_acyclic_exact_on_M:
   for EVERY tree, every p >= 0 on M: pair-based right-hand side at the marginals of p = marginals of the master equation;
   C08tree_pure_ic_partial: (1) + (2) + (3) of Props/C08t.v for every tree.  (`_partial` only for the reason stated in
   Props/C08t.v: the lift from the identity of right-hand sides on the invariant set M to the returned curves is cited.)
   C08tree_usual_treeb_iff: the executable usual_treeb decides (b), (c) and the existence of a tree order.
   Instances for every n: C08tree_every_path_accepted, C08tree_every_star_accepted; caterpillar etc. by evaluation. *)
From EoNV Require Import Prelude Graph Vec VecP Rhs2D Rhs2DP Rhs2 Rhs2GenP Master C08tG C08tS C08tT C08tR C08tA C08tO C08tF C08tC
  C08tTreeA C08tTreeB C08tTreeC C08tTreeD C08tTreeE C08tTreeG C08tTreeH C08tTreeI C08tTreeJ C08tTreeK C08tTreeL.

(* ---------------- the definition: boolean test = inductive pendant-vertex construction ---------------- *)
Theorem C08tree_pendant_iff : forall (adj : nat -> nat -> bool) ord,
  (pendant adj true ord <-> tree_peelb adj ord = true) /\ (pendant adj false ord <-> forest_peelb adj ord = true).
Proof. exact pendant_iff. Qed.
Theorem C08tree_tree_is_forest : forall G nodelist ord, tree_orderb G nodelist ord = true -> forest_orderb G nodelist ord = true.
Proof. exact tree_forest_order. Qed.

(* no cycle: in a graph with a peeling order no walk inside G - j joins two distinct neighbours i, k of j *)
Theorem C08tree_no_bypass : forall (adj : nat -> nat -> bool), (forall a b, adj a b = adj b a) ->
  forall ord, (forall x, In x ord -> adj x x = false) -> forest_peelb adj ord = true ->
  forall j i k, In j ord -> In i ord -> In k ord -> i <> k -> adj i j = true -> adj k j = true -> ~ reach adj ord j i k.
Proof. exact peel_no_bypass. Qed.

(* ---------------- tree_okb, conjunct by conjunct ---------------- *)
(* the branches found by the bounded search are separated from the rest by j: EVERY graph *)
Theorem C08tree_cuts_ok_every_graph : forall G nodelist, cuts_okb G nodelist (branch_cuts G nodelist) = true.
Proof. exact cuts_okb_always. Qed.
Theorem C08tree_cover : forall G nodelist ord, noloopb G nodelist = true -> forest_orderb G nodelist ord = true ->
  coverb G nodelist (branch_cuts G nodelist) = true.
Proof. exact coverb_forest. Qed.
Theorem C08tree_accepted : forall G nodelist idx ord,
  pb_wfb G nodelist idx = true -> noloopb G nodelist = true -> forest_orderb G nodelist ord = true ->
  tree_okb G nodelist idx = true.
Proof. exact forest_tree_okb. Qed.
(* the side conditions, for the callers' nodelist = list(G.nodes()) and index_of_node = position in it *)
Theorem C08tree_side_conditions : forall G, wf_graphb G = true ->
  pb_wfb G (gnodes G) (pos_in (gnodes G)) = true /\ noloopb G (gnodes G) = true.
Proof. exact wf_pb_wfb. Qed.
Theorem C08tree_accepted_simple_graph : forall G ord, wf_graphb G = true -> tree_orderb G (gnodes G) ord = true ->
  tree_okb G (gnodes G) (pos_in (gnodes G)) = true.
Proof. exact tree_accepted_simple_graph. Qed.

(* ---------------- the clause, for every tree ---------------- *)
Theorem C08tree_exact_on_M : forall G nodelist idx ord tr rc,
  pb_wfb G nodelist idx = true -> noloopb G nodelist = true -> tree_orderb G nodelist ord = true ->
  forall p t, nonneg nodelist p -> inMs nodelist (branch_cuts G nodelist) p ->
  veq (g_dSIR_pair_based (marginals G nodelist p) t G nodelist idx tr rc)
      (marginals G nodelist (master_rhs G nodelist idx tr rc p)).
Proof. exact tree_exact_every_tree. Qed.
Theorem C08tree_exact_on_M_simple_graph : forall G ord tr rc, wf_graphb G = true -> tree_orderb G (gnodes G) ord = true ->
  let nodelist := gnodes G in let idx := pos_in (gnodes G) in
  forall p t, nonneg nodelist p -> inMs nodelist (branch_cuts G nodelist) p ->
  veq (g_dSIR_pair_based (marginals G nodelist p) t G nodelist idx tr rc)
      (marginals G nodelist (master_rhs G nodelist idx tr rc p)).
Proof. exact tree_exact_simple_graph. Qed.
Theorem C08tree_pure_ic_partial : forall G ord tr rc, wf_graphb G = true -> tree_orderb G (gnodes G) ord = true ->
  let nodelist := gnodes G in let idx := pos_in (gnodes G) in
  forall s0, length s0 = nN nodelist ->
  let cuts := branch_cuts G nodelist in
  let master := master_rhs G nodelist idx tr rc in
  (nonneg nodelist (delta s0) /\ inMs nodelist cuts (delta s0)) /\
  (forall p, inMs nodelist cuts p -> forall c, In c cuts -> forall s1 s2,
     In s1 (slice nodelist (fst c)) -> In s2 (slice nodelist (fst c)) -> dminor nodelist (snd c) p (master p) s1 s2 == 0) /\
  (forall p t, nonneg nodelist p -> inMs nodelist cuts p ->
     veq (g_dSIR_pair_based (marginals G nodelist p) t G nodelist idx tr rc) (marginals G nodelist (master p))).
Proof. exact tree_pure_ic_simple_graph. Qed.

(* ---------------- against the usual definition: connected with |E| = |V| - 1 ---------------- *)
(* abstract adjacency: a duplicate-free vertex list V that is connected (`walk`: walks inside V) and whose degree sum is
   2 (|V| - 1) has a tree peeling order listing exactly V; and conversely *)
Theorem C08tree_order_of_connected_degsum : forall (adj : nat -> nat -> bool), (forall a b, adj a b = adj b a) ->
  forall n V, length V = n -> NoDup V -> (forall x, In x V -> adj x x = false) ->
  connected adj V -> degsum adj V = (2 * (n - 1))%nat -> exists ord, same_elts ord V /\ tree_peelb adj ord = true.
Proof. exact order_of_connected_degsum. Qed.
Theorem C08tree_connected_degsum_of_order : forall (adj : nat -> nat -> bool), (forall a b, adj a b = adj b a) ->
  forall ord, (forall x, In x ord -> adj x x = false) -> tree_peelb adj ord = true ->
  connected adj ord /\ degsum adj ord = (2 * (length ord - 1))%nat.
Proof. exact connected_degsum_of_order. Qed.
(* on the positions of a graph: the usual definition <=> a tree order exists *)
Theorem C08tree_usual_iff : forall G nodelist, noloopb G nodelist = true ->
  ((pos_connected G nodelist /\ pos_degsum G nodelist = (2 * (nN nodelist - 1))%nat) <->
   exists ord, tree_orderb G nodelist ord = true).
Proof. exact usual_iff. Qed.
(* executable, no certificate: no loop, degree sum 2 (n - 1), every position found from position 0 *)
Theorem C08tree_usual_treeb_order : forall G nodelist, usual_treeb G nodelist = true -> exists ord, tree_orderb G nodelist ord = true.
Proof. exact usual_treeb_order. Qed.
Theorem C08tree_usual_tree_accepted : forall G, wf_graphb G = true -> usual_treeb G (gnodes G) = true ->
  tree_okb G (gnodes G) (pos_in (gnodes G)) = true.
Proof. exact usual_tree_accepted. Qed.
Theorem C08tree_usual_tree_exact_on_M : forall G tr rc, wf_graphb G = true -> usual_treeb G (gnodes G) = true ->
  let nodelist := gnodes G in let idx := pos_in (gnodes G) in
  forall p t, nonneg nodelist p -> inMs nodelist (branch_cuts G nodelist) p ->
  veq (g_dSIR_pair_based (marginals G nodelist p) t G nodelist idx tr rc)
      (marginals G nodelist (master_rhs G nodelist idx tr rc p)).
Proof. exact usual_tree_exact. Qed.

(* ---------------- against the usual definition: connected and acyclic ---------------- *)
(* acyclic V: no simple cycle, i.e. no duplicate-free list of >= 3 vertices of V with consecutive ones, and the last and
   the first, adjacent *)
Theorem C08tree_tree_iff_connected_acyclic : forall (adj : nat -> nat -> bool), (forall a b, adj a b = adj b a) ->
  forall V, NoDup V -> irrefl_on adj V ->
  ((connected adj V /\ acyclic adj V) <-> exists ord, same_elts ord V /\ tree_peelb adj ord = true).
Proof. exact tree_iff_connected_acyclic. Qed.
Theorem C08tree_forest_iff_acyclic : forall (adj : nat -> nat -> bool), (forall a b, adj a b = adj b a) ->
  forall V, NoDup V -> irrefl_on adj V ->
  (acyclic adj V <-> exists ord, same_elts ord V /\ forest_peelb adj ord = true).
Proof. exact forest_iff_acyclic. Qed.
Theorem C08tree_tree_iff_connected_acyclic_pos : forall G nodelist, noloopb G nodelist = true ->
  ((pos_connected G nodelist /\ pos_acyclic G nodelist) <-> exists ord, tree_orderb G nodelist ord = true).
Proof. exact tree_iff_connected_acyclic_pos. Qed.
(* the executable test accepts EXACTLY the forests: side conditions + acyclic *)
Theorem C08tree_tree_okb_iff : forall G nodelist idx, tree_okb G nodelist idx = true <->
  (pb_wfb G nodelist idx = true /\ noloopb G nodelist = true /\ exists ord, forest_orderb G nodelist ord = true).
Proof. exact tree_okb_iff. Qed.
Theorem C08tree_connected_acyclic_accepted : forall G, wf_graphb G = true ->
  pos_connected G (gnodes G) -> pos_acyclic G (gnodes G) -> tree_okb G (gnodes G) (pos_in (gnodes G)) = true.
Proof. exact connected_acyclic_accepted. Qed.
(* THE CLAUSE for every tree in the usual sense: simple graph, connected, no cycle *)
Theorem C08tree_connected_acyclic_exact_on_M : forall G tr rc, wf_graphb G = true ->
  pos_connected G (gnodes G) -> pos_acyclic G (gnodes G) ->
  let nodelist := gnodes G in let idx := pos_in (gnodes G) in
  forall p t, nonneg nodelist p -> inMs nodelist (branch_cuts G nodelist) p ->
  veq (g_dSIR_pair_based (marginals G nodelist p) t G nodelist idx tr rc)
      (marginals G nodelist (master_rhs G nodelist idx tr rc p)).
Proof. exact connected_acyclic_exact. Qed.

(* any caller-supplied nodelist listing the nodes of G exactly once, index_of_node = position in it *)
Theorem C08tree_side_conditions_any_nodelist : forall G nodelist, wf_graphb G = true -> nodelist_okb G nodelist = true ->
  pb_wfb G nodelist (pos_in nodelist) = true /\ noloopb G nodelist = true.
Proof. exact wf_pb_wfb_any. Qed.
Theorem C08tree_connected_acyclic_exact_any_nodelist : forall G nodelist tr rc,
  wf_graphb G = true -> nodelist_okb G nodelist = true -> pos_connected G nodelist -> pos_acyclic G nodelist ->
  let idx := pos_in nodelist in
  tree_okb G nodelist idx = true /\
  forall p t, nonneg nodelist p -> inMs nodelist (branch_cuts G nodelist) p ->
  veq (g_dSIR_pair_based (marginals G nodelist p) t G nodelist idx tr rc)
      (marginals G nodelist (master_rhs G nodelist idx tr rc p)).
Proof. exact connected_acyclic_exact_any. Qed.
Example C08tree_nonvacuous_any_nodelist : wf_graphb ex_tree6'' = true /\ nodelist_okb ex_tree6'' (nodes_upto 6) = true /\
  gnodes ex_tree6'' <> nodes_upto 6 /\ pos_connected ex_tree6'' (nodes_upto 6) /\ pos_acyclic ex_tree6'' (nodes_upto 6).
Proof. exact ex_any_nodelist. Qed.

(* usual_treeb DECIDES tree-ness (the bounded search is complete as well as sound) *)
Theorem C08tree_usual_treeb_iff : forall G nodelist,
  (usual_treeb G nodelist = true <->
   noloopb G nodelist = true /\ pos_connected G nodelist /\ pos_degsum G nodelist = (2 * (nN nodelist - 1))%nat) /\
  (usual_treeb G nodelist = true <-> noloopb G nodelist = true /\ exists ord, tree_orderb G nodelist ord = true) /\
  (usual_treeb G nodelist = true <-> noloopb G nodelist = true /\ pos_connected G nodelist /\ pos_acyclic G nodelist).
Proof. exact usual_treeb_iff. Qed.

(* ---------------- trees as an inductive family of graphs: a single node; attach a new pendant node ---------------- *)
(* gtree (Proofs/C08tTreeL.v):  gtree (single v);  gtree G -> In u (gnodes G) -> ~ In v (gnodes G) -> gtree (attach G u v),
   where attach appends v to list(G.nodes()), v to the adjacency list of u, and gives v the adjacency list [u] *)
Theorem C08tree_gtree_simple : forall G, gtree G -> wf_graphb G = true.
Proof. exact gtree_simple. Qed.
Theorem C08tree_gtree_order : forall G, gtree G -> exists ord, tree_orderb G (gnodes G) ord = true.
Proof. exact gtree_order. Qed.
Theorem C08tree_gtree_exact_on_M : forall G tr rc, gtree G ->
  let nodelist := gnodes G in let idx := pos_in (gnodes G) in
  tree_okb G nodelist idx = true /\
  forall p t, nonneg nodelist p -> inMs nodelist (branch_cuts G nodelist) p ->
  veq (g_dSIR_pair_based (marginals G nodelist p) t G nodelist idx tr rc)
      (marginals G nodelist (master_rhs G nodelist idx tr rc p)).
Proof. exact gtree_exact. Qed.
Example C08tree_nonvacuous_gtree : gtree ex_gpath4 /\ gtree ex_gcater /\
  gadj ex_gcater 1%N = [0; 2; 4]%N /\ gnodes ex_gcater = [0; 1; 2; 3; 4; 5]%N.
Proof. exact ex_gtrees. Qed.

(* ---------------- two infinite families, every n: paths 0 - 1 - .. - (n-1) and stars with n leaves ---------------- *)
Theorem C08tree_every_path_is_tree : forall n, tree_orderb (path_graph n) (nodes_upto n) (seq 0 n) = true.
Proof. exact path_order. Qed.
Theorem C08tree_every_star_is_tree : forall n, tree_orderb (star_graph n) (nodes_upto (S n)) (seq 1 n ++ [0%nat]) = true.
Proof. exact star_order. Qed.
Theorem C08tree_every_path_accepted : forall n, tree_okb (path_graph n) (nodes_upto n) idx_of = true.
Proof. exact path_tree_okb. Qed.
Theorem C08tree_every_star_accepted : forall n, tree_okb (star_graph n) (nodes_upto (S n)) idx_of = true.
Proof. exact star_tree_okb. Qed.
Theorem C08tree_path_star_exact_on_M : forall n tr rc,
  (forall p t, nonneg (nodes_upto n) p -> inMs (nodes_upto n) (branch_cuts (path_graph n) (nodes_upto n)) p ->
     veq (g_dSIR_pair_based (marginals (path_graph n) (nodes_upto n) p) t (path_graph n) (nodes_upto n) idx_of tr rc)
         (marginals (path_graph n) (nodes_upto n) (master_rhs (path_graph n) (nodes_upto n) idx_of tr rc p))) /\
  (forall p t, nonneg (nodes_upto (S n)) p -> inMs (nodes_upto (S n)) (branch_cuts (star_graph n) (nodes_upto (S n))) p ->
     veq (g_dSIR_pair_based (marginals (star_graph n) (nodes_upto (S n)) p) t (star_graph n) (nodes_upto (S n)) idx_of tr rc)
         (marginals (star_graph n) (nodes_upto (S n)) (master_rhs (star_graph n) (nodes_upto (S n)) idx_of tr rc p))).
Proof. exact path_star_exact. Qed.
(* the family definitions are simple graphs, and evaluation agrees *)
Example C08tree_nonvacuous_families :
  wf_graphb (path_graph 5) = true /\ wf_graphb (star_graph 4) = true /\
  tree_okb (path_graph 5) (nodes_upto 5) idx_of = true /\ tree_okb (star_graph 4) (nodes_upto 5) idx_of = true /\
  usual_treeb (path_graph 7) (nodes_upto 7) = true /\ usual_treeb (star_graph 6) (nodes_upto 7) = true.
Proof. vm_compute. repeat split; reflexivity. Qed.
(* "connected and acyclic" is satisfiable (a tree with 5 nodes), and a 4-cycle is a simple graph that is not acyclic *)
Example C08tree_nonvacuous_connected_acyclic :
  wf_graphb ex_tree5' = true /\ pos_connected ex_tree5' (gnodes ex_tree5') /\ pos_acyclic ex_tree5' (gnodes ex_tree5').
Proof. exact ex_conn_acyclic. Qed.
Example C08tree_cycle_not_acyclic : wf_graphb ex_cyc4' = true /\ ~ pos_acyclic ex_cyc4' (gnodes ex_cyc4').
Proof. exact ex_cycle_not_acyclic. Qed.

(* ---------------- instances: paths, stars, caterpillars, a relabelled tree; a cycle has no order ---------------- *)
Definition ex_path6 : graph := graph_of [(0, [1]); (1, [0; 2]); (2, [1; 3]); (3, [2; 4]); (4, [3; 5]); (5, [4])]%N.
Definition ex_star5 : graph := graph_of [(0, [1; 2; 3; 4; 5]); (1, [0]); (2, [0]); (3, [0]); (4, [0]); (5, [0])]%N.
(* spine 0 - 1 - 2, legs 3, 4 at 0; 5 at 1; 6, 7 at 2 *)
Definition ex_cater8 : graph :=
  graph_of [(0, [1; 3; 4]); (1, [0; 2; 5]); (2, [1; 6; 7]); (3, [0]); (4, [0]); (5, [1]); (6, [2]); (7, [2])]%N.
(* nodes in the order 3, 1, 2, 0, 5, 4 (positions 0 .. 5) *)
Definition ex_tree6' : graph := graph_of [(3, [1; 5]); (1, [3; 2; 0]); (2, [1]); (0, [1]); (5, [3; 4]); (4, [5])]%N.
Definition ex_tri' : graph := graph_of [(0, [1; 2]); (1, [0; 2]); (2, [0; 1])]%N.
Example C08tree_nonvacuous_instances :
  (wf_graphb ex_path6 = true /\ tree_orderb ex_path6 (gnodes ex_path6) [0; 1; 2; 3; 4; 5]%nat = true) /\
  (wf_graphb ex_star5 = true /\ tree_orderb ex_star5 (gnodes ex_star5) [1; 2; 3; 4; 5; 0]%nat = true) /\
  (wf_graphb ex_cater8 = true /\ tree_orderb ex_cater8 (gnodes ex_cater8) [3; 4; 5; 6; 7; 0; 1; 2]%nat = true) /\
  (wf_graphb ex_tree6' = true /\ tree_orderb ex_tree6' (gnodes ex_tree6') [2; 3; 5; 4; 0; 1]%nat = true) /\
  (* a forest that is not a tree *)
  (forest_orderb (graph_of [(0, [1]); (1, [0]); (2, [])]%N) [0; 1; 2]%N [0; 1; 2]%nat = true /\
   tree_orderb (graph_of [(0, [1]); (1, [0]); (2, [])]%N) [0; 1; 2]%N [0; 1; 2]%nat = false) /\
  (* the triangle: none of the 6 orders is a forest order, and tree_okb rejects it *)
  (forallb (fun ord => negb (forest_orderb ex_tri' (gnodes ex_tri') ord))
     [[0; 1; 2]; [0; 2; 1]; [1; 0; 2]; [1; 2; 0]; [2; 0; 1]; [2; 1; 0]]%nat = true /\
   tree_okb ex_tri' (gnodes ex_tri') (pos_in (gnodes ex_tri')) = false).
Proof. vm_compute. repeat split; reflexivity. Qed.
(* the theorem and the evaluation of tree_okb agree on the instances *)
Example C08tree_nonvacuous_agree :
  tree_okb ex_path6 (gnodes ex_path6) (pos_in (gnodes ex_path6)) = true /\
  tree_okb ex_tree6' (gnodes ex_tree6') (pos_in (gnodes ex_tree6')) = true.
Proof. vm_compute. repeat split; reflexivity. Qed.

(* usual_treeb: true on the trees; false on a triangle, on two disjoint edges, on a triangle plus an isolated vertex
   (whose degree sum IS 2 (n - 1)) *)
Example C08tree_nonvacuous_usual :
  usual_treeb ex_path6 (gnodes ex_path6) = true /\ usual_treeb ex_star5 (gnodes ex_star5) = true /\
  usual_treeb ex_cater8 (gnodes ex_cater8) = true /\ usual_treeb ex_tree6' (gnodes ex_tree6') = true /\
  usual_treeb ex_tri' (gnodes ex_tri') = false /\
  usual_treeb (graph_of [(0, [1]); (1, [0]); (2, [3]); (3, [2])]%N) [0; 1; 2; 3]%N = false /\
  usual_treeb (graph_of [(0, [1; 2]); (1, [0; 2]); (2, [0; 1]); (3, [])]%N) [0; 1; 2; 3]%N = false.
Proof. vm_compute. repeat split; reflexivity. Qed.

Print Assumptions C08tree_pendant_iff.
Print Assumptions C08tree_tree_is_forest.
Print Assumptions C08tree_no_bypass.
Print Assumptions C08tree_cuts_ok_every_graph.
Print Assumptions C08tree_cover.
Print Assumptions C08tree_accepted.
Print Assumptions C08tree_side_conditions.
Print Assumptions C08tree_accepted_simple_graph.
Print Assumptions C08tree_exact_on_M.
Print Assumptions C08tree_exact_on_M_simple_graph.
Print Assumptions C08tree_pure_ic_partial.
Print Assumptions C08tree_nonvacuous_instances.
Print Assumptions C08tree_nonvacuous_agree.
Print Assumptions C08tree_order_of_connected_degsum.
Print Assumptions C08tree_connected_degsum_of_order.
Print Assumptions C08tree_usual_iff.
Print Assumptions C08tree_usual_treeb_order.
Print Assumptions C08tree_usual_tree_accepted.
Print Assumptions C08tree_usual_tree_exact_on_M.
Print Assumptions C08tree_nonvacuous_usual.
Print Assumptions C08tree_tree_iff_connected_acyclic.
Print Assumptions C08tree_forest_iff_acyclic.
Print Assumptions C08tree_tree_iff_connected_acyclic_pos.
Print Assumptions C08tree_tree_okb_iff.
Print Assumptions C08tree_connected_acyclic_accepted.
Print Assumptions C08tree_connected_acyclic_exact_on_M.
Print Assumptions C08tree_usual_treeb_iff.
Print Assumptions C08tree_side_conditions_any_nodelist.
Print Assumptions C08tree_connected_acyclic_exact_any_nodelist.
Print Assumptions C08tree_nonvacuous_any_nodelist.
Print Assumptions C08tree_gtree_simple.
Print Assumptions C08tree_gtree_order.
Print Assumptions C08tree_gtree_exact_on_M.
Print Assumptions C08tree_nonvacuous_gtree.
Print Assumptions C08tree_every_path_is_tree.
Print Assumptions C08tree_every_star_is_tree.
Print Assumptions C08tree_every_path_accepted.
Print Assumptions C08tree_every_star_accepted.
Print Assumptions C08tree_path_star_exact_on_M.
Print Assumptions C08tree_nonvacuous_families.
Print Assumptions C08tree_nonvacuous_connected_acyclic.
Print Assumptions C08tree_cycle_not_acyclic.
