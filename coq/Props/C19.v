(* C19 — calls do not modify their arguments and can be repeated.
   Statements only.  [eon_program] is regenerated from /repo's working tree by
   translate/effects2v.py on every run (coq/Gen/Effects.v). *)
From Coq Require Import List String NArith.
Require Import EoNV.Model.Effects EoNV.Proofs.EffectsP.
Require Import EoNV.Proofs.EffectsSound EoNV.Proofs.EffectsSound2 EoNV.Proofs.EffectsSoundEx.
Require Import EoNV.Gen.Effects EoNV.Gen.EffectsObligAll.
Import ListNotations.

(* The generated obligation: for every public entry point of EoN/simulation.py and
   EoN/analytic.py the may-analysis finds no write that can reach an object (or the
   buffer of an object) that existed before the call -- except the confirmed defects
   listed in [accepted_unsafe], which may modify at most the listed parameters. *)
Theorem C19_all_entry_points_safe_except_confirmed_defects :
  forallb (ok_entry eon_program) (entry_points eon_program) = true.
Proof. exact all_entry_points_ok. Qed.

(* Soundness of the checker, for EVERY program of the statement language: if [safe]
   accepts fd then in every execution of fd's body in the abstract heap semantics
   (Model/Effects.v, [exec]) -- and in every prefix of one, because any statement
   may stop ([ex_abort]) -- from every initial state (parameters bound to objects that
   exist, allocation pointer n0), every location logged by an SWrite (the owner of
   the written buffer) was allocated during the call.  No object, and no buffer of an
   object, that existed before the call is written.
   Proof (Proofs/EffectsSound.v, EffectsSound2.v): an abstraction invariant [Inv]
   (every variable is bound to an existing location described by its abstract value;
   every reference of an object created during the call is recorded in the abstract
   heap under its allocation site and field; objects that existed before only hold
   such objects; a new object sharing an old buffer comes from a site with non-empty
   taint) is preserved by EVar/ELoad/EReach/EAlloc/EChoice ([eval_sound]) and, by
   induction on the execution, by every statement ([exec_sound]): SIf by soundness of
   the join, SLoop because the checker re-checks the body AT the invariant it found
   (post-fixpoint, [loop_inv_spec]), SCall by the check of the inlined callee with the
   remaining depth fuel. *)
Theorem C19_safe_sound :
  forall p fd n0 st o st',
  safe p fd = true -> initial fd n0 st -> exec p (fn_body fd) st o st' ->
  forall l, In l (st_log st') -> (n0 <= l)%nat.
Proof. exact safe_sound. Qed.

(* The two together, for the program generated from /repo: every public entry point
   for which no defect is on record ([accepted_unsafe] has no parameter for it)
   never writes storage that existed before the call, in any execution. *)
Theorem C19_entry_points_do_not_write_caller_storage :
  forall fd n0 st o st',
  In fd (entry_points eon_program) -> accepted_params accepted_unsafe (fn_name fd) = [] ->
  initial fd n0 st -> exec eon_program (fn_body fd) st o st' ->
  forall l, In l (st_log st') -> (n0 <= l)%nat.
Proof. exact (fun fd n0 st o st' => entry_points_sound eon_program fd n0 st o st' all_entry_points_ok). Qed.

(* The invariant-preservation theorem behind it, stated for the checker [chk] under
   any abstract heap H (the inferred heap is only a candidate that chk verifies). *)
Theorem C19_invariant_preserved :
  forall p H n0 s st o st', exec p s st o st' ->
  forall d E E', chk p H d s E = Some (E', []) -> Inv n0 H st E -> log_ok n0 st ->
  log_ok n0 st' /\ (o = Normal -> Inv n0 H st' E' /\ ext (st_heap st) (st_heap st')).
Proof. exact exec_sound. Qed.

(* Fuel.  The checker never accepts because it ran out of fuel: with no depth fuel it
   fails, and an accepted call has checked the body of the callee with the remaining
   fuel (so has every call inside it, down to depth 0 where nothing is accepted). *)
Theorem C19_out_of_fuel_is_failure : forall p H s E, chk p H 0 s E = None.
Proof. exact chk_0. Qed.
Theorem C19_accepted_call_checked_callee :
  forall p H d x f args E r,
  chk p H (S d) (SCall x f args) E = Some r ->
  exists fd E0 E1 v, find_fun p f = Some fd /\
    bind_params (fn_params fd) (map (alook E) args) = Some E0 /\
    chk p H d (fn_body fd) E0 = Some (E1, v) /\ r = (aset E x (alook E1 ret_var), v).
Proof. exact chk_call_inv. Qed.

(* Lemmas of the proof that are useful on their own (formerly the _partial theorems). *)
Theorem C19_write_step :
  forall p H d n0 ln x f ys E E' st o st',
  chk p H (S d) (SWrite ln x f ys) E = Some (E', []) ->
  inv_env n0 (st_heap st) (st_env st) E -> inv_bt n0 H (st_heap st) ->
  (forall m, In m (st_log st) -> (n0 <= m)%nat) ->
  exec p (SWrite ln x f ys) st o st' ->
  forall m, In m (st_log st') -> (n0 <= m)%nat.
Proof. exact exec_write_logs_new. Qed.

Theorem C19_env_monotone :
  forall n0 h e E F, aenv_leq E F = true -> inv_env n0 h e E -> inv_env n0 h e F.
Proof. exact inv_env_mono. Qed.

(* non-vacuity: the program is not empty; the checker rejects a function that
   writes its parameter, a view of it, an element of a container holding it, and a
   recursive function (out of fuel), and accepts the rebinding idiom
   x = x*A; x.shape = .. *)
Example C19_program_nonvacuous : (60 <= List.length (entry_points eon_program))%nat.
Proof. vm_compute. repeat constructor. Qed.

Open Scope N_scope.
Example C19_checker_discriminates :
  let writes_element := mkfun 4 "k"%string [(1, "a"%string)] true
      (seq [SAssign 2 (EAlloc 7 0 [1] [] [] []); SAssign 3 (ELoad 2 0); SWrite 10 3 0 []]) in
  let recursive := mkfun 5 "r"%string [(1, "a"%string)] true (SCall 2 5 [1]) in
  (safe [] f_writes_param, safe [] f_rebinds_first, safe [] f_writes_view, safe [] writes_element,
   safe [recursive] recursive)
  = (false, true, false, false, false).
Proof. vm_compute. reflexivity. Qed.

(* non-vacuity of the semantics: the hypotheses of C19_safe_sound are satisfiable and
   its conclusion is falsifiable.  The two rejected functions above have an
   execution from an initial state that logs the caller's object (location 0 < n0 = 1);
   the accepted one has a complete execution with a non-empty log. *)
Example C19_semantics_sees_write_to_parameter :
  exists st', initial f_writes_param 1%nat st_one /\
    exec [] (fn_body f_writes_param) st_one Normal st' /\ In 0%nat (st_log st').
Proof. exact writes_param_logs_old. Qed.
Example C19_semantics_sees_write_through_view :
  exists st', initial f_writes_view 1%nat st_one /\
    exec [] (fn_body f_writes_view) st_one Normal st' /\ In 0%nat (st_log st').
Proof. exact writes_view_logs_old. Qed.
Example C19_accepted_function_runs_and_writes :
  exists st', initial f_rebinds_first 1%nat st_one /\
    exec [] (fn_body f_rebinds_first) st_one Normal st' /\ st_log st' = [1%nat].
Proof. exact rebinds_first_runs. Qed.

Print Assumptions C19_all_entry_points_safe_except_confirmed_defects.
Print Assumptions C19_safe_sound.
Print Assumptions C19_entry_points_do_not_write_caller_storage.
Print Assumptions C19_invariant_preserved.
Print Assumptions C19_out_of_fuel_is_failure.
Print Assumptions C19_accepted_call_checked_callee.
Print Assumptions C19_write_step.
Print Assumptions C19_env_monotone.
Print Assumptions C19_program_nonvacuous.
Print Assumptions C19_checker_discriminates.
Print Assumptions C19_semantics_sees_write_to_parameter.
Print Assumptions C19_semantics_sees_write_through_view.
Print Assumptions C19_accepted_function_runs_and_writes.
