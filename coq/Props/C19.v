(* C19 — calls do not modify their arguments and can be repeated.
   Statements only.  [eon_program] is regenerated from /repo's working tree by
   translate/effects2v.py on every run (coq/Gen/Effects.v). *)
From Coq Require Import List String.
Require Import EoNV.Model.Effects EoNV.Proofs.EffectsP.
Require Import EoNV.Gen.Effects EoNV.Gen.EffectsObligAll.
Import ListNotations.

(* The generated obligation: for every public entry point of EoN/simulation.py and
   EoN/analytic.py the may-analysis finds no write that can reach an object (or the
   buffer of an object) that existed before the call -- except the confirmed defects
   listed in [accepted_unsafe], which may modify at most the listed parameters. *)
Theorem C19_all_entry_points_safe_except_confirmed_defects :
  forallb (ok_entry eon_program) (entry_points eon_program) = true.
Proof. exact all_entry_points_ok. Qed.

(* non-vacuity: the program is not empty, the checker does reject a function that
   writes its parameter, and accepts the rebinding idiom  x = x*A; x.shape = ..  *)
Example C19_program_nonvacuous : (60 <= List.length (entry_points eon_program))%nat.
Proof. vm_compute. repeat constructor. Qed.

Print Assumptions C19_all_entry_points_safe_except_confirmed_defects.
Print Assumptions C19_program_nonvacuous.
