(* C19 — calls do not modify their arguments and can be repeated.
   Statements only.  [eon_program] is regenerated from /repo's working tree by
   translate/effects2v.py on every run (coq/Gen/Effects.v). *)
From Coq Require Import List String NArith.
Require Import EoNV.Model.Effects EoNV.Proofs.EffectsP.
Require Import EoNV.Gen.Effects EoNV.Gen.EffectsObligAll.
Import ListNotations.

(* The generated obligation: for every public entry point of EoN/simulation.py and
   EoN/analytic.py the may-analysis finds no write that can reach an object (or the
   buffer of an object) that existed before the call -- except the confirmed defects
   listed in [accepted_unsafe], which may modify at most the listed parameters. *)
Theorem C19_all_entry_points_safe_except_confirmed_defects :
  forallb (ok_entry eon_program) (entry_points eon_program) = true.
Proof. exact all_entry_points_ok. Qed.

(* Soundness of the checker.  FULL STATEMENT (kept here; only partly mechanised):
     forall fd n0 st o st', safe eon_program fd = true -> initial fd n0 st ->
       exec eon_program (fn_body fd) st o st' ->
       forall l, In l (st_log st') -> n0 <= l
   i.e. in EVERY execution (and every prefix: [ex_abort]) from EVERY initial heap no
   object, and no buffer of an object, that existed before the call is written.
   Proved below (hence the names _partial): under the abstraction invariant
   (every variable bound to an existing location described by its abstract value;
   a new object sharing an old buffer comes from a site with non-empty taint)
   (a) an executed SWrite that the checker does not report logs a new location,
   (b) the invariant is monotone in the abstract environment (joins at branches and
       loop heads) and preserved by aliasing assignments.
   MISSING: preservation of the invariant by ELoad/EReach/EAlloc (needs the heap
   invariant: references of new objects are covered by the abstract heap, old objects
   only reference old objects), by SCall (induction on the depth fuel) and by SLoop
   (induction on the execution); the checker was designed for that proof (post-fixpoint
   and closure are CHECKED, not assumed) but it is not written. *)
Theorem C19_safe_sound_partial_write_step :
  forall p H d n0 ln x f ys E E' st o st',
  chk p H (S d) (SWrite ln x f ys) E = Some (E', []) ->
  inv_env n0 (st_heap st) (st_env st) E -> inv_bt n0 H (st_heap st) ->
  (forall m, In m (st_log st) -> (n0 <= m)%nat) ->
  exec p (SWrite ln x f ys) st o st' ->
  forall m, In m (st_log st') -> (n0 <= m)%nat.
Proof. exact exec_write_logs_new. Qed.

Theorem C19_safe_sound_partial_env_monotone :
  forall n0 h e E F, aenv_leq E F = true -> inv_env n0 h e E -> inv_env n0 h e F.
Proof. exact inv_env_mono. Qed.

Theorem C19_safe_sound_partial_alias :
  forall n0 h e E x y l, inv_env n0 h e E -> e y = Some l ->
  inv_env n0 h (upd e x (Some l)) (aset E x (alook E y)).
Proof. exact assign_var_preserves. Qed.

(* non-vacuity: the program is not empty, the checker does reject a function that
   writes its parameter, and accepts the rebinding idiom  x = x*A; x.shape = ..  *)
Example C19_program_nonvacuous : (60 <= List.length (entry_points eon_program))%nat.
Proof. vm_compute. repeat constructor. Qed.

Open Scope N_scope.
Example C19_checker_discriminates :
  let writes_param := mkfun 1 "f"%string [(1, "a"%string)] true (SWrite 7 1 0 []) in
  let rebinds_first := mkfun 2 "g"%string [(1, "a"%string)] true
      (seq [SAssign 1 (EAlloc 5 0 [] [1] [] []); SWrite 8 1 0 []]) in
  let writes_view := mkfun 3 "h"%string [(1, "a"%string)] true
      (seq [SAssign 2 (EAlloc 6 0 [] [] [] [1]); SWrite 9 2 0 []]) in
  let writes_element := mkfun 4 "k"%string [(1, "a"%string)] true
      (seq [SAssign 2 (EAlloc 7 0 [1] [] [] []); SAssign 3 (ELoad 2 0); SWrite 10 3 0 []]) in
  (safe [] writes_param, safe [] rebinds_first, safe [] writes_view, safe [] writes_element)
  = (false, true, false, false).
Proof. vm_compute. reflexivity. Qed.

Print Assumptions C19_all_entry_points_safe_except_confirmed_defects.
Print Assumptions C19_safe_sound_partial_write_step.
Print Assumptions C19_safe_sound_partial_env_monotone.
Print Assumptions C19_safe_sound_partial_alias.
Print Assumptions C19_program_nonvacuous.
Print Assumptions C19_checker_discriminates.
