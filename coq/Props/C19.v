(* C19 — calls do not modify their arguments and can be repeated.
   Statements only.  [eon_program] is regenerated from /repo's working tree by
   translate/effects2v.py on every run (coq/Gen/Effects.v). *)
From Coq Require Import List String NArith.
Require Import EoNV.Model.Effects EoNV.Proofs.EffectsP.
Require Import EoNV.Proofs.EffectsSound EoNV.Proofs.EffectsSound2 EoNV.Proofs.EffectsSoundEx.
Require Import EoNV.Gen.Effects EoNV.Gen.EffectsObligAll.
Import ListNotations.

(* The generated obligation: for every public entry point of EoN/simulation.py and
   EoN/analytic.py the may-analysis finds no write that can reach an object (or the
   buffer of an object) that existed before the call -- except the confirmed defects
   listed in [accepted_unsafe], which may modify at most the listed parameters. *)
Theorem C19_all_entry_points_safe_except_confirmed_defects :
  forallb (ok_entry eon_program) (entry_points eon_program) = true.
Proof. exact all_entry_points_ok. Qed.

(* Soundness of the checker, for EVERY program of the statement language: if [safe]
   accepts fd then in every execution of fd's body in the abstract heap semantics
   (Model/Effects.v, [exec]) -- and in every prefix of one, because any statement
   may stop ([ex_abort]) -- from every initial state (parameters bound to objects that
   exist, allocation pointer n0), every location logged by an SWrite (the owner of
   the written buffer) was allocated during the call.  No object, and no buffer of an
   object, that existed before the call is written.
   Proof (Proofs/EffectsSound.v, EffectsSound2.v): an abstraction invariant [Inv]
   (every variable is bound to an existing location described by its abstract value;
   every reference of an object created during the call is recorded in the abstract
   heap under its allocation site and field; an object that existed before holds
   objects of the regions it lies in, or what [po] records; a new object sharing an
   old buffer comes from a site whose taint names a parameter owning that buffer) is
   preserved by EVar/ELoad/EReach/EAlloc/EChoice ([eval_sound]) and, by induction on
   the execution, by every statement ([exec_sound]): SIf by soundness of the join,
   SLoop because the checker re-checks the body AT the invariant it found
   (post-fixpoint, [loop_inv_spec]), SCall by the check of the inlined callee with the
   remaining depth fuel. *)
Theorem C19_safe_sound :
  forall p fd n0 st o st',
  safe p fd = true -> initial fd n0 st -> exec p (fn_body fd) st o st' ->
  forall l, In l (st_log st') -> (n0 <= l)%nat.
Proof. exact safe_sound. Qed.

(* Attribution (what a non-empty report means), for EVERY program: if the analysis of
   fd ends with the report v then every logged write to storage that existed before
   the call hits the buffer of an object that was reachable, when the call started,
   from a parameter q named by an entry (source line, q) of v.  C19_safe_sound is
   the case v = [].
   FINDING (checker, repaired): the checker as first written did NOT have this
   property -- for  f(a, b): a.append(b); c = a[..]; c[..] = ..  it reported only a
   although b is modified (C19_semantics_needs_po below is that execution): it assumed
   that an object that existed before the call only holds objects of its own region
   even after the function itself had stored into it.  Model/Effects.v now records what
   may be stored into pre-existing objects, by field ([po], checked as a post-fixpoint by
   [store_ok] like the rest of the abstract heap) and loads through parameters see it.
   Verdicts of [safe] are unchanged by the repair (po is empty when nothing
   pre-existing is written); only reports of functions that do store references into
   their arguments can grow. *)
Theorem C19_report_sound :
  forall p fd n0 st o st' v,
  analyse p fd = Some v -> initial fd n0 st -> exec p (fn_body fd) st o st' ->
  forall m, In m (st_log st') -> (m < n0)%nat ->
  exists ln q l0 l, In (ln, q) v /\ st_env st q = Some l0 /\ reach (st_heap st) l0 l /\
                    m = base (st_heap st) l.
Proof. exact analyse_sound. Qed.

(* The generated obligation and soundness together, for the program generated from
   /repo.  (1) Every public entry point for which no defect is on record
   ([accepted_unsafe] has no parameter for it) never writes storage that existed
   before the call, in any execution.  (2) For every public entry point, whatever
   pre-existing storage it writes is the buffer of an object reachable at entry from a
   parameter that is on record for it. *)
Theorem C19_entry_points_do_not_write_caller_storage :
  forall fd n0 st o st',
  In fd (entry_points eon_program) -> accepted_params accepted_unsafe (fn_name fd) = [] ->
  initial fd n0 st -> exec eon_program (fn_body fd) st o st' ->
  forall l, In l (st_log st') -> (n0 <= l)%nat.
Proof. exact (fun fd n0 st o st' => entry_points_sound eon_program fd n0 st o st' all_entry_points_ok). Qed.

(* With [accepted_unsafe] empty (every defect once recorded there has been repaired in
   /repo) the side condition of (1) is vacuous: NO public entry point of the program
   generated from /repo writes storage that existed before the call, in any execution. *)
Theorem C19_no_entry_point_writes_caller_storage :
  forall fd n0 st o st',
  In fd (entry_points eon_program) ->
  initial fd n0 st -> exec eon_program (fn_body fd) st o st' ->
  forall l, In l (st_log st') -> (n0 <= l)%nat.
Proof. exact (fun fd n0 st o st' Hin => entry_points_sound eon_program fd n0 st o st' all_entry_points_ok Hin eq_refl). Qed.
Print Assumptions C19_no_entry_point_writes_caller_storage.

Theorem C19_entry_points_write_at_most_recorded_parameters :
  forall fd n0 st o st',
  In fd (entry_points eon_program) ->
  initial fd n0 st -> exec eon_program (fn_body fd) st o st' ->
  forall m, In m (st_log st') -> (m < n0)%nat ->
  exists q l0 l, In (pname (fn_params fd) q) (accepted_params accepted_unsafe (fn_name fd)) /\
                 st_env st q = Some l0 /\ reach (st_heap st) l0 l /\ m = base (st_heap st) l.
Proof. exact (fun fd n0 st o st' => entry_points_sound_attr eon_program fd n0 st o st' all_entry_points_ok). Qed.

(* The invariant-preservation theorem behind it, stated for the checker [chk] under
   any abstract heap H (the inferred heap is only a candidate that chk verifies). *)
Theorem C19_invariant_preserved :
  forall p H n0 R b0 s st o st', exec p s st o st' ->
  forall d E E' v V, chk p H d s E = Some (E', v) -> incl v V ->
  Inv n0 R b0 H st E -> log_ok n0 R b0 V st ->
  log_ok n0 R b0 V st' /\ (o = Normal -> Inv n0 R b0 H st' E' /\ ext (st_heap st) (st_heap st')).
Proof. exact exec_sound. Qed.

(* Fuel.  The checker never accepts because it ran out of fuel: with no depth fuel it
   fails, and an accepted call has checked the body of the callee with the remaining
   fuel (so has every call inside it, down to depth 0 where nothing is accepted). *)
Theorem C19_out_of_fuel_is_failure : forall p H s E, chk p H 0 s E = None.
Proof. exact chk_0. Qed.
Theorem C19_accepted_call_checked_callee :
  forall p H d x f args E r,
  chk p H (S d) (SCall x f args) E = Some r ->
  exists fd E0 E1 v, find_fun p f = Some fd /\
    bind_params (fn_params fd) (map (alook E) args) = Some E0 /\
    chk p H d (fn_body fd) E0 = Some (E1, v) /\ r = (aset E x (alook E1 ret_var), v).
Proof. exact chk_call_inv. Qed.

(* Meaning of the model diagnostic [dead_uses] (reported in the evidence, expected to be
   empty): where the abstract value of a variable is empty the variable is unbound, so
   a statement reading it has no execution and the theorems above say nothing about
   what follows it. *)
Theorem C19_empty_abstract_value_means_unbound :
  forall n0 R h e E x, inv_env n0 R h e E -> aisempty (alook E x) = true -> e x = None.
Proof. exact empty_value_unbound. Qed.

(* Lemmas of the proof that are useful on their own (formerly the _partial theorems). *)
Theorem C19_write_step :
  forall n0 R b0 H h e E x l,
  inv_env n0 R h e E -> inv_bt n0 R b0 H h -> inv_base n0 b0 h ->
  e x = Some l -> taint H (alook E x) = [] -> (n0 <= base h l)%nat.
Proof. exact write_safe. Qed.

Theorem C19_env_monotone :
  forall n0 R h e E F, aenv_leq E F = true -> inv_env n0 R h e E -> inv_env n0 R h e F.
Proof. exact inv_env_mono. Qed.

(* non-vacuity: the program is not empty; the checker rejects a function that
   writes its parameter, a view of it, an element of a container holding it, and a
   recursive function (out of fuel), and accepts the rebinding idiom
   x = x*A; x.shape = .. *)
Example C19_program_nonvacuous : (60 <= List.length (entry_points eon_program))%nat.
Proof. vm_compute. repeat constructor. Qed.

Open Scope N_scope.
Example C19_checker_discriminates :
  let writes_element := mkfun 4 "k"%string [(1, "a"%string)] true
      (seq [SAssign 2 (EAlloc 7 0 [1] [] [] []); SAssign 3 (ELoad 2 0); SWrite 10 3 0 []]) in
  let recursive := mkfun 5 "r"%string [(1, "a"%string)] true (SCall 2 5 [1]) in
  (safe [] f_writes_param, safe [] f_rebinds_first, safe [] f_writes_view, safe [] writes_element,
   safe [recursive] recursive, mutated_params [] f_attr, safe [] f_loop_scalars)
  = (false, true, false, false, false, Some ["a"; "b"]%string, false).
Proof. vm_compute. reflexivity. Qed.

(* non-vacuity of the semantics: the hypotheses of C19_safe_sound are satisfiable and
   its conclusion is falsifiable.  The two rejected functions above have an
   execution from an initial state that logs the caller's object (location 0 < n0 = 1);
   the accepted one has a complete execution with a non-empty log. *)
Example C19_semantics_sees_write_to_parameter :
  exists st', initial f_writes_param 1%nat st_one /\
    exec [] (fn_body f_writes_param) st_one Normal st' /\ In 0%nat (st_log st').
Proof. exact writes_param_logs_old. Qed.
Example C19_semantics_sees_write_through_view :
  exists st', initial f_writes_view 1%nat st_one /\
    exec [] (fn_body f_writes_view) st_one Normal st' /\ In 0%nat (st_log st').
Proof. exact writes_view_logs_old. Qed.
Example C19_accepted_function_runs_and_writes :
  exists st', initial f_rebinds_first 1%nat st_one /\
    exec [] (fn_body f_rebinds_first) st_one Normal st' /\ st_log st' = [1%nat].
Proof. exact rebinds_first_runs. Qed.

(* the execution of  f(a, b): a.append(b); c = a[..]; c[..] = ..  that writes b (location
   1), which is not the buffer of anything reachable from a (location 0) at entry *)
Example C19_semantics_needs_po :
  exists st', initial f_attr 2%nat st_ab /\
    exec [] (fn_body f_attr) st_ab Normal st' /\ In 1%nat (st_log st') /\
    (forall l, reach (st_heap st_ab) 0%nat l -> base (st_heap st_ab) l <> 1%nat).
Proof. exact attr_writes_b. Qed.

(* the semantics reaches the body of  for i in range(n): a[i] = 0  (a load may yield a new
   immutable scalar; the container of numbers holds no references in the model) *)
Example C19_semantics_reaches_loop_over_scalars :
  exists st', initial f_loop_scalars 1%nat st_one /\
    exec [] (fn_body f_loop_scalars) st_one Normal st' /\ In 0%nat (st_log st').
Proof. exact loop_over_scalars_reaches_body. Qed.

Print Assumptions C19_all_entry_points_safe_except_confirmed_defects.
Print Assumptions C19_safe_sound.
Print Assumptions C19_report_sound.
Print Assumptions C19_entry_points_do_not_write_caller_storage.
Print Assumptions C19_entry_points_write_at_most_recorded_parameters.
Print Assumptions C19_invariant_preserved.
Print Assumptions C19_out_of_fuel_is_failure.
Print Assumptions C19_accepted_call_checked_callee.
Print Assumptions C19_empty_abstract_value_means_unbound.
Print Assumptions C19_write_step.
Print Assumptions C19_env_monotone.
Print Assumptions C19_program_nonvacuous.
Print Assumptions C19_checker_discriminates.
Print Assumptions C19_semantics_sees_write_to_parameter.
Print Assumptions C19_semantics_sees_write_through_view.
Print Assumptions C19_accepted_function_runs_and_writes.
Print Assumptions C19_semantics_needs_po.
Print Assumptions C19_semantics_reaches_loop_over_scalars.
