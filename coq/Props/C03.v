(* C03 — Gillespie_simple_contagion realises exactly the user-specified transitions.
   Only statements, each closed by [exact] of a lemma from Proofs/SimpleP.v. *)
From EoNV Require Import Prelude Samp Graph ListDict Gillespie Simple ListDictP SimpleP.

Theorem C03_first_component_rejected : forall g tr,
  N.eqb (hd_status (tr_from tr)) (hd_status (tr_to tr)) = false ->
  setup_induced g tr = Err EoNError.
Proof. exact setup_induced_first_component. Qed.

Print Assumptions C03_first_component_rejected.
