(* C03 — Gillespie_simple_contagion realises exactly the user-specified transitions.
   Only statements, each closed by [exact] of a lemma from Proofs/SimpleP.v.  The model
   is Model/Simple.v (the definitions that are extracted and run against /repo).

   Reading guide.  A state [s : sst] holds the statuses, one slot per specification edge
   (transition, its _ListDict_ [sl_pot], its get_weight dictionary [sl_gw]) in the
   cascade's order [s_sp s ++ s_in s], and the outputs.  [sp_spec g st sl k] /
   [in_spec g st sl k] is the L0 specification computed from scratch from the statuses:
   [Some w] iff actor k (a node [u], resp. an ordered pair [u;v] with v a successor of u)
   is enabled for the slot's transition (status u = A, resp. statuses (A,B)), w its weight.
   [SInv g s] (simple_inv) says every _ListDict_ is exactly that set with those weights.
   One jump is [jump = bind select fire]: [select] is the cascade + choose_random,
   [fire] the status change and the incremental update. *)
From EoNV Require Import Prelude Samp Graph ListDict Gillespie Simple ListDictP KldP SimpleP.

Section C03.
Variable g : graph.
Hypothesis Hg : wfg2 g.     (* simple contact graph: follows from wf_graphb g = true, see below *)

(* ---- simple_inv, initially: a well-formed specification (at most one weight source per
   edge, weights defined and >= 0 on every node / ordered adjacent pair, induced transitions
   keep their first component) is accepted, the loop starts in a state satisfying the
   invariant and the rows invariant, with the transitions in the code's order (sorted, or
   list order when not sortable) and the specification's weights *)
Theorem C03_simple_inv_initial :
  forall sortable spont induced ic rstat tmin tmax full fuel,
  Forall (sp_tr_ok g) spont -> Forall (in_tr_ok g) induced ->
  exists sp inn,
    let s0 := mkS ic sp inn [(tmin, map (count_status g ic) rstat)] [] [] in
    simple g sortable spont induced ic rstat tmin tmax full fuel =
      loop g ic rstat tmin tmax full fuel tmin s0 /\
    SInv g s0 /\ RInv g rstat s0 /\
    map sl_tr sp = sort_trans sortable spont /\ map sl_tr inn = sort_trans sortable induced /\
    (forall sl u, In sl sp -> In u (gnodes g) -> wgt sl [u] = spec_weight g false (sl_tr sl) [u]) /\
    (forall sl u v, In sl inn -> In u (gnodes g) -> In v (gadj g u) ->
        wgt sl [u; v] = spec_weight g true (sl_tr sl) [u; v]).
Proof. exact (simple_setup_inv g Hg). Qed.

(* ---- simple_inv, after every event (directed AND undirected branch, old = new status,
   (A,A) pairs, both orientations): any (transition index, actor) whose actor is in that
   transition's _ListDict_ fires without any Python error, the new state satisfies the
   invariant again, the transitions stay in place, and the change of statuses is exactly
   the specification's event: "nothing else ever happens" *)
Theorem C03_simple_inv_step :
  forall rstat full t s i a sl,
  SInv g s -> nth_error (s_sp s ++ s_in s) i = Some sl -> sabs sl a <> None ->
  exists s', fire g rstat full t s (i, a) = Ok s' /\ SInv g s' /\
             is_spec_event g s (Nat.ltb i (length (s_sp s))) (sl_tr sl) a s' /\
             map sl_tr (s_sp s') = map sl_tr (s_sp s) /\ map sl_tr (s_in s') = map sl_tr (s_in s).
Proof. exact (fire_ok g Hg). Qed.

(* under the invariant the candidates of a transition are exactly its enabled actors *)
Theorem C03_candidates_are_enabled_nodes :
  forall s sl a, SInv g s -> In sl (s_sp s) ->
  (In a (items (sl_pot sl)) <-> sp_spec g (s_stat s) sl a <> None).
Proof. exact (items_enabled_sp g). Qed.
Theorem C03_candidates_are_enabled_pairs :
  forall s sl a, SInv g s -> In sl (s_in s) ->
  (In a (items (sl_pot sl)) <-> in_spec g (s_stat s) sl a <> None).
Proof. exact (items_enabled_in g). Qed.

(* ---- simple_step_law: every outcome (transition i, actor a) of the selection has
   an enabled actor and mass rate_i * weight_a / total ("support of law within the enabled
   transitions") ... *)
Theorem C03_step_law_sound :
  forall s i a q,
  SInv g s -> 0 < total_rate s -> In ((i, a), q) (law (select s)) ->
  exists sl, nth_error (s_sp s ++ s_in s) i = Some sl /\ sabs sl a <> None /\
             q == tr_rate (sl_tr sl) * wgt sl a / total_rate s.
Proof. exact (select_law_sound g). Qed.

(* ... and every enabled (transition, actor) is an outcome *)
Theorem C03_step_law_complete :
  forall s i a sl,
  SInv g s -> nth_error (s_sp s ++ s_in s) i = Some sl -> sabs sl a <> None ->
  exists q, In ((i, a), q) (law (select s)).
Proof. exact (select_law_complete g). Qed.

(* ... listed exactly once, so the mass above IS the probability of (transition i, actor a):
   P(i, a) = rate_i * weight_a / total, zero for everything else *)
Theorem C03_step_law_outcomes_listed_once :
  forall s, SInv g s -> NoDup (map fst (law (select s))).
Proof. exact (select_law_nodup g). Qed.

(* ... and the masses sum to 1: nothing is lost to a failing branch *)
Theorem C03_step_law_total_mass :
  forall s, SInv g s -> 0 < total_rate s -> mass (law (select s)) == 1.
Proof. exact (select_mass_one g). Qed.

(* the total rate is the sum over the specification edges of rate x (sum of the weights of
   the enabled actors) *)
Theorem C03_total_rate_is_sum_of_enabled :
  forall s, SInv g s ->
  total_rate s ==
  sumQ (map (fun sl => tr_rate (sl_tr sl) * sumQ (map (wgt sl) (items (sl_pot sl)))) (s_sp s ++ s_in s)).
Proof. exact (total_rate_spec g). Qed.

(* counts track statuses: after an event the newest row is (t, count of every return status) *)
Theorem C03_counts_track_statuses :
  forall rstat full t s i a sl s',
  SInv g s -> RInv g rstat s -> nth_error (s_sp s ++ s_in s) i = Some sl -> sabs sl a <> None ->
  fire g rstat full t s (i, a) = Ok s' ->
  RInv g rstat s' /\ exists c, s_rows s' = (t, c) :: s_rows s.
Proof. exact (fire_counts g Hg). Qed.

(* ---- EoNError iff the specification is malformed (at set-up) *)
Theorem C03_malformed_rejected :
  forall sortable spont induced ic rstat tmin tmax full fuel,
  (Exists sp_malformed spont \/ Exists in_malformed induced) ->
  simple g sortable spont induced ic rstat tmin tmax full fuel = Fail EoNError.
Proof. exact (simple_malformed_rejected g). Qed.

Theorem C03_setup_error_only_if_malformed :
  forall sortable spont induced e,
  rbind (rmap (setup_spont g) (sort_trans sortable spont)) (fun sp =>
  rbind (rmap (setup_induced g) (sort_trans sortable induced)) (fun inn => Ok (sp, inn))) = Err e ->
  e = EoNError /\ (Exists sp_malformed spont \/ Exists in_malformed induced).
Proof. exact (simple_setup_error_only_malformed g). Qed.

End C03.

(* ---- waiting time and stop rule: with a positive total rate the next call is
   expovariate(total_rate) and the loop goes on iff t + delay < tmax; with total rate 0
   (or below) it returns at once.  Fuel is only the recursion bound of the model: with
   fuel left the loop never stops for another reason. *)
Theorem C03_holding_rate_and_horizon :
  forall g ic rstat tmin tmax full fuel t s,
  0 < total_rate s ->
  loop g ic rstat tmin tmax full (S fuel) t s =
  Expo (total_rate s) (fun d =>
    if xlt (t + d) tmax
    then bind (jump g rstat full (t + d) s) (fun s' => loop g ic rstat tmin tmax full fuel (t + d) s')
    else lifts (finish g ic rstat tmin full s)).
Proof. exact loop_step. Qed.

Theorem C03_stops_when_nothing_enabled :
  forall g ic rstat tmin tmax full fuel t s,
  ~ 0 < total_rate s ->
  loop g ic rstat tmin tmax full fuel t s = lifts (finish g ic rstat tmin full s).
Proof. exact loop_stops_at_zero. Qed.

Theorem C03_horizon_test : forall a b,
  xlt a b = true <-> match b with None => True | Some m => a < m end.
Proof. exact xlt_spec. Qed.

(* the graph hypothesis is the boolean check of Base/Graph.v *)
Theorem C03_graph_check_suffices : forall g, wf_graphb g = true -> wfg2 g.
Proof. exact wf_graphb_wfg2. Qed.

(* ---- simple_inv for every reachable state: start state, then any sequence of events the
   selection can produce; the invariant, the rows invariant and the transition lists hold in
   all of them, and every selectable event fires without a Python error *)
Theorem C03_simple_inv_every_reachable_state :
  forall g (Hg : wfg2 g) rstat full s0 s,
  SInv g s0 -> RInv g rstat s0 -> reachable g rstat full s0 s ->
  SInv g s /\ RInv g rstat s /\
  map sl_tr (s_sp s) = map sl_tr (s_sp s0) /\ map sl_tr (s_in s) = map sl_tr (s_in s0).
Proof. exact reachable_inv. Qed.

Theorem C03_no_error_on_the_way :
  forall g (Hg : wfg2 g) rstat full s0 s t i a sl,
  SInv g s0 -> RInv g rstat s0 -> reachable g rstat full s0 s ->
  nth_error (s_sp s ++ s_in s) i = Some sl -> sabs sl a <> None ->
  exists s', fire g rstat full t s (i, a) = Ok s' /\ reachable g rstat full s0 s'.
Proof. exact reachable_never_stuck. Qed.

(* non-vacuity: a weighted SIS-like specification on the path 0-1-2 meets every hypothesis,
   and a scripted run of the extracted program on it performs one induced and one
   spontaneous event *)
Example C03_nonvacuous : C03_example_statement.
Proof. exact C03_example_proof. Qed.

(* Not proved here (kept visible):
   - whole-run "no EoNError from the loop" is stated over [reachable] states
     (C03_no_error_on_the_way), not over [exec] of a draw script: the link "exec follows
     only selectable pairs" is not written out.  Crashes of a valid run can only come from
     [finish] (Simulation_Investigation's constructor: KeyError / IndexError when
     return_statuses does not cover the statuses, see the harness) or from fuel;
   - the law of choose_random's rejection loop is Props/C16.v; here [law] uses its
     closed form weight/total. *)

Print Assumptions C03_simple_inv_initial.
Print Assumptions C03_simple_inv_step.
Print Assumptions C03_candidates_are_enabled_nodes.
Print Assumptions C03_candidates_are_enabled_pairs.
Print Assumptions C03_step_law_sound.
Print Assumptions C03_step_law_complete.
Print Assumptions C03_step_law_outcomes_listed_once.
Print Assumptions C03_step_law_total_mass.
Print Assumptions C03_total_rate_is_sum_of_enabled.
Print Assumptions C03_counts_track_statuses.
Print Assumptions C03_malformed_rejected.
Print Assumptions C03_setup_error_only_if_malformed.
Print Assumptions C03_holding_rate_and_horizon.
Print Assumptions C03_stops_when_nothing_enabled.
Print Assumptions C03_horizon_test.
Print Assumptions C03_graph_check_suffices.
Print Assumptions C03_simple_inv_every_reachable_state.
Print Assumptions C03_no_error_on_the_way.
Print Assumptions C03_nonvacuous.
