(* C03, exec level — Gillespie_simple_contagion under EVERY draw script.
   Props/C03.v proves the bookkeeping invariant and the one-step law over an abstract
   [reachable] relation.  This file closes the gap to the executable program: the statements
   below are about [exec (simple ...) ds []], the scripted run of the extracted model that the
   harness compares with /repo call by call (proofs: Proofs/SimpleExecS.v, SimpleExec.v,
   SimpleExecLog.v, SimpleExecTop.v).

   Reading guide.
   [srun g rstat tmax full t s calls t' s'] : from the loop head (clock t, state s) the loop
     performs a sequence of [step]s and is at the loop head (t', s'); [calls] are exactly the
     calls it made to the random source.
   [step g rstat tmax full t s calls t1 s1] : total rate > 0; expovariate(total_rate s)
     answered d >= 0 and t1 = t + d < tmax; random() selected a transition whose share
     rate*total_weight/total is positive; choose_random returned an actor present in that
     transition's _ListDict_ with positive weight; [fire] returned s1 without error.
   [stop tmax t s calls] : total rate = 0 (no call: delay = Inf), or one last
     expovariate(total_rate s) whose answer carries the clock to tmax or beyond.
   [glog g H J tmax st t evs st' t'] : evs is a chronological list of LEGAL specification
     events (ev_legal: an edge A->B of H with positive rate at a node of status A; or an edge
     (A,B)->(A,C) of J with positive rate at an ordered pair (u,v), v a successor of u, with
     statuses (A,B)), leading from statuses st at clock t to st' at t'; times never decrease
     and stay below tmax. *)
From EoNV Require Import Prelude Samp Graph ListDict ListDictP Gillespie KldP GillespieInv SampP Simple SimpleP
  SimpleExecS SimpleExec SimpleExecLog SimpleExecTop SimpleExecFuel SimpleExecW.

(* ---- scripted execution only follows possible outcomes, and logs its calls ---- *)
Theorem C03x_exec_follows_the_program :
  forall A (m : samp A) ds tr a tr',
  exec m ds tr = (Ok a, tr') -> exists l, tr' = rev tr ++ l /\ reacht m l a.
Proof. exact exec_reacht. Qed.

Theorem C03x_exec_failures_are_program_failures :
  forall A (m : samp A) ds tr e tr',
  exec m ds tr = (Err e, tr') -> e = OutOfDraws \/ rerr m e.
Proof. exact exec_rerr. Qed.

(* a valid uniform draw against shares that sum to more than the draw selects a cell with a
   positive share (the cascade `r -= rate*total_weight/total_rate; if r<0: break`) *)
Theorem C03x_cascade_selects_positive_share :
  forall ps d i0, 0 <= d -> d < sumQ ps ->
  exists k, casc_index ps d i0 = (i0 + k)%nat /\ (k < length ps)%nat /\
            exists p, nth_error ps k = Some p /\ 0 < p.
Proof. exact casc_index_pos. Qed.

Section C03x.
Variable g : graph.
Hypothesis Hg : wfg2 g.          (* simple contact graph: follows from wf_graphb g = true (C03_graph_check_suffices) *)
Variable ic : node -> N.
Variable rstat : list N.
Variable tmin : Q.
Variable tmax : xtime.
Variable full : bool.

(* ---- every returning run, every draw script: set-up establishes the invariant, then the
   run is a sequence of steps from (tmin, start state), the stop rule, and finish; the call
   trace logged by exec is exactly the calls of those steps followed by those of the stop rule *)
Theorem C03x_every_returning_run :
  forall sortable spont induced fuel ds out tr,
  Forall (sp_tr_ok g) spont -> Forall (in_tr_ok g) induced ->
  exec (simple g sortable spont induced ic rstat tmin tmax full fuel) ds [] = (Ok out, tr) ->
  exists sp inn l1 l2 t' s',
    SInv g (start g ic rstat tmin sp inn) /\ RInv g rstat (start g ic rstat tmin sp inn) /\
    map sl_tr sp = sort_trans sortable spont /\ map sl_tr inn = sort_trans sortable induced /\
    tr = l1 ++ l2 /\ srun g rstat tmax full tmin (start g ic rstat tmin sp inn) l1 t' s' /\
    stop tmax t' s' l2 /\ finish g ic rstat tmin full s' = Ok out.
Proof. exact (simple_exec_ok g Hg ic rstat tmin tmax full). Qed.

(* ---- no Python-level error on the way, for every draw script: in plain mode, or in full-data
   mode when return_statuses contains every status a node can take, the run ends in Ok, or the
   script / the model's fuel ran out.  (No ZeroDivisionError from expovariate(0), no IndexError
   from random.choice([]) or the cascade, no KeyError from remove / get_weight.) *)
Theorem C03x_never_a_python_error :
  forall sortable spont induced fuel ds e tr,
  Forall (sp_tr_ok g) spont -> Forall (in_tr_ok g) induced ->
  full = false \/ covered g ic rstat spont induced ->
  exec (simple g sortable spont induced ic rstat tmin tmax full fuel) ds [] = (Err e, tr) ->
  e = OutOfDraws \/ e = OutOfFuel.
Proof. exact (simple_exec_never_crashes g Hg ic rstat tmin tmax full). Qed.

(* ... and without that hypothesis the only other failure is the constructor of the full-data
   object (KeyError / IndexError of Simulation_Investigation.summary), after a complete run *)
Theorem C03x_only_other_failure_is_the_full_data_constructor :
  forall sortable spont induced fuel ds e tr,
  Forall (sp_tr_ok g) spont -> Forall (in_tr_ok g) induced ->
  exec (simple g sortable spont induced ic rstat tmin tmax full fuel) ds [] = (Err e, tr) ->
  e = OutOfDraws \/ e = OutOfFuel \/
  (full = true /\ (e = KeyErr \/ e = IndexErr) /\
   exists sp inn l1 t' s', SInv g (start g ic rstat tmin sp inn) /\ RInv g rstat (start g ic rstat tmin sp inn) /\
     map sl_tr sp = sort_trans sortable spont /\ map sl_tr inn = sort_trans sortable induced /\
     srun g rstat tmax full tmin (start g ic rstat tmin sp inn) l1 t' s' /\ finish g ic rstat tmin full s' = Err e).
Proof. exact (simple_exec_err g Hg ic rstat tmin tmax full). Qed.

(* ---- every loop head of a run satisfies simple_inv (and the rows invariant, and keeps the
   transitions in place) ---- *)
Theorem C03x_every_loop_head_satisfies_simple_inv :
  forall t s l t' s', srun g rstat tmax full t s l t' s' -> SInv g s -> RInv g rstat s ->
  SInv g s' /\ RInv g rstat s' /\
  map sl_tr (s_sp s') = map sl_tr (s_sp s) /\ map sl_tr (s_in s') = map sl_tr (s_in s).
Proof. exact (srun_inv g Hg rstat tmax full). Qed.

(* ---- the calls of one step: the waiting time is drawn with the total rate, which is the sum
   over the spec edges of rate x (sum of the weights of the enabled actors); the cascade is run
   against the shares rate_i*W_i/total; choose_random is offered exactly the enabled actors of
   the selected transition ---- *)
Theorem C03x_step_calls :
  forall t s l t1 s1, SInv g s -> step g rstat tmax full t s l t1 s1 ->
  exists sl l0, In sl (slots s) /\ (0 < slot_rate sl) /\
    l = CExpo (total_rate s) :: CCasc (shares s) :: l0 /\
    choose_calls (weighted (sl_pot sl)) (kl_cands (sl_pot sl)) l0 /\
    (forall a, In a (map fst (kl_cands (sl_pot sl))) <-> sabs sl a <> None) /\
    total_rate s == sumQ (map (fun sl => tr_rate (sl_tr sl) * sumQ (map (wgt sl) (items (sl_pot sl)))) (slots s)).
Proof. exact (step_calls g rstat tmax full). Qed.

(* ---- one step = one enabled transition of the specification: a status edge of H at that
   node, or an edge of J whose source pair is the statuses of an actual (neighbour, node) pair
   along the edge direction (gadj = successors when directed, neighbours when not); only that
   node changes, to the transition's target; the counts row appended is the old row with -1 at
   the old status and +1 at the new; node_history and transmissions get exactly that entry;
   the clock moves forward and stays below tmax ---- *)
Theorem C03x_step_is_one_enabled_transition :
  forall t s l t1 s1, SInv g s -> step g rstat tmax full t s l t1 s1 ->
  exists e, ev_legal g (map sl_tr (s_sp s)) (map sl_tr (s_in s)) (s_stat s) e /\ ge_t e = t1 /\
    t <= t1 /\ xlt t1 tmax = true /\
    s_stat s1 = fupdN (s_stat s) (ge_node e) (ge_new e) /\
    s_rows s1 = (t1, next_counts rstat (hd_counts (s_rows s)) (ge_old e) (ge_new e)) :: s_rows s /\
    s_elog s1 = (if full then [ev3 e] else []) ++ s_elog s /\
    s_tlog s1 = (if full then ev_tx e else []) ++ s_tlog s.
Proof.
  intros t s l t1 s1 HI H.
  exact (step_log g Hg (map sl_tr (s_sp s)) (map sl_tr (s_in s)) rstat tmax full t s l t1 s1 HI eq_refl eq_refl H).
Qed.

(* ---- the output of every returning run, in both return modes: ONE chronological log of
   legal specification events; the rows are its running counts (one count per return status),
   the node histories its per-node projections, the transmissions its induced events with
   their inducing neighbour ---- *)
Theorem C03x_output_is_one_log_of_enabled_transitions :
  forall sortable spont induced fuel ds out tr,
  Forall (sp_tr_ok g) spont -> Forall (in_tr_ok g) induced ->
  exec (simple g sortable spont induced ic rstat tmin tmax full fuel) ds [] = (Ok out, tr) ->
  exists evs st' t',
    glog g spont induced tmax ic tmin evs st' t' /\
    so_rows out = row0 g ic rstat tmin :: ev_rows g rstat ic evs /\
    so_full out =
      (if full then Some (mkFull (map (fun u => (u, (tmin, ic u) :: node_events u (map ev3 evs))) (gnodes g))
                                 (flat_map ev_tx evs))
       else None).
Proof. exact (simple_exec_output g Hg ic rstat tmin tmax full). Qed.

(* what [glog] says about time: the clock never goes back and every event time is below tmax *)
Theorem C03x_log_times :
  forall H J st t evs st' t', glog g H J tmax st t evs st' t' ->
  t <= t' /\ Forall (fun e => t <= ge_t e /\ ge_t e <= t' /\ xlt (ge_t e) tmax = true) evs.
Proof. intros H J. exact (glog_times g H J tmax). Qed.

Theorem C03x_log_chronological :
  forall H J st t evs st' t', glog g H J tmax st t evs st' t' ->
  forall a e1 e2 b, evs = a ++ e1 :: e2 :: b -> ge_t e1 <= ge_t e2.
Proof. intros H J. exact (glog_sorted g H J tmax). Qed.

(* ---- fuel is only the recursion bound of the executable model: a draw script no longer than
   the fuel never exhausts it (every loop iteration consumes at least the waiting-time draw), so
   with fuel >= |ds| the two theorems above say: Ok, or the script ran out ---- *)
Theorem C03x_fuel_suffices :
  forall sortable spont induced fuel ds,
  Forall (sp_tr_ok g) spont -> Forall (in_tr_ok g) induced -> (length ds <= fuel)%nat ->
  fst (exec (simple g sortable spont induced ic rstat tmin tmax full fuel) ds []) <> Err OutOfFuel.
Proof. exact (simple_fuel_suffices g Hg ic rstat tmin tmax full). Qed.

(* ---- the weights never change: at EVERY loop head of EVERY run the weight the bookkeeping uses
   for an actor is the weight the SPECIFICATION gives it (1 without weight source, the
   weight_label attribute, or the rate_function's value); with C03_step_law_sound the mass of
   (transition, actor) at that loop head is rate * spec_weight / total ---- *)
Theorem C03x_weights_are_the_specifications_at_every_loop_head :
  forall sortable spont induced fuel ds out tr,
  Forall (sp_tr_ok g) spont -> Forall (in_tr_ok g) induced ->
  exec (simple g sortable spont induced ic rstat tmin tmax full fuel) ds [] = (Ok out, tr) ->
  exists sp inn l1 l2 t' s',
    tr = l1 ++ l2 /\ srun g rstat tmax full tmin (start g ic rstat tmin sp inn) l1 t' s' /\
    finish g ic rstat tmin full s' = Ok out /\
    forall l t s, srun g rstat tmax full tmin (start g ic rstat tmin sp inn) l t s ->
      (forall sl u, In sl (s_sp s) -> In u (gnodes g) -> wgt sl [u] = spec_weight g false (sl_tr sl) [u]) /\
      (forall sl u v, In sl (s_in s) -> In u (gnodes g) -> In v (gadj g u) -> wgt sl [u; v] = spec_weight g true (sl_tr sl) [u; v]).
Proof. exact (simple_exec_weights g Hg ic rstat tmin tmax full). Qed.

(* ---- the property's law clause at EVERY loop head of EVERY run: the selection is a probability
   distribution (total mass 1) over the enabled (transition, actor) pairs, each listed once, and
   the mass of a pair is rate * (the specification's weight of the actor) / total rate -- "chosen
   with probability rate/total rate", nothing else has positive mass ---- *)
Theorem C03x_step_law_at_every_loop_head :
  forall sortable spont induced fuel ds out tr,
  Forall (sp_tr_ok g) spont -> Forall (in_tr_ok g) induced ->
  exec (simple g sortable spont induced ic rstat tmin tmax full fuel) ds [] = (Ok out, tr) ->
  exists sp inn l1 l2 t' s',
    tr = l1 ++ l2 /\ srun g rstat tmax full tmin (start g ic rstat tmin sp inn) l1 t' s' /\
    finish g ic rstat tmin full s' = Ok out /\
    forall l t s, srun g rstat tmax full tmin (start g ic rstat tmin sp inn) l t s -> 0 < total_rate s ->
      SInv g s /\ mass (law (select s)) == 1 /\ NoDup (map fst (law (select s))) /\
      forall i a q, In ((i, a), q) (law (select s)) ->
        exists sl, nth_error (slots s) i = Some sl /\ sabs sl a <> None /\
          q == tr_rate (sl_tr sl) * spec_weight g (negb (Nat.ltb i (length (s_sp s)))) (sl_tr sl) a / total_rate s.
Proof. exact (simple_exec_law g Hg ic rstat tmin tmax full). Qed.

End C03x.

(* ---- non-vacuity: the weighted SIS-like specification of Props/C03.v on the path 0-1-2 meets
   every hypothesis (with return_statuses covering), and its scripted run logs
   expovariate(8/2) [= 1*1 + 2*3/2, unreduced], the cascade over the shares [2/8; 12/16], choice among the one
   enabled pair with its accept test, ..., and a last expovariate that passes tmax ---- *)
Example C03x_example :
  wfg2 ex_g /\ Forall (sp_tr_ok ex_g) ex_sp /\ Forall (in_tr_ok ex_g) ex_in /\
  covered ex_g ex_ic [0%N; 1%N] ex_sp ex_in /\
  exists out tr, run_simple ex_g true ex_sp ex_in ex_ic [0%N; 1%N] 0 (Some 5) true 10 ex_draws = (Ok out, tr) /\
    length (so_rows out) = 3%nat /\
    firstn 4 tr = [CExpo (8 # 2); CCasc [2 # 8; 12 # 16]; CPick [[0%N; 1%N]]; CAcc (3 # 2)].
Proof.
  destruct C03_example_proof as [_ [Hg [Hsp [Hin _]]]].
  split; [exact Hg|]. split; [exact Hsp|]. split; [exact Hin|]. split.
  - split; [discriminate|]. split.
    + intros u [E|[E|[E|[]]]]; subst u; cbn; auto.
    + split; intros tr [E|[]]; subst tr; cbn; auto.
  - eexists. eexists. split; [vm_compute; reflexivity|]. split; reflexivity.
Qed.

Print Assumptions C03x_exec_follows_the_program.
Print Assumptions C03x_exec_failures_are_program_failures.
Print Assumptions C03x_cascade_selects_positive_share.
Print Assumptions C03x_every_returning_run.
Print Assumptions C03x_never_a_python_error.
Print Assumptions C03x_only_other_failure_is_the_full_data_constructor.
Print Assumptions C03x_every_loop_head_satisfies_simple_inv.
Print Assumptions C03x_step_calls.
Print Assumptions C03x_step_is_one_enabled_transition.
Print Assumptions C03x_output_is_one_log_of_enabled_transitions.
Print Assumptions C03x_log_times.
Print Assumptions C03x_log_chronological.
Print Assumptions C03x_fuel_suffices.
Print Assumptions C03x_weights_are_the_specifications_at_every_loop_head.
Print Assumptions C03x_step_law_at_every_loop_head.
Print Assumptions C03x_example.
