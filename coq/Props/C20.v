(* C20 — time-series and degree-distribution helpers have exact step/moment
   semantics.  Only statements; proofs are in Proofs/AuxP.v. *)
From EoNV Require Import Prelude Aux AuxP.
From Coq Require Import Sorted.

(* subsample: for ordered observation times, ordered report times not before
   the first observation, the j-th output is the value of the LAST observation
   at or before report j (ties and repeats included; after the end: the final
   value); nothing else is returned *)
Theorem C20_subsample_spec :
  forall (V : Type) (reports times : list Q) (vals : list V),
    Sorted Qle times -> Sorted Qle reports ->
    length vals = length times ->
    (exists r0 t0 rs ts, reports = r0 :: rs /\ times = t0 :: ts /\ t0 <= r0) ->
    exists out, subsample reports times vals = Ok out /\
                map Some out = map (last_le (combine times vals)) reports.
Proof. exact subsample_spec. Qed.

(* a report time before the first observation is rejected with EoNError *)
Theorem C20_subsample_rejects_early_report :
  forall (V : Type) r0 rs t0 ts (vals : list V),
    r0 < t0 -> subsample (r0 :: rs) (t0 :: ts) vals = Err EoNError.
Proof. exact subsample_rejects. Qed.

(* identically for two and three series *)
Theorem C20_subsample_multi :
  forall (V : Type) reports times (v1 v2 v3 : list V) a b c,
    subsample reports times v1 = Ok a -> subsample reports times v2 = Ok b ->
    subsample reports times v3 = Ok c ->
    subsample2 reports times v1 v2 = Ok (a, b) /\
    subsample3 reports times v1 v2 v3 = Ok (a, b, c).
Proof. exact subsample_multi. Qed.

(* get_time_shift: the first time at which the series reaches the threshold *)
Theorem C20_time_shift_spec :
  forall times L thr i,
    length L = length times -> first_reach L thr 0 = Some i ->
    exists t, nth_error times i = Some t /\ get_time_shift times L thr = Ok t /\
              (forall j l, (j < i)%nat -> nth_error L j = Some l -> l < thr).
Proof. exact time_shift_spec. Qed.

(* threshold never reached: the code returns the last time (stated, not required by the property) *)
Theorem C20_time_shift_no_crossing :
  forall times L thr t ts,
    length L = length times -> first_reach L thr 0 = None -> times = t :: ts ->
    get_time_shift times L thr = Ok (last times t).
Proof. exact time_shift_none. Qed.

(* get_Pk sums to 1 and is the degree histogram *)
Theorem C20_Pk_sums_to_one :
  forall ds, ds <> [] -> sumQ (map (Pk ds) (Pk_keys ds)) == 1.
Proof. exact Pk_sum_keys. Qed.

Theorem C20_Pk_is_histogram :
  forall ds k, Pk ds k * Qnat (length ds) == Qnat (count k ds) \/ ds = [].
Proof. exact Pk_hist. Qed.

(* generating-function helpers *)
Theorem C20_psi_at_1 : forall ds, ds <> [] -> psi ds 1 == 1.
Proof. exact psi_1. Qed.
Theorem C20_psiP_at_1 : forall ds, ds <> [] -> psiP ds 1 == mean_k ds.
Proof. exact psiP_1. Qed.
Theorem C20_psiDP_at_1 : forall ds, ds <> [] -> psiDP ds 1 == mean_k2mk ds.
Proof. exact psiDP_1. Qed.

(* psi, psi', psi'' are a polynomial and its first and second (formal)
   derivatives, at every evaluation point x <> 0 *)
Theorem C20_psi_is_polynomial :
  forall ds x, psi ds x == peval (Pk_coeffs ds) x.
Proof. exact psi_peval. Qed.
Theorem C20_psiP_is_derivative :
  forall ds x, ~ x == 0 -> psiP ds x == peval (pderiv (Pk_coeffs ds)) x.
Proof. exact psiP_peval. Qed.
Theorem C20_psiDP_is_second_derivative :
  forall ds x, ~ x == 0 -> psiDP ds x == peval (pderiv (pderiv (Pk_coeffs ds))) x.
Proof. exact psiDP_peval. Qed.

(* the formal derivative is the derivative: difference-quotient identity
   p(y) - p(x) = (y - x) * q(x,y) with q(x,x) = p'(x), for every polynomial *)
Theorem C20_formal_derivative_is_derivative :
  forall c x y, peval c y - peval c x == (y - x) * pdq c x y /\ pdq c x x == peval (pderiv c) x.
Proof. exact pderiv_difference_quotient. Qed.

(* estimate_R0 = T <k^2-k>/<k> *)
Theorem C20_R0_formula :
  forall ds T, ds <> [] -> ~ mean_k ds == 0 ->
    estimate_R0 ds T == T * mean_k2mk ds / mean_k ds.
Proof. exact R0_formula. Qed.

(* get_Pnk rows sum to 1 (rows of degree >= 1 that occur in the graph) *)
Theorem C20_Pnk_rows_sum_to_one :
  forall nd k1,
    (forall d l, In (d, l) nd -> length l = d) ->
    (0 < k1)%nat -> In k1 (map fst nd) ->
    sumQ (map (Pnk nd k1) (Pnk_row_keys nd k1)) == 1.
Proof. exact Pnk_row_sum. Qed.

(* non-vacuity: a grid with ties and repeats, reports beyond the end *)
Example C20_subsample_example :
  subsample [1; 1; 2; (5#2); 7] [0; 1; 1; 2; 3] [10; 11; 12; 13; 14]%Z = Ok [12; 12; 13; 13; 14]%Z.
Proof. vm_compute. reflexivity. Qed.
Example C20_degree_example :
  Qeq_bool (psiP [1;2;2;3]%nat 1) 2 = true /\ Qeq_bool (estimate_R0 [1;2;2;3]%nat (1#2)) (5#8) = true.
Proof. vm_compute. split; reflexivity. Qed.

Print Assumptions C20_subsample_spec.
Print Assumptions C20_subsample_rejects_early_report.
Print Assumptions C20_subsample_multi.
Print Assumptions C20_time_shift_spec.
Print Assumptions C20_time_shift_no_crossing.
Print Assumptions C20_Pk_sums_to_one.
Print Assumptions C20_Pk_is_histogram.
Print Assumptions C20_psi_at_1.
Print Assumptions C20_psiP_at_1.
Print Assumptions C20_psiDP_at_1.
Print Assumptions C20_psi_is_polynomial.
Print Assumptions C20_psiP_is_derivative.
Print Assumptions C20_psiDP_is_second_derivative.
Print Assumptions C20_formal_derivative_is_derivative.
Print Assumptions C20_R0_formula.
Print Assumptions C20_Pnk_rows_sum_to_one.
