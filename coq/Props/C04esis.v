(* C04 for the event-driven SIS simulators — trajectories are well-formed.
   fast_SIS (the sampler program, every draw script via [exec]) and
   fast_nonMarkov_SIS ([nm_run], every rule table).  Statements only; proofs in
   Proofs/EventSISRows.v, EventSISLog.v, EventSISFast.v, EventSISNM.v, EventSISOut.v.

   [traj g SIS tmin tmax rows] (Proofs/GillespieP.v, the predicate used for the
   Gillespie simulators in Props/C04.v): the first row is at tmin and is a census; every
   later row is at a time >= the previous one and < tmax, exactly one legal move (S->I or
   I->S) away from it, and again a census (counts >= 0 summing to N).
   [log_arrays nodes [S;I] tmin st0 evs] (Model/Investigation.v): the row at tmin with the
   counts of st0, then for the k-th event of [evs] the row (its time, the counts of the
   statuses obtained by replaying evs up to and including it).  [st_init i0 []] is
   "i0 infectious, everybody else susceptible".

   Domain: simple bookkeeping hypotheses on the graph (distinct nodes, neighbours are
   nodes), distinct initial nodes of the graph, tmin < tmax.  For the non-Markov
   simulator the user's rules must give non-negative durations and non-negative,
   non-decreasing delay lists ([rules_ok]) — with a negative or unsorted delay the code
   queues an event in the past and the returned times are not ordered. *)
From EoNV Require Import Prelude Samp Graph ListDict ListDictP Gillespie KldP GillespieInv SampP GillespieP GillespieLog.
From EoNV Require Import Investigation InvestigationP GillespieC10.
From EoNV Require Import EventSIS EventSISP EventSISRows EventSISLog EventSISFast EventSISNM EventSISOut EventSISInit EventSISEx.

Section C04esis.
Variable g : graph.
Hypothesis Hnd : NoDup (gnodes g).
Hypothesis Hadj : forall u v, In v (gadj g u) -> In v (gnodes g).

(* fast_SIS, every run on every draw script, both return modes: the returned rows form a
   trajectory, start with (tmin, [N - |i0|; |i0|]) and are the running counts of ONE event
   log (times < tmax, nodes of the graph, new statuses S or I) *)
Theorem C04_fast_SIS_rows_well_formed :
  forall tau gamma tmax tmin i0 full fuel ds out tr,
    xlt tmin tmax = true -> NoDup i0 -> incl i0 (gnodes g) ->
    exec (fast_SIS g tau gamma tmax (Some i0) None tmin full fuel) ds [] = (Ok out, tr) ->
    exists evs : list ev,
      traj g SIS tmin tmax (so_rows out) /\
      (exists rs, so_rows out = (tmin, [order g - Z.of_nat (length i0); Z.of_nat (length i0)]%Z) :: rs) /\
      so_rows out = log_arrays (gnodes g) [stS; stI] tmin (st_init i0 []) evs /\
      Forall (fun e => xlt (ev_time e) tmax = true /\ In (ev_node e) (gnodes g) /\ (ev_st e = stI \/ ev_st e = stS)) evs.
Proof. exact (fsis_C04 g Hnd Hadj). Qed.

(* ... also when the initial nodes are drawn by the simulator: initial_infecteds=None gives
   random.sample(list(G), 1), or with rho random.sample(list(G), int(round(N*rho))) (Python
   rounds half to even: [requested]); the sample i0 is duplicate-free, inside the graph and
   has the requested length, so row 0 is (tmin, [N - round(N*rho); round(N*rho)]) *)
Theorem C04_fast_SIS_rows_well_formed_any_initial_condition :
  forall tau gamma tmax tmin, xlt tmin tmax = true ->
  forall i0o rho full fuel ds out tr,
    (forall l, i0o = Some l -> NoDup l /\ incl l (gnodes g)) ->
    exec (fast_SIS g tau gamma tmax i0o rho tmin full fuel) ds [] = (Ok out, tr) ->
    exists i0, NoDup i0 /\ incl i0 (gnodes g) /\
      match i0o with
      | Some l => i0 = l
      | None => Z.of_nat (length i0) = requested g rho /\ (0 <= requested g rho <= order g)%Z
      end /\
      exists evs : list ev,
        traj g SIS tmin tmax (so_rows out) /\
        (exists rs, so_rows out = (tmin, [order g - Z.of_nat (length i0); Z.of_nat (length i0)]%Z) :: rs) /\
        so_rows out = log_arrays (gnodes g) [stS; stI] tmin (st_init i0 []) evs /\
        Forall (fun e => xlt (ev_time e) tmax = true /\ In (ev_node e) (gnodes g) /\ (ev_st e = stI \/ ev_st e = stS)) evs.
Proof. exact (fsis_C04_any_init g Hnd Hadj). Qed.

(* fast_nonMarkov_SIS, every rule table inside [rules_ok] *)
Theorem C04_fast_nonMarkov_SIS_rows_well_formed :
  forall dur delays tmax tmin i0 full fuel out,
    xlt tmin tmax = true -> NoDup i0 -> incl i0 (gnodes g) -> rules_ok dur delays ->
    nm_run g dur delays tmax tmin full fuel i0 = Ok out ->
    exists evs : list ev,
      traj g SIS tmin tmax (so_rows out) /\
      (exists rs, so_rows out = (tmin, [order g - Z.of_nat (length i0); Z.of_nat (length i0)]%Z) :: rs) /\
      so_rows out = log_arrays (gnodes g) [stS; stI] tmin (st_init i0 []) evs /\
      Forall (fun e => xlt (ev_time e) tmax = true /\ In (ev_node e) (gnodes g) /\ (ev_st e = stI \/ ev_st e = stS)) evs.
Proof. exact (nmsis_C04 g Hnd Hadj). Qed.

(* [nm_run] IS the simulator: with explicit initial nodes the sampler program of
   fast_nonMarkov_SIS makes no call to the random source and returns nm_run's result *)
Theorem C04_fast_nonMarkov_SIS_program_is_nm_run :
  forall dur delays tmax i0 tmin full fuel ds out tr,
    exec (fast_nonMarkov_SIS g dur delays tmax (Some i0) None tmin full fuel) ds [] = (Ok out, tr) ->
    nm_run g dur delays tmax tmin full fuel i0 = Ok out /\ tr = [].
Proof. exact (nmsis_sampler_is_nm_run g). Qed.

(* what the two predicates say, clause by clause *)
Theorem C04esis_first_time_is_tmin :
  forall tmin tmax l, traj g SIS tmin tmax l -> exists r l', l = r :: l' /\ fst r == tmin.
Proof. exact (traj_first g SIS). Qed.

Theorem C04esis_consecutive_rows :
  forall tmin tmax l, traj g SIS tmin tmax l -> forall l1 a b l2, l = l1 ++ a :: b :: l2 ->
    fst a <= fst b /\ xlt (fst b) tmax = true /\
    (snd b = [cnt (snd a) 0 + -1; cnt (snd a) 1 + 1]%Z \/ snd b = [cnt (snd a) 0 + 1; cnt (snd a) 1 + -1]%Z).
Proof. exact (traj_adjacent g SIS). Qed.

Theorem C04esis_counts_nonnegative_and_sum_to_N :
  forall tmin tmax l, traj g SIS tmin tmax l -> forall r, In r l ->
    Forall (fun x => (0 <= x)%Z) (snd r) /\ sumZ (snd r) = order g /\ length (snd r) = 2%nat.
Proof.
  intros tmin tmax l H r Hin. apply (census_counts g SIS). exact (traj_census g SIS tmin tmax l H r Hin).
Qed.

(* row k+1 is the census of the statuses after replaying the event log up to event k *)
Theorem C04esis_row_is_census_of_replayed_log :
  forall nodes ps tmin st0 (evs : list ev) k e, nth_error evs k = Some e ->
    nth_error (log_arrays nodes ps tmin st0 evs) (S k) =
      Some (ev_time e, map (count_status nodes (replay st0 (firstn (S k) evs))) ps).
Proof. exact log_arrays_nth. Qed.

End C04esis.

(* ---------------- non-vacuity ---------------- *)
(* the hypotheses hold for the path 0-1-2 started from node 0, and for rule tables with
   two delays per edge; both example runs return, with re-infections *)
Example C04esis_hypotheses_satisfiable :
  NoDup (gnodes gp) /\ (forall u v, In v (gadj gp u) -> In v (gnodes gp)) /\
  NoDup [0%N] /\ incl [0%N] (gnodes gp) /\ rules_ok durS delS.
Proof. exact (conj gp_nodup (conj gp_adj (conj (proj1 i0_ok) (conj (proj2 i0_ok) exS_rules_ok)))). Qed.

Example C04esis_fast_SIS_example :
  exists out tr, exec (fast_SIS gp 2 1 (Some 2) (Some [0%N]) None 0 true 100) script3 [] = (Ok out, tr) /\
    map (fun x : row => (Qred (fst x), snd x)) (so_rows out) = fs_rows /\
    traj gp SIS 0 (Some 2) (so_rows out).
Proof.
  destruct (exec (fast_SIS gp 2 1 (Some 2) (Some [0%N]) None 0 true 100) script3 []) as [[out|e] tr] eqn:E;
    [|vm_compute in E; discriminate E].
  exists out, tr. split; [reflexivity|].
  destruct (C04_fast_SIS_rows_well_formed gp gp_nodup gp_adj 2 1 (Some 2) 0 [0%N] true 100 script3 out tr eq_refl
              (proj1 i0_ok) (proj2 i0_ok) E) as [evs [T _]].
  split; [|exact T]. vm_compute in E. injection E as <- _. reflexivity.
Qed.

Example C04esis_fast_nonMarkov_SIS_example :
  exists out, nm_run gp durS delS (Some 4) 0 true 100 [0%N] = Ok out /\ length (so_rows out) = 16%nat /\
    traj gp SIS 0 (Some 4) (so_rows out).
Proof.
  destruct (nm_run gp durS delS (Some 4) 0 true 100 [0%N]) as [out|e] eqn:E; [|vm_compute in E; discriminate E].
  exists out. split; [reflexivity|].
  destruct (C04_fast_nonMarkov_SIS_rows_well_formed gp gp_nodup gp_adj durS delS (Some 4) 0 [0%N] true 100 out eq_refl
              (proj1 i0_ok) (proj2 i0_ok) exS_rules_ok E) as [evs [T _]].
  split; [|exact T]. vm_compute in E. injection E as <-. reflexivity.
Qed.

(* rho = 1/2 on three nodes: int(round(1.5)) = 2 initial nodes drawn by random.sample *)
Example C04esis_fast_SIS_rho_example :
  requested gp (Some (1 # 2)) = 2%Z /\
  exists out tr, exec (fast_SIS gp 2 1 (Some 2) None (Some (1 # 2)) 0 true 100)
                      [1; 1#4; 1#8; 3#8; 1#2; 5#8; 1#16; 3#4] [] = (Ok out, tr) /\
    map (fun x : row => (Qred (fst x), snd x)) (so_rows out) =
      [(0, [1; 2]%Z); (1 # 8, [0; 3]%Z); (3 # 16, [1; 2]%Z); (1 # 4, [2; 1]%Z); (1 # 2, [3; 0]%Z)] /\
    traj gp SIS 0 (Some 2) (so_rows out).
Proof.
  split; [reflexivity|].
  destruct (exec (fast_SIS gp 2 1 (Some 2) None (Some (1 # 2)) 0 true 100) [1; 1#4; 1#8; 3#8; 1#2; 5#8; 1#16; 3#4] []) as [[out|e] tr] eqn:E;
    [|vm_compute in E; discriminate E].
  exists out, tr. split; [reflexivity|].
  destruct (C04_fast_SIS_rows_well_formed_any_initial_condition gp gp_nodup gp_adj 2 1 (Some 2) 0 eq_refl None (Some (1 # 2)) true 100 _ out tr
              ltac:(intros l K; discriminate K) E) as [i0 [_ [_ [_ [evs [T _]]]]]].
  split; [|exact T]. vm_compute in E. injection E as <- _. reflexivity.
Qed.

Print Assumptions C04_fast_SIS_rows_well_formed.
Print Assumptions C04esis_fast_SIS_rho_example.
Print Assumptions C04_fast_SIS_rows_well_formed_any_initial_condition.
Print Assumptions C04_fast_nonMarkov_SIS_rows_well_formed.
Print Assumptions C04_fast_nonMarkov_SIS_program_is_nm_run.
Print Assumptions C04esis_first_time_is_tmin.
Print Assumptions C04esis_consecutive_rows.
Print Assumptions C04esis_counts_nonnegative_and_sum_to_N.
Print Assumptions C04esis_row_is_census_of_replayed_log.
Print Assumptions C04esis_hypotheses_satisfiable.
Print Assumptions C04esis_fast_SIS_example.
Print Assumptions C04esis_fast_nonMarkov_SIS_example.
