(* C16, float side, rounding: the binary64 rounding [rnd53] of Model/ListDictF.v (round to
   nearest, ties to even, 53 significant bits, over Q and Z) is MONOTONE, so the accept
   threshold fl(weight/max_weight) of _ListDict_.choose_random is a probability after
   every history — the theorem that Props/C16f.v could only state with monotonicity as a
   hypothesis (C16f_accept_threshold_is_probability_partial).  Statements only, each
   closed by [exact] of a lemma of Proofs/ListDictFPm*.v.
   Scope of the model: [rnd53] has no exponent range.  IEEE-754 underflow (a quotient
   weight/max_weight below 2^-1074 rounding to 0 or to a subnormal) and overflow are
   outside; for quotients in [2^-1022, 1] rnd53 IS the IEEE result. *)
From EoNV Require Import Prelude Samp ListDict ListDictP ListDictF ListDictFP ListDictFPr ListDictFPr2
  ListDictFP2 ListDictFP3 ListDictFP4 ListDictFPb ListDictFPm ListDictFPm2 ListDictFPm3 ListDictFPm4 ListDictFPm5.
From Coq Require Import Qabs Qpower.

(* ---------- the rounding ---------- *)
Theorem C16fm_rnd53_monotone : forall x y, x <= y -> rnd53 x <= rnd53 y.
Proof. exact rnd53_monotone. Qed.

(* the same for every precision p >= 1 (binary32 is p = 24) *)
Theorem C16fm_rounding_monotone_any_precision :
  forall (p : Z) x y, (1 <= p)%Z -> x <= y -> rnd_prec p x <= rnd_prec p y.
Proof. exact rnd_prec_mono. Qed.

(* what strict order survives: a strictly larger result needs a strictly larger argument *)
Theorem C16fm_rnd53_reflects_lt : forall x y, rnd53 x < rnd53 y -> x < y.
Proof. exact rnd53_lt_inv. Qed.

Theorem C16fm_rnd53_zero : rnd53 0 == 0.
Proof. exact rnd53_zero. Qed.

Theorem C16fm_rnd53_one : rnd53 1 == 1.
Proof. exact rnd53_one. Qed.

Theorem C16fm_rnd53_sign : forall x,
  (0 < x -> 0 < rnd53 x) /\ (x < 0 -> rnd53 x < 0) /\ (x == 0 -> rnd53 x == 0).
Proof. exact rnd53_sign. Qed.

Theorem C16fm_rnd53_zero_iff : forall x, rnd53 x == 0 <-> x == 0.
Proof. exact rnd53_zero_iff. Qed.

Theorem C16fm_rnd53_odd : forall x, rnd53 (- x) == - rnd53 x.
Proof. exact (rnd_prec_opp 53). Qed.

(* the fixed points of rnd53 are exactly the dyadics m * 2^e with |m| <= 2^53 *)
Theorem C16fm_rnd53_exact_on_53_bit_dyadics : forall (m e : Z), (Z.abs m <= 2 ^ 53)%Z ->
  rnd53 (inject_Z m * 2 ^ e) == inject_Z m * 2 ^ e.
Proof. exact rnd53_exact_dyadic. Qed.

Theorem C16fm_rnd53_values_are_53_bit_dyadics : forall x,
  exists (m e : Z), (Z.abs m <= 2 ^ 53)%Z /\ rnd53 x == inject_Z m * 2 ^ e.
Proof. exact rnd53_value_dyadic. Qed.

(* non-vacuity, by computation: 1/3 is not a double; 1/3 and 1/3 + 2^-60 share one,
   1/3 + 2^-54 has the next; the tie 2^53+1 goes to the even neighbour on both sides of
   0; the binade boundary at 1 *)
Example C16fm_monotone_nonvacuous :
  rnd53 third <= rnd53 (third + 2 ^ (-60)) /\
  rnd53 third == rnd53 (third + 2 ^ (-60)) /\
  rnd53 third < rnd53 (third + 2 ^ (-54)) /\
  ~ rnd53 third == third.
Proof. exact rnd53_mono_example. Qed.

Example C16fm_ties_to_even :
  rnd53 (inject_Z (2 ^ 53 + 1)) == inject_Z (2 ^ 53) /\
  rnd53 (inject_Z (2 ^ 53 + 3)) == inject_Z (2 ^ 53 + 4) /\
  rnd53 (- inject_Z (2 ^ 53 + 1)) == - inject_Z (2 ^ 53).
Proof. exact rnd53_tie_example. Qed.

Example C16fm_binade_boundary :
  rnd53 (1 - 2 ^ (-60)) == 1 /\ rnd53 (1 - 2 ^ (-53)) == 1 - 2 ^ (-53) /\
  rnd53 (1 + 2 ^ (-53)) == 1 /\ rnd53 (1 + 2 ^ (-52)) == 1 + 2 ^ (-52).
Proof. exact rnd53_boundary_example. Qed.

(* ---------- the accept threshold of choose_random, binary64, every history ---------- *)
(* UNCONDITIONAL form of C16f_accept_threshold_is_probability_partial: after every
   history of insert/update/remove with non-negative weights, for every key k (stored or
   not: wread is 0 for an absent key) and the tracked max_weight M > 0:
   0 <= fl(w/M) <= 1, and fl(w/M) = 0 exactly when w = 0 (no underflow in the model) *)
Theorem C16fm_accept_threshold_is_probability :
  forall (K : Type) (Keqb : K -> K -> bool), (forall a b, reflect (a = b) (Keqb a b)) ->
  forall (ops : list (op K)) (s : ld K) k,
    Forall (op_ok K true) ops -> ldf_run K Keqb rnd53 (ld_empty true) ops = Ok s -> 0 < maxw s ->
    0 <= ldf_threshold K rnd53 s k /\ ldf_threshold K rnd53 s k <= 1 /\
    (ldf_threshold K rnd53 s k == 0 <-> wread K s k == 0).
Proof. exact b64_threshold_probability. Qed.

(* for a candidate of positive weight nothing has to be assumed about max_weight *)
Theorem C16fm_positive_weight_threshold_in_0_1 :
  forall (K : Type) (Keqb : K -> K -> bool), (forall a b, reflect (a = b) (Keqb a b)) ->
  forall (ops : list (op K)) (s : ld K) k,
    Forall (op_ok K true) ops -> ldf_run K Keqb rnd53 (ld_empty true) ops = Ok s ->
    0 < wread K s k ->
    0 < maxw s /\ 0 < ldf_threshold K rnd53 s k /\ ldf_threshold K rnd53 s k <= 1.
Proof. exact b64_threshold_positive_weight. Qed.

(* the heaviest candidates are accepted with probability exactly 1 ... *)
Theorem C16fm_heaviest_threshold_is_one :
  forall (K : Type) (s : ld K) k,
    0 < maxw s -> wread K s k == maxw s -> ldf_threshold K rnd53 s k == 1.
Proof. exact b64_threshold_heaviest. Qed.

(* ... and rounding never inverts the order of two candidates *)
Theorem C16fm_threshold_order_preserved :
  forall (K : Type) (s : ld K) k1 k2,
    0 < maxw s -> wread K s k1 <= wread K s k2 ->
    ldf_threshold K rnd53 s k1 <= ldf_threshold K rnd53 s k2.
Proof. exact b64_threshold_order. Qed.

Example C16fm_threshold_nonvacuous : b64_threshold_example_statement.
Proof. exact b64_threshold_example_proof. Qed.

(* ---------- monotone float operations on weights ---------- *)
Theorem C16fm_float_operations_monotone :
  (forall a a' b b', a <= a' -> b <= b' -> fadd rnd53 a b <= fadd rnd53 a' b') /\
  (forall a a' b b', a <= a' -> b' <= b -> fsub rnd53 a b <= fsub rnd53 a' b') /\
  (forall a a' m, 0 < m -> a <= a' -> fdiv rnd53 a m <= fdiv rnd53 a' m) /\
  (forall a d, rnd53 a == a -> 0 <= d -> a <= fadd rnd53 a d) /\
  (forall t w, w <= t -> 0 <= fsub rnd53 t w) /\
  (forall t w, rnd53 t == t -> 0 <= w -> fsub rnd53 t w <= t).
Proof.
  exact (conj b64_fadd_mono (conj b64_fsub_mono (conj b64_fdiv_mono
          (conj b64_fadd_ge (conj b64_fsub_nonneg b64_fsub_le))))).
Qed.

(* a left-fold float sum of non-negative terms (update_total_weight) never falls below
   its running value *)
Theorem C16fm_float_sum_never_decreases :
  forall l a, rnd53 a == a -> (forall x, In x l -> 0 <= x) -> a <= fold_left (fadd rnd53) l a.
Proof. exact b64_fsum_ge_acc. Qed.

(* every stored weight is a binary64 number, after every history *)
Theorem C16fm_stored_weights_are_doubles :
  forall (K : Type) (Keqb : K -> K -> bool), (forall a b, reflect (a = b) (Keqb a b)) ->
  forall (ops : list (op K)) (s : ld K),
    Forall (op_ok K true) ops -> ldf_run K Keqb rnd53 (ld_empty true) ops = Ok s ->
    forall k, rnd53 (wread K s k) == wread K s k.
Proof. exact b64_stored_weights_representable. Qed.

(* update(k, d) with d >= 0 never LOWERS the weight of k (it can leave it unchanged:
   absorption, example below) and touches no other weight *)
Theorem C16fm_update_never_lowers_weight :
  forall (K : Type) (Keqb : K -> K -> bool), (forall a b, reflect (a = b) (Keqb a b)) ->
  forall (ops : list (op K)) (s s' : ld K) k d,
    Forall (op_ok K true) ops -> ldf_run K Keqb rnd53 (ld_empty true) ops = Ok s ->
    0 <= d -> ldf_step K Keqb rnd53 s (OpUpdate k d) = Ok s' ->
    wread K s k <= wread K s' k /\ (forall x, x <> k -> wread K s' x = wread K s x).
Proof. exact b64_update_never_lowers. Qed.

Example C16fm_absorption : fadd rnd53 d07 dtiny == d07 /\ 0 < dtiny.
Proof. exact b64_absorption_example. Qed.

(* the running total _total_weight is a binary64 number after every history ... *)
Theorem C16fm_total_is_double :
  forall (K : Type) (Keqb : K -> K -> bool), (forall a b, reflect (a = b) (Keqb a b)) ->
  forall (ops : list (op K)) (s : ld K),
    Forall (op_ok K true) ops -> ldf_run K Keqb rnd53 (ld_empty true) ops = Ok s ->
    rnd53 (total s) == total s.
Proof. exact b64_total_representable. Qed.

(* ... an increment >= 0 (update; insert of an absent key) never lowers it; a removal that
   leaves a candidate never raises it and leaves it >= 0 when the removed weight does not
   exceed it (a removal that empties resets it to exactly 0, which can raise a total that
   had drifted below 0: C16f_total_can_be_negative) *)
Theorem C16fm_total_moves_the_right_way :
  forall (K : Type) (Keqb : K -> K -> bool), (forall a b, reflect (a = b) (Keqb a b)) ->
  forall (ops : list (op K)) (s s' : ld K) o,
    Forall (op_ok K true) ops -> ldf_run K Keqb rnd53 (ld_empty true) ops = Ok s ->
    op_ok K true o -> ldf_step K Keqb rnd53 s o = Ok s' ->
    match o with
    | OpUpdate _ _ => total s <= total s'
    | OpInsert k _ => contains K s k = false -> total s <= total s'
    | OpRemove k => (items s' <> [] -> total s' <= total s) /\ (wread K s k <= total s -> 0 <= total s')
    | OpAdd _ => True
    end.
Proof. exact b64_total_monotone_steps. Qed.

(* ---------- the selection law with rounded thresholds ---------- *)
(* [thr_state rnd s] = the exact structure of Model/ListDict.v whose weights are the
   rounded thresholds of s and whose max_weight is 1: one round of the rounded
   choose_random on s IS one round of the exact choose_random on it ... *)
Theorem C16fm_rounded_round_is_exact_round_on_thresholds :
  forall (K : Type) (s : ld K) (r : nat) (u : Q),
    ldf_inv K s -> weighted s = true -> 0 < maxw s ->
    ldf_choose_round K rnd53 s r u = ld_choose_round K (thr_state K rnd53 s) r u.
Proof. exact b64_round_is_exact_round. Qed.

(* ... it satisfies the invariant of Props/C16.v after every history, so the rejection
   law of Props/C16.v applies: within [fuel] rounds k is returned with probability
   (thr_k / sum thr) (1 - (1-a)^fuel), a = sum thr / n *)
Theorem C16fm_rejection_law_rounded :
  forall (K : Type) (Keqb : K -> K -> bool), (forall a b, reflect (a = b) (Keqb a b)) ->
  forall (ops : list (op K)) (s : ld K) (fuel : nat) k,
    Forall (op_ok K true) ops -> ldf_run K Keqb rnd53 (ld_empty true) ops = Ok s ->
    0 < wsum K s -> In k (items s) ->
    ld_inv K (thr_state K rnd53 s) /\
    0 < thr_sum K rnd53 s /\
    sel_prob K Keqb fuel (thr_state K rnd53 s) k ==
      (ldf_threshold K rnd53 s k / thr_sum K rnd53 s) *
      (1 - (1 - acc_rate K (thr_state K rnd53 s)) ^ Z.of_nat fuel).
Proof. exact b64_rejection_law_rounded. Qed.

(* the selection ratio thr_k / sum thr is within (1-eps)/(1+eps) .. (1+eps)/(1-eps) of
   weight_k / (sum of stored weights), eps = 2^-53; in particular within
   [1 - 2^-52, 1 + 3 * 2^-53] *)
Theorem C16fm_selection_ratio_relative :
  forall (K : Type) (Keqb : K -> K -> bool), (forall a b, reflect (a = b) (Keqb a b)) ->
  forall (ops : list (op K)) (s : ld K) k,
    Forall (op_ok K true) ops -> ldf_run K Keqb rnd53 (ld_empty true) ops = Ok s ->
    0 < wsum K s ->
    let p := ldf_threshold K rnd53 s k / thr_sum K rnd53 s in
    let q := wread K s k / wsum K s in
    ((1 - eps53) / (1 + eps53)) * q <= p /\ p <= ((1 + eps53) / (1 - eps53)) * q /\
    (1 - 2 * eps53) * q <= p /\ p <= (1 + 3 * eps53) * q.
Proof. exact b64_selection_ratio. Qed.

Example C16fm_selection_nonvacuous : b64_selection_example_statement.
Proof. exact b64_selection_example_proof. Qed.

(* the per-round acceptance probability with rounded thresholds, a' = sum thr / n, is
   within 1 -+ eps of the exact sum w / (n max_weight), and is a positive probability:
   the rejection loop terminates with probability 1 and the expected number of rounds
   1/a' changes by a factor in [1/(1+eps), 1/(1-eps)] *)
Theorem C16fm_acceptance_rate_relative :
  forall (K : Type) (Keqb : K -> K -> bool), (forall a b, reflect (a = b) (Keqb a b)) ->
  forall (ops : list (op K)) (s : ld K),
    Forall (op_ok K true) ops -> ldf_run K Keqb rnd53 (ld_empty true) ops = Ok s ->
    0 < wsum K s ->
    let a' := acc_rate K (thr_state K rnd53 s) in
    let a := wsum K s / (Qnat (length (items s)) * maxw s) in
    (1 - eps53) * a <= a' /\ a' <= (1 + eps53) * a /\ 0 < a' /\ a' <= 1.
Proof. exact b64_acc_rate_relative. Qed.

(* END TO END, for the histories the simulators produce (every increment creates its
   key; the weights handed in are doubles): the candidate set is that of the finite-map
   specification m of Props/C16.v and the selection ratio with rounded thresholds is
   within [1 - 2 eps, 1 + 3 eps] of m(k) / sum m *)
Theorem C16fm_selection_vs_specification :
  forall (K : Type) (Keqb : K -> K -> bool), (forall a b, reflect (a = b) (Keqb a b)) ->
  forall (ops : list (op K)) (s : ld K) k,
    Forall (op_ok K true) ops -> Forall (op_rep K rnd53) ops ->
    hist_fresh K Keqb (sp_empty K) ops ->
    ldf_run K Keqb rnd53 (ld_empty true) ops = Ok s ->
    let m := fold_left (sp_step K Keqb) ops (sp_empty K) in
    let W := sumQ (map (spw K m) (items s)) in
    0 < W -> In k (items s) ->
    (forall x, In x (items s) <-> m x <> None) /\
    let p := ldf_threshold K rnd53 s k / thr_sum K rnd53 s in
    (1 - 2 * eps53) * (spw K m k / W) <= p /\ p <= (1 + 3 * eps53) * (spw K m k / W).
Proof. exact b64_selection_vs_specification. Qed.

Example C16fm_specification_nonvacuous : b64_spec_example_statement.
Proof. exact b64_spec_example_proof. Qed.

Print Assumptions C16fm_rnd53_monotone.
Print Assumptions C16fm_rnd53_reflects_lt.
Print Assumptions C16fm_rnd53_zero.
Print Assumptions C16fm_rnd53_one.
Print Assumptions C16fm_rnd53_sign.
Print Assumptions C16fm_rnd53_zero_iff.
Print Assumptions C16fm_rnd53_odd.
Print Assumptions C16fm_rnd53_exact_on_53_bit_dyadics.
Print Assumptions C16fm_rnd53_values_are_53_bit_dyadics.
Print Assumptions C16fm_monotone_nonvacuous.
Print Assumptions C16fm_ties_to_even.
Print Assumptions C16fm_binade_boundary.
Print Assumptions C16fm_accept_threshold_is_probability.
Print Assumptions C16fm_positive_weight_threshold_in_0_1.
Print Assumptions C16fm_heaviest_threshold_is_one.
Print Assumptions C16fm_threshold_order_preserved.
Print Assumptions C16fm_threshold_nonvacuous.
Print Assumptions C16fm_rounded_round_is_exact_round_on_thresholds.
Print Assumptions C16fm_rejection_law_rounded.
Print Assumptions C16fm_selection_ratio_relative.
Print Assumptions C16fm_selection_nonvacuous.
Print Assumptions C16fm_rounding_monotone_any_precision.
Print Assumptions C16fm_float_operations_monotone.
Print Assumptions C16fm_float_sum_never_decreases.
Print Assumptions C16fm_stored_weights_are_doubles.
Print Assumptions C16fm_update_never_lowers_weight.
Print Assumptions C16fm_absorption.
Print Assumptions C16fm_acceptance_rate_relative.
Print Assumptions C16fm_selection_vs_specification.
Print Assumptions C16fm_specification_nonvacuous.
Print Assumptions C16fm_total_is_double.
Print Assumptions C16fm_total_moves_the_right_way.
