(* C12 — discrete-time simulators follow generation-by-generation Reed–Frost dynamics.
   Only statements, each closed by [exact] of a lemma from Proofs/DiscreteP.v, over the
   definitions of Model/Discrete.v that are extracted and run against /repo. *)
From EoNV Require Import Prelude Samp Graph Discrete DiscreteP.
From Coq Require Import Permutation.

(* ---- discrete_SIR = breadth-first search over the successful contacts ----
   For EVERY transmission rule tt (used as the function of the contact T u v = tt u v 0:
   without a recovery test every node is tested at age 0), every simple graph, duplicate-free
   disjoint initial sets, tmin, tmax, return mode and iteration-order oracle:
   the run returns; it makes exactly K steps where K is the first k with I_k empty or
   tmin + k >= tmax; its rows are (tmin + k, |S_k|, |I_k|, R_k) for k <= K where I_k is
   exactly the set of nodes at breadth-first distance k from the initially infected nodes in
   the digraph {u -> v | v neighbour of u, T u v} with the initially recovered nodes removed;
   S + I + R = N; the history of v (full data) has an I entry at tmin + k iff v is in I_k
   and an R entry exactly one step later (C12_history_entries). *)
(* Scope of THIS theorem: test_recovery = None and initial_infecteds given.  WITH a user recovery test
   (table rules that are functions of the pair): Props/C12rec.v -- same infection times = BFS distances,
   infectious until the test first succeeds.  Arbitrary rules (incl. age-dependent ones, the default rule
   under any draw script), both simulators: Props/C04disc.v, C09disc.v, C10disc.v state what those runs are.
   The rho path (initial nodes drawn by random.sample): Props/C05disc.v -- a rho run is a run from an
   explicit duplicate-free set.  Independence of the iteration order in all these cases: Props/C12ord.v. *)
Theorem C12_dsir_bfs : forall g tt pick ord i0 r0o tmin tmax full fuel,
  let r0 := opt_list r0o in let T := T0 tt in
  wf_inputb g i0 r0 = true -> perm_oracle ord -> (length (gnodes g) < fuel)%nat ->
  exists K out,
    first_stop g tt i0 r0 tmin tmax K /\
    discrete_SIR g (det_rules tt pick) None ord (Some i0) r0o None tmin tmax full fuel = Ret out /\
    so_rows (o_sim out) = l1_rows g tt i0 r0 tmin K /\
    (if full then exists tr, so_full (o_sim out) = Some (mkFull (l1_hist g tt full i0 r0 tmin tmax K) tr)
     else so_full (o_sim out) = None) /\
    (forall k v, In v (Ig g T i0 r0 k) <-> bfs_dist g T i0 r0 v k) /\
    (forall k, (lenZ (Sg g T i0 r0 k) + lenZ (Ig g T i0 r0 k) + Rg g tt i0 r0 k)%Z = order g).
Proof. exact dsir_bfs. Qed.
Print Assumptions C12_dsir_bfs.

(* what l1_hist records for a node: I at step k+1 iff it is in generation k+1, R at step
   k+1 iff it was in generation k (infectious for exactly one step); entries beyond the
   horizon (next_time > tmax, possible only for non-integer horizons) are not recorded *)
Theorem C12_history_entries : forall g tt full i0 r0 tmin tmax K v e,
  In e (events_to g tt full i0 r0 tmin tmax K v) <->
  exists k, (k < K)%nat /\ full && le_x (tq tmin (S k)) tmax = true /\
    ((e = (tq tmin (S k), stR) /\ In v (Ig g (T0 tt) i0 r0 k)) \/
     (e = (tq tmin (S k), stI) /\ In v (Ig g (T0 tt) i0 r0 (S k)))).
Proof. exact events_spec. Qed.
Print Assumptions C12_history_entries.

Theorem C12_times : forall tmin k, tq tmin k == tmin + inject_Z (Z.of_nat k).
Proof. exact tq_spec. Qed.
Print Assumptions C12_times.

(* rows and node histories do not depend on Python's set iteration order (also used by C18) *)
Theorem C12_dsir_perm_indep : forall g tt pick ord1 ord2 i0 r0o tmin tmax full fuel1 fuel2,
  wf_inputb g i0 (opt_list r0o) = true -> perm_oracle ord1 -> perm_oracle ord2 ->
  (length (gnodes g) < fuel1)%nat -> (length (gnodes g) < fuel2)%nat ->
  exists out1 out2,
    discrete_SIR g (det_rules tt pick) None ord1 (Some i0) r0o None tmin tmax full fuel1 = Ret out1 /\
    discrete_SIR g (det_rules tt pick) None ord2 (Some i0) r0o None tmin tmax full fuel2 = Ret out2 /\
    so_rows (o_sim out1) = so_rows (o_sim out2) /\
    option_map fd_hist (so_full (o_sim out1)) = option_map fd_hist (so_full (o_sim out2)).
Proof. exact dsir_perm_indep. Qed.
Print Assumptions C12_dsir_perm_indep.

(* basic_discrete_SIR is discrete_SIR with the default rule and no recovery test *)
Theorem C12_basic_forwards :
  forall g p ord i0 r0 rho tmin tmax full fuel,
    basic_discrete_SIR g p ord i0 r0 rho tmin tmax full fuel =
    discrete_SIR g (simple_rules p) None ord i0 r0 rho tmin tmax full fuel.
Proof. exact basic_forwards. Qed.
Print Assumptions C12_basic_forwards.

(* ---- Bernoulli(p) coins: the one-step laws (law = distribution semantics of Base/Samp.v) ----
   One pass of discrete_SIR's double loop with the code's default rule (one `random.random() < p`
   per test; q = p clamped to [0,1]) started from the susceptible-map sus and the infectious
   nodes us (in ANY iteration order), with or without full data: the probability that the set
   of newly infected nodes is exactly A is
        prod over nodes v:  sus v,  v in A      1 - (1-q)^(m_v)
                            sus v,  v not in A  (1-q)^(m_v)
                            not sus v           [v not in A]
   with m_v = number of contacts (u,v), u in us, v neighbour of u  (= number of infectious
   neighbours of v, C12_contact_count).  This is the Reed-Frost transition probability. *)
Theorem C12_reedfrost_step_law : forall g p full A, NoDup (gnodes g) ->
  forall k age us sus nS ql,
  (forall u v, In u us -> In v (gadj g u) -> In v (gnodes g)) ->
  prob (new_is g A) (law (cloop (simple_rules p) full k age (contacts g us) (mkC sus [] [] nS ql))) ==
  prodQ (map (fun v => if sus v
                       then (if mem v A then 1 - qpow (1 - clamp01 p) (mcount (contacts g us) v)
                             else qpow (1 - clamp01 p) (mcount (contacts g us) v))
                       else (if mem v A then 0 else 1)) (gnodes g)).
Proof. exact reedfrost_step_law. Qed.
Print Assumptions C12_reedfrost_step_law.

(* the same for one pass of basic_discrete_SIS from the infectious set infs: every node outside
   infs is infected with probability 1 - (1-q)^(m_v), independently; the nodes of infs are
   not in the next generation *)
Theorem C12_sis_step_law : forall g p A, NoDup (gnodes g) ->
  forall k infs us ql,
  (forall u v, In u us -> In v (gadj g u) -> In v (gnodes g)) ->
  prob (sis_new_is g A) (law (sis_cloop (simple_rules p) k infs (contacts g us) [] [] ql)) ==
  prodQ (map (fun v => if mem v infs then (if mem v A then 0 else 1)
                       else (if mem v A then 1 - qpow (1 - clamp01 p) (mcount (contacts g us) v)
                             else qpow (1 - clamp01 p) (mcount (contacts g us) v))) (gnodes g)).
Proof. exact sis_step_law. Qed.
Print Assumptions C12_sis_step_law.

Theorem C12_contact_count : forall g us v, (forall u, In u us -> NoDup (gadj g u)) ->
  mcount (contacts g us) v = length (filter (fun u => mem v (gadj g u)) us).
Proof. exact mcount_contacts. Qed.
Print Assumptions C12_contact_count.

(* percolate_network: the probability that the kept edges are exactly those selected by sel is
   the product over the edges of G of p (kept) resp. 1-p (dropped): independent Bernoulli(p)
   per edge; the node set is that of G; the result is undirected with exactly the kept edges *)
Theorem C12_perc_law : forall p sel g, NoDup (gedges g) ->
  prob (kept_is sel (gedges g)) (law (perc_loop (simple_rules p) (gedges g) [] [])) ==
  prodQ (map (fun e => if sel e then clamp01 p else 1 - clamp01 p) (gedges g)).
Proof. exact perc_law. Qed.
Print Assumptions C12_perc_law.

Theorem C12_perc_graph : forall g p kept,
  percolate_network g p =
    bind (perc_loop (simple_rules p) (gedges g) [] []) (fun kq => Ret (perc_graph g (fst kq), snd kq)) /\
  gnodes (perc_graph g kept) = gnodes g /\
  (forall x y, In y (gadj (perc_graph g kept) x) <-> In (x, y) kept \/ In (y, x) kept).
Proof. intros g p kept. split; [apply percolate_unfold|]. split; [apply perc_nodes|]. intros x y. apply perc_adj_In. Qed.
Print Assumptions C12_perc_graph.

(* deferred decisions, pathwise: on a common symmetric table of coins (one coin per undirected
   edge) percolation_based_discrete_SIR -- which flips every coin first, builds H and runs
   discrete_SIR(H, H.has_edge) -- and basic_discrete_SIR -- which looks a coin up when the contact
   is tested -- return the same rows and the same node histories, for any two iteration orders.
   Equality IN LAW under independent Bernoulli(p) coins -- the principle of deferred decisions -- is
   PROVED in Props/C12law.v over the `law` semantics: C12_law_deferred / C12_law_deferred_full (the law of
   a whole run of basic_discrete_SIR = the law of flipping one coin per arc first and then running the
   deterministic simulator, for every event on the output), C12_perc_basic_rows_law (percolation-based and
   basic agree in law on every event of the rows), C12_sis_law_deferred (basic_discrete_SIS). *)
Theorem C12_perc_sir_pathwise : forall g tt pick ord1 ord2 i0 r0 tmin tmax full fuel1 fuel2,
  wf_inputb g i0 r0 = true -> sym_graphb g = true -> (forall u v, tt u v O = tt v u O) ->
  perm_oracle ord1 -> perm_oracle ord2 ->
  (length (gnodes g) < fuel1)%nat -> (length (gnodes g) < fuel2)%nat ->
  exists outB outP,
    basic_discrete_SIR_R g (det_rules tt pick) ord1 (Some i0) (Some r0) None tmin tmax full fuel1 = Ret outB /\
    percolation_based_discrete_SIR_R g (det_rules tt pick) ord2 (Some i0) (Some r0) None tmin tmax full fuel2 = Ret outP /\
    so_rows (o_sim outB) = so_rows (o_sim outP) /\
    option_map fd_hist (so_full (o_sim outB)) = option_map fd_hist (so_full (o_sim outP)).
Proof. exact perc_sir_pathwise. Qed.
Print Assumptions C12_perc_sir_pathwise.

(* ---- non-vacuity ---- *)
(* path 0 - 1 - 2 - 3 plus the chord 0 - 2; contact 0->2 fails, node 3 initially recovered *)
Definition ex_adj (u : node) : list node :=
  match u with 0%N => [1; 2]%N | 1%N => [0; 2]%N | 2%N => [1; 3; 0]%N | 3%N => [2]%N | _ => [] end.
Definition ex_g : graph := mkGraph [0; 1; 2; 3]%N ex_adj ex_adj false (fun _ _ => 1) (fun _ => 1) false false.
Definition ex_tt (u v : node) (_ : nat) : bool := negb (N.eqb u 0 && N.eqb v 2).
Definition ex_ord (k : nat) (l : list node) : list node := rev l.

Example C12_ex_wf : wf_inputb ex_g [0%N] [3%N] = true.
Proof. vm_compute. reflexivity. Qed.
Example C12_ex_ord : perm_oracle ex_ord.
Proof. intros k l. unfold ex_ord. apply Permutation_sym. apply Permutation_rev. Qed.
(* node 2 is reached through node 1 at distance 2 although it is a neighbour of node 0 *)
Example C12_ex_run :
  exists out, discrete_SIR ex_g (det_rules ex_tt (fun _ _ => O)) None ex_ord (Some [0%N]) (Some [3%N]) None 0 None true 5 = Ret out /\
    map snd (so_rows (o_sim out)) = [[2; 1; 1]; [1; 1; 2]; [0; 1; 3]; [0; 0; 4]]%Z /\
    option_map (fun f => map snd (fd_trans f)) (so_full (o_sim out)) = Some [0; 1; 2]%N.
Proof. eexists. split; [vm_compute; reflexivity|]. split; vm_compute; reflexivity. Qed.
(* the law statements are about non-trivial programs: two contacts into node 2 *)
Example C12_ex_law :
  prob (new_is ex_g [2%N]) (law (cloop (simple_rules (1#2)) false O (fun _ => O) (contacts ex_g [0; 1]%N)
                                  (mkC (fun v => N.eqb v 2 || N.eqb v 3) [] [] 2 []))) == 3 # 4.
Proof. vm_compute. reflexivity. Qed.
Example C12_ex_edges : gedges ex_g = [(0, 1); (0, 2); (1, 2); (2, 3)]%N /\ NoDup (gedges ex_g).
Proof. split; [vm_compute; reflexivity|]. apply nodupb_NoDup_pairs. vm_compute. reflexivity. Qed.
Definition ex_tts (u v : node) (_ : nat) : bool := negb ((N.eqb u 0 && N.eqb v 2) || (N.eqb u 2 && N.eqb v 0)).
Example C12_ex_sym : sym_graphb ex_g = true /\ (forall u v, ex_tts u v O = ex_tts v u O).
Proof. split; [vm_compute; reflexivity|]. intros u v. unfold ex_tts. rewrite orb_comm. rewrite (andb_comm (N.eqb u 2)), (andb_comm (N.eqb u 0)). reflexivity. Qed.
(* with full data the default rule draws more (the second test of an already infected target and
   random.choice): the discrete simulators are not flag-independent (used by C18) *)
Definition tri_adj (u : node) : list node :=
  match u with 0%N => [1; 2]%N | 1%N => [0; 2]%N | 2%N => [0; 1]%N | _ => [] end.
Definition tri : graph := mkGraph [0; 1; 2]%N tri_adj tri_adj false (fun _ _ => 1) (fun _ => 1) false false.
Example C12_ex_flag_dep :
  let ds := [1 # 4; 1 # 4; 0] in
  let runf (full : bool) := run (basic_discrete_SIR tri (1 # 2) (fun _ l => l) (Some [0; 1]%N) None None 0 None full 5) ds in
  length (snd (runf false)) = 1%nat /\ length (snd (runf true)) = 3%nat /\
  (exists o, fst (runf false) = Ok o) /\ (exists o, fst (runf true) = Ok o).
Proof. cbv zeta. split; [vm_compute; reflexivity|]. split; [vm_compute; reflexivity|]. split; eexists; vm_compute; reflexivity. Qed.
Print Assumptions C12_ex_flag_dep.
Print Assumptions C12_ex_sym.
Print Assumptions C12_ex_wf.
Print Assumptions C12_ex_ord.
Print Assumptions C12_ex_run.
Print Assumptions C12_ex_law.
Print Assumptions C12_ex_edges.
