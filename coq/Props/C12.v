(* C12 — discrete-time simulators follow Reed–Frost generations.
   Only statements, each closed by [exact] of a lemma from Proofs/DiscreteP.v. *)
From EoNV Require Import Prelude Samp Graph Discrete DiscreteP.

Theorem C12_basic_forwards :
  forall g p ord i0 r0 rho tmin tmax full fuel,
    basic_discrete_SIR g p ord i0 r0 rho tmin tmax full fuel =
    discrete_SIR g (simple_rules p) None ord i0 r0 rho tmin tmax full fuel.
Proof. exact basic_forwards. Qed.
Print Assumptions C12_basic_forwards.
