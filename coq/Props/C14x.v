(* C14 (proof side, extension) — results depend on network structure, not on node names or ordering:
   the node-level ODE systems (individual based / pair based SIS and SIR, Model/Rhs2D.v — the definitions
   that Props/C06-C08 `*_generated_*` prove equal to what translate/rhs2d2v.py regenerates from
   EoN/analytic.py on every run, and that are point-evaluated against the Python functions).

   Problem 1 = (G, nodelist, index_of_node = idx, trans_rate_fxn = tr, rec_rate_fxn = rc).
   Problem 2 = the same epidemic on a relabelled + re-ordered copy: nodes renamed by an injective phi, every
   adjacency list of G' a permutation of the renamed adjacency list of G (ANY order of G.neighbors(u)), the
   caller's nodelist = map phi nl2 for ANY re-ordering nl2 of nodelist, idx' the index map of that list, rates
   transported along phi.  All of this is the decidable predicate relabel_okb (Proofs/C14xDef.v).
   perm_state sys (C14xDef.v) is the relabelling action on state vectors: every per-node block and every
   N x N per-pair block re-read in the order nl2.  veq = pointwise equality of rationals.

   Statements only; proofs in Proofs/C14xRhs.v, C14xTop.v. *)
From EoNV Require Import Prelude Samp Graph Aux Vec IC Wrappers Rhs2D VecP EventSIR EventSIRP EventSIRInv EventSIRChar EventSIRTop Discrete DiscreteP EventSIS
     C14xDef C14xRhs C14xTop C14xRK C14xOut C14xWrap C14xSim C14xSis C14xIso C14xEx.
From Coq Require Import Permutation.

Section C14x.
Variables (G : graph) (nodelist : list node) (idx : node -> nat) (tr : node -> node -> Q) (rc : node -> Q).
Variables (G' : graph) (nl2 : list node) (phi : node -> node) (idx' : node -> nat) (tr' : node -> node -> Q) (rc' : node -> Q).
Hypothesis OK : relabel_okb G nodelist idx tr rc G' nl2 phi idx' tr' rc' = true.
Let R := relabel_okb_spec _ _ _ _ _ _ _ _ _ _ _ OK.

(* the vector field commutes with the relabelling action, for all four systems (sys = 0..3), at every state
   (also states outside [0,1], zero X_i: the guards `1/X if X != 0 else 0` are part of the model) *)
Theorem C14x_node_rhs_equivariant : forall sys V V' t, veq V' (perm_state idx nl2 sys V) ->
  veq (rhs2_node sys G' (map phi nl2) idx' tr' rc' V' t)
      (perm_state idx nl2 sys (rhs2_node sys G nodelist idx tr rc V t)).
Proof. exact (node_rhs_equivariant _ _ _ _ _ _ _ _ _ _ _ R). Qed.

(* its decidable form, the one that is extracted and evaluated on the Python functions (harness/c14x.py) *)
Theorem C14x_node_rhs_equivariant_b : forall sys V t,
  equivariant_at sys G nodelist idx tr rc G' nl2 phi idx' tr' rc' V t = true.
Proof. exact (fun sys V t => equivariant_at_true sys _ _ _ _ _ _ _ _ _ _ _ V t OK). Qed.

(* the aggregated series the entry points return (sums over the nodes of X, Y; S = N - sum Y for SIS and
   R = N - S - I follow) are invariant *)
Theorem C14x_node_outputs_invariant : forall sys V V' off,
  veq V' (perm_state idx nl2 sys V) -> In off (node_blocks sys (nN nodelist)) ->
  block_sum (nN nodelist) off V' == block_sum (nN nodelist) off V.
Proof. exact (node_outputs_invariant _ _ _ _ _ _ _ _ _ _ _ R). Qed.

(* ... and so are R = sum_i (1 - X_i - Y_i) of the SIR systems and S = sum_i (1 - Y_i) of the SIS systems *)
Theorem C14x_node_complement_outputs_invariant : forall sys V V', veq V' (perm_state idx nl2 sys V) ->
  (sys = 1%nat \/ sys = 3%nat ->
     sumn (nN nodelist) (fun i => 1 - vnth i V' - vnth (nN nodelist + i) V') ==
     sumn (nN nodelist) (fun i => 1 - vnth i V - vnth (nN nodelist + i) V)) /\
  (sys = 0%nat \/ sys = 2%nat -> sumn (nN nodelist) (fun i => 1 - vnth i V') == sumn (nN nodelist) (fun i => 1 - vnth i V)).
Proof. exact (node_complement_outputs_invariant _ _ _ _ _ _ _ _ _ _ _ R). Qed.

(* the initial vectors the entry points build (rho * ones; [1 if u in initial_infecteds else 0 ...] with the set
   renamed; X0 = 1 - Y0; XY0 = X0 x Y0 * A, XX0 = X0 x X0 * A with A the adjacency matrix in nodelist order) *)
Theorem C14x_y0_rho_equivariant : forall rho, veq (y0_rho (map phi nl2) rho) (blk1 idx nl2 0 (y0_rho nodelist rho)).
Proof. exact (y0_rho_equivariant _ _ _ _ _ _ _ _ _ _ _ R). Qed.
Theorem C14x_y0_set_equivariant : forall I0, incl I0 nodelist ->
  veq (y0_set (map phi nl2) (map phi I0)) (blk1 idx nl2 0 (y0_set nodelist I0)).
Proof. exact (y0_set_equivariant _ _ _ _ _ _ _ _ _ _ _ R). Qed.

(* the *_pure_IC entry points: X0 = [0 if u in initial_recovereds | initial_infecteds else 1 ...], Y0 as above, from the renamed sets *)
Theorem C14x_node_pure_IC_equivariant : forall sys I0 R0, incl I0 nodelist -> incl R0 nodelist ->
  veq (node_V0 sys G' (map phi nl2) (x0_sets (map phi nl2) (map phi I0) (map phi R0)) (y0_set (map phi nl2) (map phi I0)))
      (perm_state idx nl2 sys (node_V0 sys G nodelist (x0_sets nodelist I0 R0) (y0_set nodelist I0))).
Proof. exact (node_pure_IC_equivariant _ _ _ _ _ _ _ _ _ _ _ R). Qed.

(* (initial vector, vector field) of the relabelled problem = re-ordered (initial vector, vector field): the two
   initial-value problems are conjugate under the linear isomorphism perm_state.  [Cited, not formalised:
   Picard-Lindelof uniqueness then gives solution' (t) = perm_state (solution t) for the exact flows; the
   discrete statement for explicit Euler steps is PROVED below.] *)
Theorem C14x_node_problem_equivariant : forall sys X0 Y0 X0' Y0',
  length X0 = nN nodelist -> length Y0 = nN nodelist ->
  veq X0' (blk1 idx nl2 0 X0) -> veq Y0' (blk1 idx nl2 0 Y0) ->
  veq (node_V0 sys G' (map phi nl2) X0' Y0') (perm_state idx nl2 sys (node_V0 sys G nodelist X0 Y0)) /\
  (forall V V' t, veq V' (perm_state idx nl2 sys V) ->
     veq (rhs2_node sys G' (map phi nl2) idx' tr' rc' V' t) (perm_state idx nl2 sys (rhs2_node sys G nodelist idx tr rc V t))).
Proof. exact (node_problem_equivariant _ _ _ _ _ _ _ _ _ _ _ R). Qed.

(* solutions are mapped to solutions: a curve X with componentwise derivative dX satisfying dX(t) = rhs(X(t), t) in problem 1
   gives, re-ordered, a curve satisfying it in problem 2 (its componentwise derivative is the re-ordered dX: differentiation
   is linear).  With uniqueness of solutions (cited) this is solution' = perm_state solution. *)
Theorem C14x_node_maps_solutions_to_solutions : forall sys X dX,
  solves (rhs2_node sys G nodelist idx tr rc) X dX ->
  solves (rhs2_node sys G' (map phi nl2) idx' tr' rc') (fun t => perm_state idx nl2 sys (X t)) (fun t => perm_state idx nl2 sys (dX t)).
Proof. exact (node_maps_solutions_to_solutions _ _ _ _ _ _ _ _ _ _ _ R). Qed.

(* whole discrete solutions: k explicit Euler steps of any size h from re-ordered initial data give, block by
   block, the re-ordered Euler solution; and their aggregated outputs coincide *)
Theorem C14x_node_euler_equivariant : forall sys h k t V V',
  length V = state_len sys (nN nodelist) -> length V' = state_len sys (nN nodelist) ->
  state_rel nodelist idx nl2 sys V V' ->
  state_rel nodelist idx nl2 sys (euler (rhs2_node sys G nodelist idx tr rc) h t k V)
                                 (euler (rhs2_node sys G' (map phi nl2) idx' tr' rc') h t k V').
Proof. exact (node_euler_equivariant_rel _ _ _ _ _ _ _ _ _ _ _ R). Qed.
Theorem C14x_node_euler_outputs_invariant : forall sys h k t V V' off,
  length V = state_len sys (nN nodelist) -> veq V' (perm_state idx nl2 sys V) -> In off (node_blocks sys (nN nodelist)) ->
  block_sum (nN nodelist) off (euler (rhs2_node sys G' (map phi nl2) idx' tr' rc') h t k V') ==
  block_sum (nN nodelist) off (euler (rhs2_node sys G nodelist idx tr rc) h t k V).
Proof. exact (node_euler_outputs_invariant _ _ _ _ _ _ _ _ _ _ _ R). Qed.
(* ... and so do the discrete solutions of EVERY explicit Runge-Kutta method (any tableau tab / weights b, any step size h,
   any number of steps k; Euler = ([(0, [])], [1]), classical RK4 = (rk4_tab, rk4_b)): block-by-block re-ordering, and equal
   aggregated outputs *)
Theorem C14x_node_runge_kutta_equivariant : forall sys tab b h k t V V',
  length V = state_len sys (nN nodelist) -> veq V' (perm_state idx nl2 sys V) ->
  state_rel nodelist idx nl2 sys (rk_iter tab b (rhs2_node sys G nodelist idx tr rc) h t k V)
                                 (rk_iter tab b (rhs2_node sys G' (map phi nl2) idx' tr' rc') h t k V') /\
  (forall off, In off (node_blocks sys (nN nodelist)) ->
     block_sum (nN nodelist) off (rk_iter tab b (rhs2_node sys G' (map phi nl2) idx' tr' rc') h t k V') ==
     block_sum (nN nodelist) off (rk_iter tab b (rhs2_node sys G nodelist idx tr rc) h t k V)).
Proof. exact (fun sys => rk_solution_equivariant _ _ _ _ _ _ _ _ _ _ _ R sys). Qed.
End C14x.

(* the two special cases, with their own (weaker) hypotheses *)
(* 1. the order in which G.neighbors(u) lists the neighbours does not matter (same labels, same nodelist) *)
Theorem C14x_adjacency_order_irrelevant : forall G nodelist idx tr rc G' sys V t,
  nl_wfb G nodelist idx = true ->
  (forall u, In u nodelist -> Permutation (gadj G' u) (gadj G u)) ->
  veq (rhs2_node sys G' nodelist idx tr rc V t) (rhs2_node sys G nodelist idx tr rc V t).
Proof. exact (fun G nodelist idx tr rc G' sys V t W => adjacency_order_irrelevant G nodelist idx tr rc W G' sys V t). Qed.
(* 2. any re-ordering nl2 of nodelist with its own index_of_node re-orders the right-hand side accordingly *)
Theorem C14x_nodelist_order_equivariant : forall G nodelist idx tr rc nl2 idx2 sys V V' t,
  nl_wfb G nodelist idx = true ->
  Permutation nl2 nodelist -> (forall i, (i < nN nodelist)%nat -> idx2 (node_at nl2 i) = i) ->
  veq V' (perm_state idx nl2 sys V) ->
  veq (rhs2_node sys G nl2 idx2 tr rc V' t) (perm_state idx nl2 sys (rhs2_node sys G nodelist idx tr rc V t)).
Proof. exact (fun G nodelist idx tr rc nl2 idx2 sys V V' t W => nodelist_order_equivariant G nodelist idx tr rc W nl2 idx2 sys V V' t). Qed.

(* non-vacuity: a triangle with a pendant node, labels 10..40 renamed by u -> 100 - u, adjacency lists and nodelist
   re-ordered, direction-dependent rates: the hypotheses hold, the action is not the identity, the field is not zero;
   and with positional indices on the relabelled side (a label-as-index slip) both relabel_okb and the commutation fail *)
Example C14x_hypotheses_satisfiable :
  relabel_okb exG ex_nodelist ex_idx ex_tr ex_rc exG' ex_nl2 ex_phi ex_idx' ex_tr' ex_rc' = true.
Proof. exact ex_relabel_ok. Qed.
Example C14x_action_nontrivial : veqb (perm_state ex_idx ex_nl2 3 (ex_V 3)) (ex_V 3) = false.
Proof. exact ex_action_nontrivial. Qed.
Example C14x_field_nonzero :
  existsb (fun x => negb (Qeqb x 0)) (rhs2_node 3 exG ex_nodelist ex_idx ex_tr ex_rc (ex_V 3) 0) = true.
Proof. exact ex_field_nonzero. Qed.
Example C14x_label_as_index_refused :
  relabel_okb exG ex_nodelist ex_idx ex_tr ex_rc exG' ex_nl2 ex_phi (fun u => ex_idx (100 - u)%N) ex_tr' ex_rc' = false /\
  equivariant_at 0 exG ex_nodelist ex_idx ex_tr ex_rc exG' ex_nl2 ex_phi (fun u => ex_idx (100 - u)%N) ex_tr' ex_rc' (ex_V 0) 0 = false.
Proof. exact (conj ex_wrong_index_refused ex_wrong_index_not_equivariant). Qed.
Example C14x_rk4_moves :
  veqb (rk_iter rk4_tab rk4_b (rhs2_node 0 exG ex_nodelist ex_idx ex_tr ex_rc) (1 # 10) 0 1 (ex_V 0)) (ex_V 0) = false.
Proof. exact ex_rk4_moves. Qed.
Example C14x_wf_satisfiable : nl_wfb exG ex_nodelist ex_idx = true.
Proof. exact ex_wf. Qed.

(* ====================================================================== *)
(* degree-based ODE models: every *_from_graph wrapper of Model/Wrappers.v   *)
(* ====================================================================== *)
(* g' is an isomorphic copy of g under the injective renaming phi: G.nodes() in any order, every adjacency list in
   any order (hence G.edges() in any order and orientation: see C14x_iso_edges_differ); the request
   (initial_infecteds, initial_recovereds, rho) is renamed along phi (map_req).  Both graphs simple, undirected. *)
Section C14x_wrappers.
Variables (g g' : graph) (phi : node -> node).
Hypothesis WG : wf_ugraph g = true.
Hypothesis WG' : wf_ugraph g' = true.
Hypothesis Hinj : forall u v, phi u = phi v -> u = v.
Hypothesis Hnodes : Permutation (gnodes g') (map phi (gnodes g)).
Hypothesis Hadj : forall u, In u (gnodes g) -> Permutation (gadj g' (phi u)) (map phi (gadj g u)).

(* the quantities the wrappers read off the graph *)
Theorem C14x_initialize_node_status_equivariant : forall I0 R0,
  match initialize_node_status g' (map phi I0) (option_map (map phi) R0), initialize_node_status g I0 R0 with
  | Ok st', Ok st => forall u, st' (phi u) = st u
  | Err e', Err e => e' = e
  | _, _ => False
  end.
Proof. exact (iso_initialize_node_status g g' phi Hinj Hnodes). Qed.
Theorem C14x_count_edge_types_invariant : forall st st', (forall u, st' (phi u) = st u) ->
  let c' := count_edge_types_st g' st' in let c := count_edge_types_st g st in
  fst (fst c') == fst (fst c) /\ snd (fst c') == snd (fst c) /\ snd c' == snd c.
Proof. exact (iso_count_edge_types g g' phi WG WG' Hnodes Hadj). Qed.
Theorem C14x_symmetric_edge_sum_invariant : forall F F', (forall u v, F u v == F v u) -> (forall u v, F' u v == F' v u) ->
  (forall u v, F' (phi u) (phi v) == F u v) -> esum g' F' == esum g F.
Proof. exact (esum_iso g g' phi WG WG' Hnodes Hadj). Qed.
Theorem C14x_degree_distribution_invariant :
  (forall k, Pk (degseq g') k = Pk (degseq g) k) /\ mean_degree g' == mean_degree g /\
  (forall f f', (forall k, f' k == f k) -> sumPk g' f' == sumPk g f) /\ Ks_of g' = Ks_of g /\ classes g' = classes g.
Proof.
  exact (conj (iso_Pk g g' phi Hnodes Hadj) (conj (iso_mean_degree g g' phi Hnodes Hadj)
        (conj (iso_sumPk g g' phi Hnodes Hadj) (conj (iso_Ks g g' phi Hnodes Hadj) (iso_classes g g' phi Hnodes Hadj))))).
Qed.
Theorem C14x_get_Nk_and_IC_invariant : forall rq sir, get_Nk_and_IC g' (map_req phi rq) sir = get_Nk_and_IC g rq sir.
Proof. exact (iso_get_Nk_and_IC g g' phi Hinj Hnodes Hadj). Qed.
Theorem C14x_get_NkNl_and_IC_invariant : forall rq,
  req nknl_eq (get_NkNl_and_IC g' (map_req phi rq)) (get_NkNl_and_IC g rq).
Proof. exact (iso_get_NkNl_and_IC g g' phi WG WG' Hinj Hnodes Hadj). Qed.
Theorem C14x_neighbour_counts_invariant : forall p p' u, (forall v, p' (phi v) = p v) -> In u (gnodes g) ->
  nbr_count g' p' (phi u) = nbr_count g p u.
Proof. exact (iso_nbr_count g g' phi Hadj). Qed.

(* the degree-distribution helpers get_Pk / get_PGF / get_PGFPrime / get_PGFDPrime / estimate_R0 / get_Pnk (Model/Aux.v) *)
Theorem C14x_degree_helpers_invariant :
  (forall x, psi (degseq g') x = psi (degseq g) x /\ psiP (degseq g') x = psiP (degseq g) x /\ psiDP (degseq g') x = psiDP (degseq g) x) /\
  (forall T, estimate_R0 (degseq g') T = estimate_R0 (degseq g) T) /\
  (forall k1 k2, Pnk (nd_of g') k1 k2 == Pnk (nd_of g) k1 k2).
Proof. exact (conj (iso_psi g g' phi Hnodes Hadj) (conj (iso_estimate_R0 g g' phi Hnodes Hadj) (iso_Pnk g g' phi WG Hnodes Hadj))). Qed.

(* whole outputs.  All 17 modelled entry points, every request (also malformed ones: the same error), full data or not,
   every solver that is a function of the numbers it is given: the same error, or outputs with the same series names whose
   values are equal rationals at every time index (per degree class and per pair of classes too) *)
Theorem C14x_wrapper_outputs_invariant : forall sv, solver_proper sv -> forall e rq full,
  req oeq (run_entry e g' (map_req phi rq) full sv) (run_entry e g rq full sv).
Proof. exact (iso_run_entry g g' phi WG WG' Hinj Hnodes Hadj). Qed.
(* the six wrappers whose solver arguments are counts: literally identical outputs, for EVERY solver *)
Theorem C14x_wrapper_outputs_identical : forall e rq full sv, In e [eSISm; eSIRm; eSIShm; eSIRhm; eSISed; eSIRed] ->
  run_entry e g' (map_req phi rq) full sv = run_entry e g rq full sv.
Proof. exact (iso_run_entry_eq g g' phi Hinj Hnodes Hadj). Qed.
(* row 0, over the function that is extracted and compared with the code (component ic) *)
Theorem C14x_wrapper_row0_invariant : forall e rq full,
  req row0_eq (row0_entry e g' (map_req phi rq) full) (row0_entry e g rq full).
Proof. exact (iso_row0_entry g g' phi WG WG' Hinj Hnodes Hadj). Qed.
End C14x_wrappers.

(* the decidable form of the isomorphism hypotheses, for graphs on 0..n-1 and a renaming given as a table (extended by the
   identity): it is extracted and applied by harness/c14x.py to the relabelled copies the numerical halves of the check build *)
Theorem C14x_iso_okb_sound : forall g g' tbl, iso_okb g g' tbl = true ->
  (forall u v, phi_of tbl u = phi_of tbl v -> u = v) /\
  Permutation (gnodes g') (map (phi_of tbl) (gnodes g)) /\
  (forall u, In u (gnodes g) -> Permutation (gadj g' (phi_of tbl u)) (map (phi_of tbl) (gadj g u))).
Proof. exact iso_okb_spec. Qed.

(* non-vacuity: the triangle-with-pendant graph and its copy under u -> 100 - u with other node / adjacency order;
   G.edges() differs in order and orientation; an explicit-set SIR request produces a non-empty output on both *)
Example C14x_iso_hypotheses_satisfiable :
  wf_ugraph exG = true /\ wf_ugraph exG' = true /\ (forall u v, ex_phi_g u = ex_phi_g v -> u = v) /\
  Permutation (gnodes exG') (map ex_phi_g (gnodes exG)) /\
  (forall u, In u (gnodes exG) -> Permutation (gadj exG' (ex_phi_g u)) (map ex_phi_g (gadj exG u))).
Proof. exact (conj (proj1 ex_iso_wf) (conj (proj2 ex_iso_wf) (conj ex_phi_g_inj (conj ex_iso_nodes ex_iso_adj)))). Qed.
Example C14x_iso_edges_differ :
  gedges exG = [(10, 20); (10, 30); (20, 30); (20, 40)]%N /\ gedges exG' = [(60, 80); (90, 70); (90, 80); (70, 80)]%N.
Proof. exact ex_iso_edges_differ. Qed.
Example C14x_iso_output_nontrivial :
  match row0_entry eSIRp exG ex_rq true, row0_entry eSIRp exG' (map_req ex_phi_g ex_rq) true with
  | Ok a, Ok b => negb (Nat.eqb (length a) 0) && Nat.eqb (length a) (length b)
  | _, _ => false
  end = true.
Proof. exact ex_iso_output_nontrivial. Qed.

(* ====================================================================== *)
(* simulators driven by deterministic user rules                           *)
(* ====================================================================== *)
(* corollaries of the C12 / C11 characterisations (Props/C12.v C12_dsir_bfs, Props/C11.v esir_first_passage).
   g' is a copy of g under the injective renaming phi: node list and every adjacency list in any order (directed graphs
   allowed: gadj = successors); the initial sets are handed over in any order; the rule tables are transported along phi. *)
Section C14x_simulators.
Variables (g g' : graph) (phi : node -> node).
Hypothesis Hinj : forall u v, phi u = phi v -> u = v.
Hypothesis Hnodes : Permutation (gnodes g') (map phi (gnodes g)).
Hypothesis Hadj : forall u, In u (gnodes g) -> Permutation (gadj g' (phi u)) (map phi (gadj g u)).
Variables (i0 i0' r0 r0' : list node).
Hypothesis Hi0 : Permutation i0' (map phi i0).
Hypothesis Hr0 : Permutation r0' (map phi r0).

(* breadth-first generations / shortest-path costs are preserved *)
Theorem C14x_bfs_generations_preserved : forall tt tt', (forall u v, tt' (phi u) (phi v) O = tt u v O) ->
  forall v n, bfs_dist g' (T0 tt') i0' r0' (phi v) n <-> bfs_dist g (T0 tt) i0 r0 v n.
Proof. exact (bfs_iff g g' phi Hinj Hnodes Hadj i0 i0' r0 r0' Hi0 Hr0). Qed.
Theorem C14x_delay_paths_preserved : forall delay delay' dur dur',
  (forall u v, delay' (phi u) (phi v) = delay u v) -> (forall u, dur' (phi u) = dur u) ->
  forall v c, hpath g' delay' dur' i0' r0' (phi v) c <-> hpath g delay dur i0 r0 v c.
Proof. exact (hpath_iff g g' phi Hinj Hnodes Hadj i0 i0' r0 r0' Hi0 Hr0). Qed.

(* discrete_SIR with a table transmission test (initial_recovereds None or a list), ANY two set-iteration orders and pick rules: identical rows; in full-data
   mode the per-node histories of the copy are the per-node histories of the original mapped through phi *)
Theorem C14x_discrete_SIR_relabel_invariant : forall tt tt', (forall u v, tt' (phi u) (phi v) O = tt u v O) ->
  wf_inputb g i0 r0 = true ->
  forall r0o r0o' pick pick' ord ord' tmin tmax full fuel fuel',
  opt_list r0o = r0 -> opt_list r0o' = r0' ->
  perm_oracle ord -> perm_oracle ord' -> (length (gnodes g) < fuel)%nat -> (length (gnodes g') < fuel')%nat ->
  exists out out',
    discrete_SIR g (det_rules tt pick) None ord (Some i0) r0o None tmin tmax full fuel = Ret out /\
    discrete_SIR g' (det_rules tt' pick') None ord' (Some i0') r0o' None tmin tmax full fuel' = Ret out' /\
    so_rows (o_sim out') = so_rows (o_sim out) /\
    (if full then exists h h', option_map fd_hist (so_full (o_sim out)) = Some h /\ option_map fd_hist (so_full (o_sim out')) = Some h' /\
                               Permutation h' (relabel_hist phi h)
     else so_full (o_sim out) = None /\ so_full (o_sim out') = None).
Proof. exact (dsir_relabel_invariant g g' phi Hinj Hnodes Hadj i0 i0' r0 r0' Hi0 Hr0). Qed.

(* the copy is inside the simulators' domains as soon as the original is *)
Theorem C14x_sim_domains_transported :
  (wf_inputb g i0 r0 = true -> wf_inputb g' i0' r0' = true) /\
  (forall delay delay' dur dur', (forall u v, delay' (phi u) (phi v) = delay u v) -> (forall u, dur' (phi u) = dur u) ->
   forall tmin tmax, esir_okb g delay dur i0 r0 tmin tmax = true -> esir_okb g' delay' dur' i0' r0' tmin tmax = true).
Proof.
  exact (conj (wf_inputb_iso g g' phi Hinj Hnodes Hadj i0 i0' r0 r0' Hi0 Hr0)
              (esir_okb_iso g g' phi Hinj Hnodes Hadj i0 i0' r0 r0' Hi0 Hr0)).
Qed.

(* fast_nonMarkov_SIR with tables of delays / durations, ANY two tie policies of the priority queue: who is infected,
   every infection time, every recovery time and every final status are mapped through phi (the outputs are built from
   tlog, rect, stat: C11 esir_det_transmissions / esir_det_full) *)
Theorem C14x_fast_nonMarkov_SIR_relabel_invariant : forall delay delay' dur dur',
  (forall u v, delay' (phi u) (phi v) = delay u v) -> (forall u, dur' (phi u) = dur u) ->
  forall tb tb' tmin tmax fuel fuel',
  esir_okb g delay dur i0 r0 tmin tmax = true ->
  (esir_fuel g i0 <= fuel)%nat -> (esir_fuel g' i0' <= fuel')%nat ->
  exists sF sF',
    esir_run tb g delay dur i0 r0 tmin tmax fuel = Ok sF /\
    esir_run tb' g' delay' dur' i0' r0' tmin tmax fuel' = Ok sF' /\
    (forall v, infd (tlog sF') (phi v) <-> infd (tlog sF) v) /\
    (forall v t a t' a', In (t, a, v) (tlog sF) -> In (t', a', phi v) (tlog sF') ->
        t' == t /\ (exists r r', rect sF v = Some r /\ rect sF' (phi v) = Some r' /\
                                 match r, r' with Some x, Some x' => x' == x | None, None => True | _, _ => False end)) /\
    (forall v, stat sF' (phi v) = stat sF v).
Proof. exact (esir_relabel_invariant g g' phi Hinj Hnodes Hadj i0 i0' r0 r0' Hi0 Hr0). Qed.
(* ... and at the level of what fast_nonMarkov_SIR returns with return_full_data=True: transmissions() of the copy lists exactly
   the renamed nodes, each with the same infection time *)
Theorem C14x_fast_nonMarkov_SIR_transmissions_invariant : forall delay delay' dur dur',
  (forall u v, delay' (phi u) (phi v) = delay u v) -> (forall u, dur' (phi u) = dur u) ->
  forall tb tb' tmin tmax fuel fuel',
  esir_okb g delay dur i0 r0 tmin tmax = true ->
  (esir_fuel g i0 <= fuel)%nat -> (esir_fuel g' i0' <= fuel')%nat ->
  exists o cs o' cs' hs hs' trs trs',
    esir_det tb g delay dur i0 r0 tmin tmax true fuel = Ok (o, cs) /\
    esir_det tb' g' delay' dur' i0' r0' tmin tmax true fuel' = Ok (o', cs') /\
    so_full o = Some (mkFull hs trs) /\ so_full o' = Some (mkFull hs' trs') /\
    (forall v, (exists t a, In (t, a, phi v) trs') <-> (exists t a, In (t, a, v) trs)) /\
    (forall v t a t' a', In (t, a, v) trs -> In (t', a', phi v) trs' -> t' == t).
Proof. exact (esir_transmissions_relabel_invariant g g' phi Hinj Hnodes Hadj i0 i0' r0 r0' Hi0 Hr0). Qed.
End C14x_simulators.

(* fast_nonMarkov_SIS with tables dur v k / delays v w k (k = infection ordinal): corollary of C13 nmsis_refines and of the
   equivariance of the reference agenda semantics, proved here (Proofs/C14xSis.v: the neighbours' events enter the agenda in
   another order; with all event times distinct the sorted agenda is the same).  Whenever the reference run on the original is
   inside its domain (second component true: all event times distinct) the simulator returns on the copy -- adjacency lists
   in ANY order, node list in any order, initial nodes renamed in the same order -- the same rows, transmissions() renamed
   entry by entry, and the per-node histories mapped through phi. *)
Theorem C14x_fast_nonMarkov_SIS_relabel_invariant :
  forall (g g' : graph) (phi : node -> node) dur dur' delays delays' tmax,
  (forall u v, phi u = phi v -> u = v) ->
  Permutation (gnodes g') (map phi (gnodes g)) ->
  (forall u, Permutation (gadj g' (phi u)) (map phi (gadj g u))) ->
  (forall u k, dur' (phi u) k = dur u k) -> (forall u v k, delays' (phi u) (phi v) k = delays u v k) ->
  forall tmin full fuel i0 out,
  xlt tmin tmax = true -> ref_sis g dur delays tmax tmin full fuel i0 = Ok (out, true) ->
  exists out',
    nm_run g dur delays tmax tmin full (length i0 + fuel) i0 = Ok out /\
    nm_run g' dur' delays' tmax tmin full (length i0 + fuel) (map phi i0) = Ok out' /\
    out_rel phi out out'.
Proof. exact nmsis_relabel_invariant. Qed.
Theorem C14x_reference_SIS_equivariant :
  forall (g g' : graph) (phi : node -> node) dur dur' delays delays' tmax,
  (forall u v, phi u = phi v -> u = v) ->
  Permutation (gnodes g') (map phi (gnodes g)) ->
  (forall u, Permutation (gadj g' (phi u)) (map phi (gadj g u))) ->
  (forall u k, dur' (phi u) k = dur u k) -> (forall u v k, delays' (phi u) (phi v) k = delays u v k) ->
  forall tmin full fuel i0 out,
  ref_sis g dur delays tmax tmin full fuel i0 = Ok (out, true) ->
  exists out', ref_sis g' dur' delays' tmax tmin full fuel (map phi i0) = Ok (out', true) /\ out_rel phi out out'.
Proof. exact ref_sis_equivariant. Qed.
Example C14x_sis_hypotheses_satisfiable :
  (forall u, Permutation (gadj exG' (ex_phi_g u)) (map ex_phi_g (gadj exG u))) /\
  ((forall u k, ex_sdur' (ex_phi_g u) k = ex_sdur u k) /\ (forall u v k, ex_sdel' (ex_phi_g u) (ex_phi_g v) k = ex_sdel u v k)) /\
  match ref_sis exG ex_sdur ex_sdel (Some 3) 0 true 400 [10%N] with
  | Ok (out, ok) => ok && Nat.ltb 6 (length (so_rows out))
  | Err _ => false
  end = true.
Proof. exact (conj ex_iso_adj_all (conj ex_srules_transported ex_ref_sis_in_domain)). Qed.

(* non-vacuity: the graph pair of C14x_iso_hypotheses_satisfiable with I0 = {10}, R0 = {40}, a contact table that blocks
   30 -> 20 and a delay table in which 10 -> 20 is too slow: both domains hold on both sides, the tables are transported,
   and the epidemics are not trivial (three rows; three infections) *)
Example C14x_sim_hypotheses_satisfiable :
  (forall u v, ex_tt' (ex_phi_g u) (ex_phi_g v) O = ex_tt u v O) /\
  (forall u v, ex_delay' (ex_phi_g u) (ex_phi_g v) = ex_delay u v) /\ (forall u, ex_dur' (ex_phi_g u) = ex_dur u) /\
  (Permutation [90%N] (map ex_phi_g [10%N]) /\ Permutation [60%N] (map ex_phi_g [40%N])) /\
  (wf_inputb exG [10%N] [40%N] = true /\ wf_inputb exG' [90%N] [60%N] = true /\
   esir_okb exG ex_delay ex_dur [10%N] [40%N] (1#2) (Some 9) = true /\ esir_okb exG' ex_delay' ex_dur' [90%N] [60%N] (1#2) (Some 9) = true).
Proof. exact (conj ex_tt_transported (conj ex_delay_transported (conj ex_dur_transported (conj ex_sets ex_sim_domains)))). Qed.
Example C14x_sim_nontrivial :
  (match discrete_SIR exG (det_rules ex_tt (fun _ _ => O)) None (fun _ l => l) (Some [10%N]) (Some [40%N]) None 0 None false 10 with
   | Ret out => length (so_rows (o_sim out)) | _ => O end = 3%nat) /\
  (match esir_run fifo exG ex_delay ex_dur [10%N] [40%N] (1#2) (Some 9) (esir_fuel exG [10%N]) with
   | Ok s => length (tlog s) | Err _ => O end = 3%nat).
Proof. exact ex_sim_nontrivial. Qed.

Print Assumptions C14x_node_rhs_equivariant.
Print Assumptions C14x_node_rhs_equivariant_b.
Print Assumptions C14x_node_outputs_invariant.
Print Assumptions C14x_node_complement_outputs_invariant.
Print Assumptions C14x_y0_rho_equivariant.
Print Assumptions C14x_y0_set_equivariant.
Print Assumptions C14x_node_problem_equivariant.
Print Assumptions C14x_node_pure_IC_equivariant.
Print Assumptions C14x_node_maps_solutions_to_solutions.
Print Assumptions C14x_node_euler_equivariant.
Print Assumptions C14x_node_euler_outputs_invariant.
Print Assumptions C14x_node_runge_kutta_equivariant.
Print Assumptions C14x_rk4_moves.
Print Assumptions C14x_adjacency_order_irrelevant.
Print Assumptions C14x_nodelist_order_equivariant.
Print Assumptions C14x_hypotheses_satisfiable.
Print Assumptions C14x_action_nontrivial.
Print Assumptions C14x_field_nonzero.
Print Assumptions C14x_label_as_index_refused.
Print Assumptions C14x_wf_satisfiable.
Print Assumptions C14x_initialize_node_status_equivariant.
Print Assumptions C14x_count_edge_types_invariant.
Print Assumptions C14x_symmetric_edge_sum_invariant.
Print Assumptions C14x_degree_distribution_invariant.
Print Assumptions C14x_get_Nk_and_IC_invariant.
Print Assumptions C14x_get_NkNl_and_IC_invariant.
Print Assumptions C14x_neighbour_counts_invariant.
Print Assumptions C14x_degree_helpers_invariant.
Print Assumptions C14x_wrapper_outputs_invariant.
Print Assumptions C14x_wrapper_outputs_identical.
Print Assumptions C14x_wrapper_row0_invariant.
Print Assumptions C14x_iso_okb_sound.
Print Assumptions C14x_iso_hypotheses_satisfiable.
Print Assumptions C14x_iso_edges_differ.
Print Assumptions C14x_iso_output_nontrivial.
Print Assumptions C14x_bfs_generations_preserved.
Print Assumptions C14x_delay_paths_preserved.
Print Assumptions C14x_discrete_SIR_relabel_invariant.
Print Assumptions C14x_sim_domains_transported.
Print Assumptions C14x_fast_nonMarkov_SIR_relabel_invariant.
Print Assumptions C14x_fast_nonMarkov_SIR_transmissions_invariant.
Print Assumptions C14x_fast_nonMarkov_SIS_relabel_invariant.
Print Assumptions C14x_reference_SIS_equivariant.
Print Assumptions C14x_sis_hypotheses_satisfiable.
Print Assumptions C14x_sim_hypotheses_satisfiable.
Print Assumptions C14x_sim_nontrivial.
