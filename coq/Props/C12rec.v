(* C12, runs of discrete_SIR WITH a user recovery test (test_recovery given):
   "a node is infected at tmin plus its breadth-first distance from the initially infected set in
    the directed graph of successful contacts (initially recovered nodes removed), is infectious
    for exactly one step UNLESS A USER RECOVERY TEST KEEPS IT LONGER, and S+I+R stays N."
   Only statements, each closed by [exact] of a lemma of Proofs/DiscreteBfsRec.v /
   Proofs/DiscreteBfsRecRun.v, over the definitions of Model/Discrete.v.

   Scope: every graph with wf_inputb, every transmission table tt that is a function of the
   contact only (age_indep tt: tt u v a = tt u v 0; T u v := tt u v 0), EVERY recovery test
   f : node -> number of completed tests -> bool, every permutation oracle (Python's set order),
   tmin, tmax, both return modes, EVERY fuel.  With a recovery test termination is not
   guaranteed (a test that never succeeds, tmax = None): the theorem is the dichotomy
   "fuel exhausted and no stop index within the fuel" / "returns after K <= fuel steps".
   The pure sequence the run is compared to (Proofs/DiscreteBfsRec.v):
     Sg k  : susceptible set of the generation process WITHOUT recovery test (DiscreteP.gen),
     Jr k  : infectious set after k steps,  ag k u : completed tests of u,  Rr k : the R count,
     rrow k = (tq tmin k, [|Sg k|; |Jr k|; Rr k]),  events_r / hist_r : the node histories,
     stopr k = (Jr k empty or tq tmin k >= tmax);  first_stop_r K = K is the first stop index.
   Their meaning in terms of breadth-first distance is C12rec_rows / _levels / _infectious /
   _history below: (a)-(d) of the property. *)
From EoNV Require Import Prelude Samp Graph Discrete DiscreteP DiscreteC05 DiscreteBfsRec DiscreteBfsRecRun.
From Coq Require Import Permutation.

(* the run: for every fuel, either the fuel is exhausted and no step index j <= fuel is a stop
   index, or the run returns after K <= fuel steps, K the first stop index, with rows
   rrow 0 .. rrow K and (full data) node histories hist_r K *)
Theorem C12rec_dsir_bfs : forall g tt pick f ord i0 r0o tmin tmax full fuel,
  let r0 := opt_list r0o in
  wf_inputb g i0 r0 = true -> perm_oracle ord -> age_indep tt ->
  (discrete_SIR g (det_rules tt pick) (Some f) ord (Some i0) r0o None tmin tmax full fuel = Fail OutOfFuel /\
   forall j, (j <= fuel)%nat -> stopr g tt f i0 r0 tmin tmax j = false) \/
  exists K out, first_stop_r g tt f i0 r0 tmin tmax K /\ (K <= fuel)%nat /\
    discrete_SIR g (det_rules tt pick) (Some f) ord (Some i0) r0o None tmin tmax full fuel = Ret out /\
    so_rows (o_sim out) = map (rrow g tt f i0 r0 tmin) (seq 0 (S K)) /\
    (if full then exists tr, so_full (o_sim out) = Some (mkFull (hist_r g tt f i0 r0 tmin tmax full K) tr)
     else so_full (o_sim out) = None).
Proof. exact dsir_bfs_rec. Qed.
Print Assumptions C12rec_dsir_bfs.

(* the same with "the run returns" as a hypothesis *)
Theorem C12rec_dsir_bfs_ret : forall g tt pick f ord i0 r0o tmin tmax full fuel out,
  let r0 := opt_list r0o in
  wf_inputb g i0 r0 = true -> perm_oracle ord -> age_indep tt ->
  discrete_SIR g (det_rules tt pick) (Some f) ord (Some i0) r0o None tmin tmax full fuel = Ret out ->
  exists K, first_stop_r g tt f i0 r0 tmin tmax K /\ (K <= fuel)%nat /\
    so_rows (o_sim out) = map (rrow g tt f i0 r0 tmin) (seq 0 (S K)) /\
    (if full then exists tr, so_full (o_sim out) = Some (mkFull (hist_r g tt f i0 r0 tmin tmax full K) tr)
     else so_full (o_sim out) = None).
Proof. exact dsir_bfs_rec_ret. Qed.
Print Assumptions C12rec_dsir_bfs_ret.

(* fuel exhaustion happens for no other reason: fuel >= the first stop index suffices *)
Theorem C12rec_enough_fuel : forall g tt pick f ord i0 r0o tmin tmax full fuel K,
  let r0 := opt_list r0o in
  wf_inputb g i0 r0 = true -> perm_oracle ord -> age_indep tt ->
  first_stop_r g tt f i0 r0 tmin tmax K -> (K <= fuel)%nat ->
  exists out, discrete_SIR g (det_rules tt pick) (Some f) ord (Some i0) r0o None tmin tmax full fuel = Ret out.
Proof. exact dsir_rec_enough_fuel. Qed.
Print Assumptions C12rec_enough_fuel.

(* (a) K + 1 rows, row k at time tq tmin k (= tmin + k, C12_times), S_k + I_k + R_k = N *)
Theorem C12rec_rows : forall g tt f i0 r0 tmin, wf_inputb g i0 r0 = true -> forall K,
  length (map (rrow g tt f i0 r0 tmin) (seq 0 (S K))) = S K /\
  forall k, (k <= K)%nat ->
    nth_error (map (rrow g tt f i0 r0 tmin) (seq 0 (S K))) k =
      Some (tq tmin k, [lenZ (Sg g (T0 tt) i0 r0 k); lenZ (Jr g tt f i0 r0 k); Rr g tt f i0 r0 k]) /\
    (lenZ (Sg g (T0 tt) i0 r0 k) + lenZ (Jr g tt f i0 r0 k) + Rr g tt f i0 r0 k)%Z = order g.
Proof. exact rows_meaning. Qed.
Print Assumptions C12rec_rows.

(* (b) the S column is that of the run WITHOUT recovery test: S_k = the nodes outside r0 with no
   walk of successful contacts of length <= k from i0; the nodes that leave S at step k + 1 are
   EXACTLY breadth-first level k + 1; level 0 = i0.  A recovery test does not change when nodes
   get infected. *)
Theorem C12rec_levels : forall g tt i0 r0, wf_inputb g i0 r0 = true -> forall k v,
  (In v (Sg g (T0 tt) i0 r0 k) <->
     In v (gnodes g) /\ ~ In v r0 /\ forall m, (m <= k)%nat -> ~ walk g (T0 tt) i0 r0 v m) /\
  ((In v (Sg g (T0 tt) i0 r0 k) /\ ~ In v (Sg g (T0 tt) i0 r0 (S k))) <-> bfs_dist g (T0 tt) i0 r0 v (S k)) /\
  (In v (Ig g (T0 tt) i0 r0 k) <-> bfs_dist g (T0 tt) i0 r0 v k) /\
  (bfs_dist g (T0 tt) i0 r0 v O <-> In v i0).
Proof. exact levels_meaning. Qed.
Print Assumptions C12rec_levels.

(* (c) a node stays infectious exactly until its recovery test first succeeds: the infectious set
   after k steps is {u | u at breadth-first distance j <= k, tests 0 .. k-j-1 of u failed}; such
   a u has been tested k - j times and is infectious after step k + 1 iff test number k - j
   fails; R_k = |r0| + number of nodes infected so far that are no longer infectious *)
Theorem C12rec_infectious : forall g tt f i0 r0, wf_inputb g i0 r0 = true -> forall k,
  (forall u, In u (Jr g tt f i0 r0 k) <->
     exists j, (j <= k)%nat /\ bfs_dist g (T0 tt) i0 r0 u j /\ forall a, (a < k - j)%nat -> f u a = false) /\
  (forall u, In u (Jr g tt f i0 r0 k) -> In u (Jr g tt f i0 r0 (S k)) <-> f u (ag g tt f i0 r0 k u) = false) /\
  (forall u j, bfs_dist g (T0 tt) i0 r0 u j -> In u (Jr g tt f i0 r0 k) -> ag g tt f i0 r0 k u = (k - j)%nat) /\
  Rr g tt f i0 r0 k = (lenZ r0 + lenZ (done_r g tt f i0 r0 k))%Z /\
  (forall v, In v (done_r g tt f i0 r0 k) <->
     In v (gnodes g) /\ ~ In v (Sg g (T0 tt) i0 r0 k) /\ ~ In v r0 /\ ~ In v (Jr g tt f i0 r0 k)).
Proof. exact infectious_meaning. Qed.
Print Assumptions C12rec_infectious.

(* (d) full data: hist_r K gives v the entries (tmin, initial status) :: events_r K v, and events_r
   has an I entry at tq (k+1) iff v is at breadth-first distance k + 1 (recorded when
   next_time <= tmax: always, for horizons of whole steps, C12rec_horizon), and an R entry at
   tq (k+1) iff v was infected at some step j <= k and its test number k - j is the first that
   succeeds (the code records R entries of a recovery test without the tmax guard) *)
Theorem C12rec_history : forall g tt f i0 r0 tmin tmax full, wf_inputb g i0 r0 = true ->
  forall K v e, In e (events_r g tt f i0 r0 tmin tmax full K v) <->
  exists k, (k < K)%nat /\
    ((e = (tq tmin (S k), stI) /\ full && le_x (tq tmin (S k)) tmax = true /\ bfs_dist g (T0 tt) i0 r0 v (S k)) \/
     (e = (tq tmin (S k), stR) /\ full = true /\
      exists j, (j <= k)%nat /\ bfs_dist g (T0 tt) i0 r0 v j /\
        (forall a, (a < k - j)%nat -> f v a = false) /\ f v (k - j)%nat = true)).
Proof. exact history_meaning. Qed.
Print Assumptions C12rec_history.

Theorem C12rec_hist_shape : forall g tt f i0 r0 tmin tmax full K,
  hist_r g tt f i0 r0 tmin tmax full K =
  map (fun u => (u, (tmin, init_status i0 r0 u) :: events_r g tt f i0 r0 tmin tmax full K u)) (gnodes g).
Proof. reflexivity. Qed.
Print Assumptions C12rec_hist_shape.

Theorem C12rec_horizon : forall g tt f i0 r0 tmin tmax K k,
  whole_steps tmin tmax -> first_stop_r g tt f i0 r0 tmin tmax K -> (k < K)%nat ->
  le_x (tq tmin (S k)) tmax = true.
Proof. exact guard_whole_steps. Qed.
Print Assumptions C12rec_horizon.

Theorem C12rec_first_stop_unique : forall g tt f i0 r0 tmin tmax K K',
  first_stop_r g tt f i0 r0 tmin tmax K -> first_stop_r g tt f i0 r0 tmin tmax K' -> K = K'.
Proof. exact first_stop_r_unique. Qed.
Print Assumptions C12rec_first_stop_unique.

(* ---- non-vacuity ---- *)
(* path 0 - 1 - 2 - 3 plus the chord 0 - 2; contact 0->2 always fails (graph, table and order
   oracle of Props/C12.v); recovery test: every node is infectious for two steps *)
Definition rx_adj (u : node) : list node :=
  match u with 0%N => [1; 2]%N | 1%N => [0; 2]%N | 2%N => [1; 3; 0]%N | 3%N => [2]%N | _ => [] end.
Definition rx_g : graph := mkGraph [0; 1; 2; 3]%N rx_adj rx_adj false (fun _ _ => 1) (fun _ => 1) false false.
Definition rx_tt (u v : node) (_ : nat) : bool := negb (N.eqb u 0 && N.eqb v 2).
Definition rx_ord (k : nat) (l : list node) : list node := rev l.
Definition rx_two (u : node) (a : nat) : bool := Nat.leb 1 a.
Definition rx_rows (m : samp dout) : option (list (list Z)) :=
  match m with Ret out => Some (map snd (so_rows (o_sim out))) | _ => None end.

Example C12rec_ex_wf : wf_inputb rx_g [0%N] [] = true /\ age_indep rx_tt.
Proof. split; [vm_compute; reflexivity|intros u v a; reflexivity]. Qed.
Example C12rec_ex_ord : perm_oracle rx_ord.
Proof. intros k l. unfold rx_ord. apply Permutation_sym. apply Permutation_rev. Qed.
(* the S column is the BFS level-size sequence [3;2;1;0;..] of the run without recovery test
   (node 2 leaves S at step 2 although node 0, still infectious at step 1, tests it twice);
   the I and R columns differ; the history has I at the BFS distance and R two steps later *)
Example C12rec_ex_run :
  rx_rows (discrete_SIR rx_g (det_rules rx_tt (fun _ _ => O)) (Some rx_two) rx_ord (Some [0%N]) None None 0 None true 20)
    = Some [[3; 1; 0]; [2; 2; 0]; [1; 2; 1]; [0; 2; 2]; [0; 1; 3]; [0; 0; 4]]%Z /\
  rx_rows (discrete_SIR rx_g (det_rules rx_tt (fun _ _ => O)) None rx_ord (Some [0%N]) None None 0 None true 20)
    = Some [[3; 1; 0]; [2; 1; 1]; [1; 1; 2]; [0; 1; 3]; [0; 0; 4]]%Z /\
  map (fun k => lenZ (Sg rx_g (T0 rx_tt) [0%N] [] k)) (seq 0 6) = [3; 2; 1; 0; 0; 0]%Z /\
  map (Jr rx_g rx_tt rx_two [0%N] []) (seq 0 6) = [[0]; [0; 1]; [1; 2]; [2; 3]; [3]; []]%N /\
  first_stop_r rx_g rx_tt rx_two [0%N] [] 0 None 5 /\
  match discrete_SIR rx_g (det_rules rx_tt (fun _ _ => O)) (Some rx_two) rx_ord (Some [0%N]) None None 0 None true 20 with
  | Ret out => option_map fd_hist (so_full (o_sim out)) =
      Some [(0%N, [(0, stI); (2, stR)]); (1%N, [(0, stS); (1, stI); (3, stR)]);
            (2%N, [(0, stS); (2, stI); (4, stR)]); (3%N, [(0, stS); (3, stI); (5, stR)])]
  | _ => False
  end.
Proof.
  split; [vm_compute; reflexivity|]. split; [vm_compute; reflexivity|]. split; [vm_compute; reflexivity|].
  split; [vm_compute; reflexivity|]. split.
  - split; [|vm_compute; reflexivity]. intros j Hj.
    do 5 (destruct j as [|j]; [vm_compute; reflexivity|]). lia.
  - vm_compute. reflexivity.
Qed.
(* both sides of the dichotomy occur: a test that never succeeds, no horizon: fuel exhausted;
   the same test with tmax = 3 and an initially recovered node: returns after 3 steps *)
Example C12rec_ex_fuel :
  discrete_SIR rx_g (det_rules rx_tt (fun _ _ => O)) (Some (fun _ _ => false)) rx_ord (Some [0%N]) None None 0 None true 20
    = Fail OutOfFuel /\
  rx_rows (discrete_SIR rx_g (det_rules rx_tt (fun _ _ => O)) (Some (fun _ _ => false)) rx_ord (Some [0%N]) (Some [3%N]) None 0 (Some 3) false 20)
    = Some [[2; 1; 1]; [1; 2; 1]; [0; 3; 1]; [0; 3; 1]]%Z.
Proof. split; vm_compute; reflexivity. Qed.
(* the hypothesis age_indep is needed: with a rule that fails at the first attempt and succeeds
   at the second (tt u v a := a =? 1) and two infectious steps per node, nodes leave S at steps
   2 and 4, whereas no contact succeeds in T = tt . . 0 (BFS: S stays 3) *)
Definition rx_tta (u v : node) (a : nat) : bool := Nat.eqb a 1.
Example C12rec_ex_age_dependent :
  ~ age_indep rx_tta /\
  rx_rows (discrete_SIR rx_g (det_rules rx_tta (fun _ _ => O)) (Some rx_two) rx_ord (Some [0%N]) None None 0 None true 20)
    = Some [[3; 1; 0]; [3; 1; 0]; [1; 2; 1]; [1; 2; 1]; [0; 1; 3]; [0; 1; 3]; [0; 0; 4]]%Z /\
  map (fun k => lenZ (Sg rx_g (T0 rx_tta) [0%N] [] k)) (seq 0 7) = [3; 3; 3; 3; 3; 3; 3]%Z.
Proof.
  split; [intro H; specialize (H 0%N 0%N 1%nat); discriminate H|]. split; vm_compute; reflexivity.
Qed.
Print Assumptions C12rec_ex_wf.
Print Assumptions C12rec_ex_ord.
Print Assumptions C12rec_ex_run.
Print Assumptions C12rec_ex_fuel.
Print Assumptions C12rec_ex_age_dependent.
