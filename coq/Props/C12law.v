(* C12, the deferred-decision lift: THE LAW OF A WHOLE RUN.
   Props/C12.v proves what discrete_SIR does on a fixed table of contact outcomes (BFS
   generations) and the law of one step.  Here: the law of the whole run of
   basic_discrete_SIR -- which flips one fresh coin `random.random() < p` per tested contact --
   equals the law of
        first flip one independent coin (probability p clamped to [0,1]) for every arc (u, v)
        of the graph, then run discrete_SIR with the rule "the coin of (u, v) came up",
   for EVERY event on the whole output (rows, full data, and the ghost logs).
   Only statements, each closed by [exact] of a lemma of Proofs/{DeferredP,DiscreteLawP,FinalSizeP}.v,
   over the definitions of Model/Discrete.v that are extracted and run against /repo
   (Model/DiscreteO.v is a proof device: C12_otree_is_model ties it to Model/Discrete.v).
   law / prob: the finite-distribution semantics of Base/Samp.v. *)
From EoNV Require Import Prelude Samp Graph Discrete DiscreteP DiscreteO DiscreteOP DiscreteSISO DeferredP DeferredKP DiscreteLawP DiscreteLawUP FinalSizeP PercLawP SISLawP SampP LosslessP DiscreteLawFullP DiscreteG ChainP.
From Coq Require Import Permutation.

(* ---- the law of the whole run, return_full_data = False ----
   Hypotheses: nodes distinct and adjacency lists duplicate-free (arcs_nodupb: with a repeated
   neighbour the code tests the contact twice and the statement is false), the iteration-order
   oracle returns permutations.  No hypothesis on i0, r0, tmin, tmax, fuel (if the fuel of the
   model is too small both sides lose the same mass), any pick table (random.choice is not
   called in this mode).  The right-hand program is literally: perc_loop (the loop of
   percolate_network) over the arc list, then the deterministic simulator on the kept arcs. *)
Theorem C12_law_deferred : forall g p ord i0 r0o tmin tmax fuel,
  arcs_nodupb g = true -> perm_oracle ord ->
  forall pick (f : dout -> bool),
  prob f (law (basic_discrete_SIR g p ord (Some i0) r0o None tmin tmax false fuel)) ==
  prob f (law (bind (perc_loop (simple_rules p) (contacts g (gnodes g)) [] [])
                    (fun kq => discrete_SIR g (det_rules (fun u v _ => meme (u, v) (fst kq)) pick) None ord
                                 (Some i0) r0o None tmin tmax false fuel))).
Proof. exact dsir_law_deferred. Qed.
Print Assumptions C12_law_deferred.

(* ---- any return mode ----  With return_full_data = True the code also tests contacts into
   nodes infected earlier in the same step and calls random.choice; an arc is still asked at
   most once.  table_rules tb = (test: tb u v, choice: random.choice as in the code). *)
Theorem C12_law_deferred_full : forall g p ord i0 r0o tmin tmax fuel,
  arcs_nodupb g = true -> perm_oracle ord ->
  forall full (f : dout -> bool),
  prob f (law (basic_discrete_SIR g p ord (Some i0) r0o None tmin tmax full fuel)) ==
  prob f (law (bind (perc_loop (simple_rules p) (contacts g (gnodes g)) [] [])
                    (fun kq => discrete_SIR g (table_rules (tbl (fst kq))) None ord
                                 (Some i0) r0o None tmin tmax full fuel))).
Proof. exact dsir_law_deferred_full. Qed.
Print Assumptions C12_law_deferred_full.

(* ---- expectation form ----
   expect q es h = sum over the sub-lists kept of es of  q^|kept| (1-q)^(|es|-|kept|) h(kept):
     expect q [] h = h [],   expect q (e :: es) h = q * expect q es (h . cons e) + (1-q) * expect q es h;
   it is the law of perc_loop (C12_expect_is_perc_loop). *)
Theorem C12_law_expect : forall g p ord i0 r0o tmin tmax fuel,
  arcs_nodupb g = true -> perm_oracle ord ->
  forall pick (f : dout -> bool),
  prob f (law (basic_discrete_SIR g p ord (Some i0) r0o None tmin tmax false fuel)) ==
  expect (clamp01 p) (contacts g (gnodes g)) (fun kept =>
    prob f (law (discrete_SIR g (det_rules (ttk kept) pick) None ord (Some i0) r0o None tmin tmax false fuel))).
Proof. exact dsir_law_expect. Qed.
Print Assumptions C12_law_expect.

Theorem C12_expect_is_perc_loop : forall p A (f : A -> bool) es kept ql (K : list arc * list qentry -> samp A),
  prob f (law (bind (perc_loop (simple_rules p) es kept ql) K)) ==
  expect (clamp01 p) es (fun k' => prob f (law (K (kept ++ k', qlog_of es ql)))).
Proof. exact perc_expect. Qed.
Print Assumptions C12_expect_is_perc_loop.

Theorem C12_expect_unfold : forall q e es h,
  expect q [] h = h [] /\
  expect q (e :: es) h = q * expect q es (fun k => h (e :: k)) + (1 - q) * expect q es h.
Proof. intros. split; reflexivity. Qed.
Print Assumptions C12_expect_unfold.

(* ---- the generic principle ----  An oracle tree t whose questions along every branch are
   distinct arcs of the duplicate-free list es: answering by fresh coins (lazy) has the law of
   flipping all coins of es first and answering from the table (eager). *)
Theorem C12_deferred_generic : forall p A (f : A -> bool) (t : otree A) es,
  NoDup es -> fresh_in es t ->
  prob f (law (lazy p t)) == expect (clamp01 p) es (fun kept => prob f (law (eager (tbl kept) t))).
Proof. exact deferred. Qed.
Print Assumptions C12_deferred_generic.

(* the oracle tree of the run, interpreted with fresh coins resp. with a table, is the extracted
   model with the default rule resp. the table rule (seqv: the same sampler program up to
   pointwise equal continuations; such programs have equal laws) *)
Theorem C12_otree_is_model : forall g ord tmin tmax full p tb i0 r0 fuel k t s,
  seqv (lazy p (dloop_o g ord tmin tmax full i0 r0 fuel k t s))
       (dloop g (simple_rules p) None ord tmin tmax full i0 r0 fuel k t s) /\
  seqv (eager tb (dloop_o g ord tmin tmax full i0 r0 fuel k t s))
       (dloop g (table_rules tb) None ord tmin tmax full i0 r0 fuel k t s) /\
  (forall A (m m' : samp A), seqv m m' -> law m = law m').
Proof.
  intros. split; [apply lazy_dloop|]. split; [apply eager_dloop_table|]. exact law_seqv.
Qed.
Print Assumptions C12_otree_is_model.

(* the run's tree only asks arcs of the graph, each at most once *)
Theorem C12_run_fresh : forall g ord tmin tmax full,
  NoDup (gnodes g) -> (forall u, In u (gnodes g) -> NoDup (gadj g u)) -> (forall k l, Permutation (ord k l) l) ->
  forall i0 r0 fuel,
  fresh_in (contacts g (gnodes g)) (dloop_o g ord tmin tmax full i0 r0 fuel O tmin (init_state g tmin full i0 r0)).
Proof. exact run_fresh. Qed.
Print Assumptions C12_run_fresh.

(* ---- with C12_dsir_bfs: the rows are in law the BFS generations of the percolated digraph ----
   For every event F on the rows: P(F(rows of basic_discrete_SIR)) = E over the kept arc sets of
   [F (generation rows of the digraph of kept arcs, stopped at the first stop K)].  h is any
   function that is this indicator (K exists and is unique: C12_dsir_bfs, C12_rows_h_canon). *)
Theorem C12_rows_law_bfs : forall g p ord i0 r0o tmin tmax fuel,
  arcs_nodupb g = true -> wf_inputb g i0 (opt_list r0o) = true -> perm_oracle ord ->
  (length (gnodes g) < fuel)%nat ->
  forall (F : list row -> bool) (h : list arc -> Q),
  (forall kept K, first_stop g (ttk kept) i0 (opt_list r0o) tmin tmax K ->
                  h kept == if F (l1_rows g (ttk kept) i0 (opt_list r0o) tmin K) then 1 else 0) ->
  prob (fun o => F (so_rows (o_sim o)))
       (law (basic_discrete_SIR g p ord (Some i0) r0o None tmin tmax false fuel)) ==
  expect (clamp01 p) (contacts g (gnodes g)) h.
Proof. exact dsir_rows_law. Qed.
Print Assumptions C12_rows_law_bfs.

Theorem C12_rows_h_canon : forall g ord i0 r0o tmin tmax fuel,
  wf_inputb g i0 (opt_list r0o) = true -> perm_oracle ord -> (length (gnodes g) < fuel)%nat ->
  forall (F : list row -> bool) kept K,
  first_stop g (ttk kept) i0 (opt_list r0o) tmin tmax K ->
  prob (fun o => F (so_rows (o_sim o)))
       (law (discrete_SIR g (det_rules (ttk kept) (fun _ _ => O)) None ord (Some i0) r0o None tmin tmax false fuel)) ==
  if F (l1_rows g (ttk kept) i0 (opt_list r0o) tmin K) then 1 else 0.
Proof. exact rows_h_canon. Qed.
Print Assumptions C12_rows_h_canon.

(* the run returns with probability 1 (no failure, fuel suffices) *)
Theorem C12_mass_one : forall g p ord i0 r0o tmin tmax fuel,
  arcs_nodupb g = true -> wf_inputb g i0 (opt_list r0o) = true -> perm_oracle ord ->
  (length (gnodes g) < fuel)%nat ->
  prob (fun _ => true) (law (basic_discrete_SIR g p ord (Some i0) r0o None tmin tmax false fuel)) == 1.
Proof. exact dsir_mass_one. Qed.
Print Assumptions C12_mass_one.

(* ---- final size ----  final_R = the R entry of the last row.  At any horizon it is in law R_K of
   the generation sequence of the percolated digraph ... *)
Theorem C12_final_R_law : forall g p ord i0 r0o tmin fuel,
  arcs_nodupb g = true -> wf_inputb g i0 (opt_list r0o) = true -> perm_oracle ord ->
  (length (gnodes g) < fuel)%nat ->
  forall tmax (P : Z -> bool) (h : list arc -> Q),
  (forall kept K, first_stop g (ttk kept) i0 (opt_list r0o) tmin tmax K ->
                  h kept == if P (Rg g (ttk kept) i0 (opt_list r0o) K) then 1 else 0) ->
  prob (fun o => P (final_R o))
       (law (basic_discrete_SIR g p ord (Some i0) r0o None tmin tmax false fuel)) ==
  expect (clamp01 p) (contacts g (gnodes g)) h.
Proof. exact dsir_final_R_law. Qed.
Print Assumptions C12_final_R_law.

(* ... and for the run to extinction (tmax = None) it is |r0| + the number of nodes reachable from
   i0 by walks of kept arcs that avoid r0: the out-component of i0 in the percolated digraph.
   C is any duplicate-free enumeration of that set. *)
Theorem C12_final_size_law : forall g p ord i0 r0o tmin fuel,
  arcs_nodupb g = true -> wf_inputb g i0 (opt_list r0o) = true -> perm_oracle ord ->
  (length (gnodes g) < fuel)%nat ->
  forall (P : Z -> bool) (h : list arc -> Q),
  (forall kept C, NoDup C ->
     (forall v, In v C <-> exists n, walk g (T0 (ttk kept)) i0 (opt_list r0o) v n) ->
     h kept == if P (lenZ (opt_list r0o) + lenZ C)%Z then 1 else 0) ->
  prob (fun o => P (final_R o))
       (law (basic_discrete_SIR g p ord (Some i0) r0o None tmin None false fuel)) ==
  expect (clamp01 p) (contacts g (gnodes g)) h.
Proof. exact dsir_final_size_law. Qed.
Print Assumptions C12_final_size_law.

(* the deterministic counterpart: extinction at step K means R_K counts exactly the reachable set *)
Theorem C12_final_size_reach : forall g tt i0 r0,
  NoDup (gnodes g) -> (forall u v, In u (gnodes g) -> In v (gadj g u) -> In v (gnodes g)) ->
  (forall v, In v i0 -> In v (gnodes g)) -> (forall v, In v i0 -> ~ In v r0) ->
  forall tmin K (C : list node),
  first_stop g tt i0 r0 tmin None K -> NoDup C ->
  (forall v, In v C <-> exists n, walk g (T0 tt) i0 r0 v n) ->
  Rg g tt i0 r0 K = (lenZ r0 + lenZ C)%Z.
Proof. exact final_size_reach. Qed.
Print Assumptions C12_final_size_reach.

(* ---- one coin per undirected edge; percolation_based_discrete_SIR ----
   Keyed coins: if the key kf u v of a contact is (u, v) or (v, u) and lies in the duplicate-free
   list KEYS, the run never asks two contacts with the same key (u is never susceptible or
   infectious again after (u, v) was asked), so one coin per key has the law of the run; the
   table reads the coin of the key.  Any return mode. *)
Theorem C12_law_keyed : forall g ord tmin tmax full kf KEYS,
  NoDup (gnodes g) -> (forall u, In u (gnodes g) -> NoDup (gadj g u)) -> (forall k l, Permutation (ord k l) l) ->
  (forall u v, kf u v = (u, v) \/ kf u v = (v, u)) ->
  (forall u v, In u (gnodes g) -> In v (gadj g u) -> In (kf u v) KEYS) ->
  forall p i0 r0o fuel (f : dout -> bool), NoDup KEYS ->
  prob f (law (basic_discrete_SIR g p ord (Some i0) r0o None tmin tmax full fuel)) ==
  expect (clamp01 p) KEYS (fun kept =>
    prob f (law (discrete_SIR g (table_rules (tblk kf kept)) None ord (Some i0) r0o None tmin tmax full fuel))).
Proof. exact dsir_law_expect_k. Qed.
Print Assumptions C12_law_keyed.

(* EQUALITY IN LAW of the two simulators (the step cited in Props/C12.v, now proved): on a simple
   undirected graph, for every event F on the rows, any two iteration orders, return_full_data =
   False.  (percolation_based_discrete_SIR = percolate_network, then discrete_SIR(H, H.has_edge).)
   Not covered: return_full_data = True (the node histories agree pathwise, C12_perc_sir_pathwise;
   their joint law with the random.choice draws is not formalised). *)
Theorem C12_perc_basic_rows_law : forall g p ord1 ord2 i0 r0o tmin tmax fuel1 fuel2 (F : list row -> bool),
  wf_inputb g i0 (opt_list r0o) = true -> arcs_nodupb g = true -> sym_graphb g = true ->
  perm_oracle ord1 -> perm_oracle ord2 ->
  (length (gnodes g) < fuel1)%nat -> (length (gnodes g) < fuel2)%nat ->
  prob (fun o => F (so_rows (o_sim o)))
       (law (basic_discrete_SIR g p ord1 (Some i0) r0o None tmin tmax false fuel1)) ==
  prob (fun o => F (so_rows (o_sim o)))
       (law (percolation_based_discrete_SIR g p ord2 (Some i0) r0o None tmin tmax false fuel2)).
Proof. exact perc_basic_rows_law. Qed.
Print Assumptions C12_perc_basic_rows_law.

(* ---- total mass, both return modes ----  A program made of Ret / Fail / Flip / Unif only with no
   reachable failure has total mass 1, and an event that is constant on the reachable results has
   probability 0 or 1 (C12_prob_leaf_const); discrete_SIR without test_recovery has no reachable
   failure when fuel > |nodes| (Proofs/DiscreteSafe.v).  Subsumes C12_mass_one. *)
Theorem C12_mass_one_full : forall g p ord i0 r0o tmin tmax full fuel,
  wf_inputb g i0 (opt_list r0o) = true -> perm_oracle ord -> (length (gnodes g) < fuel)%nat ->
  prob (fun _ => true) (law (basic_discrete_SIR g p ord (Some i0) r0o None tmin tmax full fuel)) == 1.
Proof. exact dsir_mass_one_full. Qed.
Print Assumptions C12_mass_one_full.

Theorem C12_prob_leaf_const : forall A (f : A -> bool) (b : bool) (m : samp A),
  simple m -> (forall e, ~ reach_err m e) -> (forall a, reach m a -> f a = b) ->
  prob f (law m) == if b then 1 else 0.
Proof. exact prob_leaf_const. Qed.
Print Assumptions C12_prob_leaf_const.

(* ---- equality in law, ANY return mode, rows AND node histories ----
   proj o = (so_rows, fd_hist of the full data if any).  For every event F on proj, on a simple
   undirected graph, any two iteration orders: basic_discrete_SIR and
   percolation_based_discrete_SIR have the same probability of F.  (The transmission lists are
   not part of proj: which infector random.choice names is drawn differently by the two
   functions only in the sense of different draws, their joint law with the rest is not compared.)
   Subsumes C12_perc_basic_rows_law. *)
Theorem C12_perc_basic_hist_law : forall g p ord1 ord2 i0 r0o tmin tmax full fuel1 fuel2
    (F : list row * option (list (node * history)) -> bool),
  wf_inputb g i0 (opt_list r0o) = true -> arcs_nodupb g = true -> sym_graphb g = true ->
  perm_oracle ord1 -> perm_oracle ord2 ->
  (length (gnodes g) < fuel1)%nat -> (length (gnodes g) < fuel2)%nat ->
  prob (fun o => F (proj o))
       (law (basic_discrete_SIR g p ord1 (Some i0) r0o None tmin tmax full fuel1)) ==
  prob (fun o => F (proj o))
       (law (percolation_based_discrete_SIR g p ord2 (Some i0) r0o None tmin tmax full fuel2)).
Proof. exact perc_basic_hist_law. Qed.
Print Assumptions C12_perc_basic_hist_law.

(* with a table rule every reachable result of the run has the rows and node histories of the
   deterministic run, whatever random.choice returns *)
Theorem C12_run_proj : forall g tb R pick ord tmin tmax full i0 r0,
  (forall u v a, r_test R u v a = Ret (tb u v)) ->
  forall fuel k t s1 s2 out1 out2, core s1 = core s2 ->
  reach (dloop g R None ord tmin tmax full i0 r0 fuel k t s1) out1 ->
  dloop g (det_rules (ttb tb) pick) None ord tmin tmax full i0 r0 fuel k t s2 = Ret out2 ->
  proj out1 = proj out2.
Proof. exact run_proj. Qed.
Print Assumptions C12_run_proj.

(* ---- the CHAIN form: step-to-step transition probabilities = Reed-Frost / discrete SIS chain ----
   The plain output (rows) only has the counts; the generation sets A_1, A_2, ... (the set
   `infecteds` after each pass of the while loop) are exposed by the instrumented loop of
   Model/DiscreteG.v: basic_discrete_SIR_G returns (output, [A_1; ...; A_K]) and forgetting the
   second component gives back basic_discrete_SIR (C12_G_is_model: same program, same draws).
   For EVERY target sequence As = [A_1; ..; A_K] (sets compared on the nodes of the graph):
     P(the generation sets are exactly A_1 .. A_K and the loop then stops)
       = chain_prob = prod_{k<K} RF(S_k, I_k -> A_{k+1}) * [loop condition `infecteds and t < tmax`
         holds at steps 0..K-1 and fails at step K]        (0 when the model's fuel < K)
   with S_0 = nodes outside i0 and r0, I_0 = i0, S_{k+1} = S_k minus A_{k+1}, I_{k+1} = A_{k+1}, and
     RF(S, I -> A) = prod over nodes v:  v in S, v in A:      1 - (1-q)^(m_v)
                                         v in S, v not in A:  (1-q)^(m_v)
                                         v not in S:          [v not in A]
     m_v = number of contacts (u, v), u in I (C12_contact_count), q = clamp01 p:
   the law of the sequence (S_k, I_k) is that of the Reed-Frost Markov chain stopped by the loop
   condition.  return_full_data = False; any iteration-order oracle; any i0, r0, tmin, tmax, fuel. *)
Theorem C12_chain_law : forall g p ord tmin tmax,
  NoDup (gnodes g) -> (forall u v, In u (gnodes g) -> In v (gadj g u) -> In v (gnodes g)) ->
  (forall k l, Permutation (ord k l) l) ->
  forall i0 r0o fuel As,
  prob (fun x => gens_are g As (snd x)) (law (basic_discrete_SIR_G g p ord i0 r0o tmin tmax false fuel)) ==
  chain_prob g p tmax fuel tmin (fun v => negb (mem v i0) && negb (mem v (opt_list r0o))) (canon g i0) As.
Proof. exact dsir_chain_law. Qed.
Print Assumptions C12_chain_law.

Theorem C12_chain_prob_unfold : forall g p tmax fuel t sus infs A As,
  chain_prob g p tmax (S fuel) t sus infs (A :: As) =
    (if nonempty infs && xlt t tmax
     then RF g p sus infs A * chain_prob g p tmax fuel (t + 1) (fun v => sus v && negb (mem v A)) (canon g A) As
     else 0) /\
  chain_prob g p tmax fuel t sus infs [] = (if nonempty infs && xlt t tmax then 0 else 1) /\
  RF g p sus infs A =
    prodQ (map (fun v => if sus v
                         then (if mem v A then 1 - qpow (1 - clamp01 p) (mcount (contacts g infs) v)
                               else qpow (1 - clamp01 p) (mcount (contacts g infs) v))
                         else (if mem v A then 0 else 1)) (gnodes g)).
Proof.
  intros. split; [reflexivity|]. split; [|reflexivity].
  destruct fuel; cbn [chain_prob]; destruct (nonempty infs && xlt t tmax); reflexivity.
Qed.
Print Assumptions C12_chain_prob_unfold.

(* the same for basic_discrete_SIS with the discrete SIS factor: the nodes of I are not in the next
   generation, every other node v is with probability 1 - (1-q)^(m_v), independently *)
Theorem C12_sis_chain_law : forall g p ord tmin tmax,
  NoDup (gnodes g) -> (forall u v, In u (gnodes g) -> In v (gadj g u) -> In v (gnodes g)) ->
  (forall k l, Permutation (ord k l) l) ->
  forall i0 fuel As,
  prob (fun x => gens_are g As (snd x)) (law (basic_discrete_SIS_G g p ord i0 tmin tmax false fuel)) ==
  sis_chain_prob g p tmax fuel tmin (canon g i0) As.
Proof. exact dsis_chain_law. Qed.
Print Assumptions C12_sis_chain_law.

Theorem C12_sis_chain_prob_unfold : forall g p tmax fuel t infs A As,
  sis_chain_prob g p tmax (S fuel) t infs (A :: As) =
    (if nonempty infs && xlt t tmax then RFS g p infs A * sis_chain_prob g p tmax fuel (t + 1) (canon g A) As else 0) /\
  sis_chain_prob g p tmax fuel t infs [] = (if nonempty infs && xlt t tmax then 0 else 1) /\
  RFS g p infs A =
    prodQ (map (fun v => if mem v infs then (if mem v A then 0 else 1)
                         else (if mem v A then 1 - qpow (1 - clamp01 p) (mcount (contacts g infs) v)
                               else qpow (1 - clamp01 p) (mcount (contacts g infs) v))) (gnodes g)).
Proof.
  intros. split; [reflexivity|]. split; [|reflexivity].
  destruct fuel; cbn [sis_chain_prob]; destruct (nonempty infs && xlt t tmax); reflexivity.
Qed.
Print Assumptions C12_sis_chain_prob_unfold.

(* the instrumented programs are the extracted ones with a ghost (any return mode) *)
Theorem C12_G_is_model : forall g p ord i0 r0o tmin tmax full fuel,
  seqv (bind (basic_discrete_SIR_G g p ord i0 r0o tmin tmax full fuel) (fun x => Ret (fst x)))
       (basic_discrete_SIR g p ord (Some i0) r0o None tmin tmax full fuel) /\
  seqv (bind (basic_discrete_SIS_G g p ord i0 tmin tmax full fuel) (fun x => Ret (fst x)))
       (basic_discrete_SIS g p ord (Some i0) None tmin tmax full fuel).
Proof. intros. split; [apply dsir_G_fst|apply dsis_G_fst]. Qed.
Print Assumptions C12_G_is_model.

(* ---- basic_discrete_SIS: one coin per (step, arc) ----
   In the SIS simulator a contact can be tested again at a later step: the coins are indexed by
   (step k, u, v).  The run of the model makes at most `fuel` steps (beyond, both sides fail with
   OutOfFuel), so the coins of the steps 0 .. fuel-1 are flipped first: keys_from g enc 0 fuel lists
   the key (enc k u, v) of every (k < fuel, arc (u, v)); enc is ANY encoding of (step, node) as a
   number that is injective on the nodes of the graph (enc_lin M k u = k * M + u is one when M is
   above every node: C12_enc_lin).  The right-hand program flips a coin for every key (perc_loop)
   and then runs basic_discrete_SIS with the rule "the coin of (k, u, v) came up" -- the rule of
   the SIS model receives the step index k.  Every event f on the whole output. *)
Theorem C12_sis_law_deferred : forall g enc ord tmin tmax,
  NoDup (gnodes g) -> (forall u, In u (gnodes g) -> NoDup (gadj g u)) -> (forall k l, Permutation (ord k l) l) ->
  (forall k k' u u', In u (gnodes g) -> In u' (gnodes g) -> enc k u = enc k' u' -> k = k' /\ u = u') ->
  forall p pick i0 fuel (f : dout -> bool),
  prob f (law (basic_discrete_SIS g p ord (Some i0) None tmin tmax false fuel)) ==
  prob f (law (bind (perc_loop (simple_rules p) (keys_from g enc O fuel) [] [])
                    (fun kq => basic_discrete_SIS_R g (det_rules (fun u v k => meme (enc k u, v) (fst kq)) pick) ord
                                 (Some i0) None tmin tmax false fuel))).
Proof. exact sis_law_deferred. Qed.
Print Assumptions C12_sis_law_deferred.

(* any return mode (random.choice stays random on both sides) *)
Theorem C12_sis_law_deferred_full : forall g enc ord tmin tmax full,
  NoDup (gnodes g) -> (forall u, In u (gnodes g) -> NoDup (gadj g u)) -> (forall k l, Permutation (ord k l) l) ->
  (forall k k' u u', In u (gnodes g) -> In u' (gnodes g) -> enc k u = enc k' u' -> k = k' /\ u = u') ->
  forall p i0 fuel (f : dout -> bool),
  prob f (law (basic_discrete_SIS g p ord (Some i0) None tmin tmax full fuel)) ==
  prob f (law (bind (perc_loop (simple_rules p) (keys_from g enc O fuel) [] [])
                    (fun kq => basic_discrete_SIS_R g (sis_table_rules enc (tbl (fst kq))) ord
                                 (Some i0) None tmin tmax full fuel))).
Proof. exact sis_law_deferred_full. Qed.
Print Assumptions C12_sis_law_deferred_full.

Theorem C12_enc_lin : forall g M, forallb (fun u => N.ltb u M) (gnodes g) = true ->
  forall k k' u u', In u (gnodes g) -> In u' (gnodes g) -> enc_lin M k u = enc_lin M k' u' -> k = k' /\ u = u'.
Proof. exact enc_lin_inj. Qed.
Print Assumptions C12_enc_lin.

(* ---- non-vacuity ---- *)
(* a digraph 0 -> 1, 0 -> 2, 1 -> 2, 2 -> 0 and the undirected triangle *)
Definition dg_adj (u : node) : list node :=
  match u with 0%N => [1; 2]%N | 1%N => [2]%N | 2%N => [0]%N | _ => [] end.
Definition dg_pred (u : node) : list node :=
  match u with 0%N => [2]%N | 1%N => [0]%N | 2%N => [0; 1]%N | _ => [] end.
Definition dg : graph := mkGraph [0; 1; 2]%N dg_adj dg_pred true (fun _ _ => 1) (fun _ => 1) false false.
Definition ltri_adj (u : node) : list node :=
  match u with 0%N => [1; 2]%N | 1%N => [0; 2]%N | 2%N => [0; 1]%N | _ => [] end.
Definition tri : graph := mkGraph [0; 1; 2]%N ltri_adj ltri_adj false (fun _ _ => 1) (fun _ => 1) false false.
Definition lx_ord (k : nat) (l : list node) : list node := rev l.

Example C12law_ex_hyps :
  arcs_nodupb dg = true /\ wf_inputb dg [0%N] [] = true /\ arcs_nodupb tri = true /\ wf_inputb tri [0%N] [] = true /\
  perm_oracle lx_ord /\ contacts dg (gnodes dg) = [(0, 1); (0, 2); (1, 2); (2, 0)]%N.
Proof.
  split; [vm_compute; reflexivity|]. split; [vm_compute; reflexivity|]. split; [vm_compute; reflexivity|].
  split; [vm_compute; reflexivity|]. split; [|vm_compute; reflexivity].
  intros k l. unfold lx_ord. apply Permutation_sym. apply Permutation_rev.
Qed.
Print Assumptions C12law_ex_hyps.

Definition ev_final (n : Z) (o : dout) : bool := Z.eqb (final_R o) n.

(* both sides of C12_law_deferred computed on the digraph, p = 1/3, event "final R = 2": 10/27 *)
Example C12law_ex_dg :
  let lhs := prob (ev_final 2) (law (basic_discrete_SIR dg (1 # 3) lx_ord (Some [0%N]) None None 0 None false 4)) in
  let rhs := prob (ev_final 2)
               (law (bind (perc_loop (simple_rules (1 # 3)) (contacts dg (gnodes dg)) [] [])
                          (fun kq => discrete_SIR dg (det_rules (fun u v _ => meme (u, v) (fst kq)) (fun _ _ => O)) None lx_ord
                                       (Some [0%N]) None None 0 None false 4))) in
  lhs == 10 # 27 /\ rhs == 10 # 27 /\ 0 < lhs /\ lhs < 1.
Proof. cbv zeta. split; [vm_compute; reflexivity|]. split; [vm_compute; reflexivity|]. split; vm_compute; reflexivity. Qed.
Print Assumptions C12law_ex_dg.

(* the triangle, p = 1/2, event "final R = 2": 1/4 on both sides; total mass 1; an event on the
   ghost query log ("exactly three contacts were tested"): 1/2 on both sides *)
Example C12law_ex_tri :
  let L := law (basic_discrete_SIR tri (1 # 2) lx_ord (Some [0%N]) None None 0 None false 4) in
  let Rr := law (bind (perc_loop (simple_rules (1 # 2)) (contacts tri (gnodes tri)) [] [])
                      (fun kq => discrete_SIR tri (det_rules (fun u v _ => meme (u, v) (fst kq)) (fun _ _ => O)) None lx_ord
                                   (Some [0%N]) None None 0 None false 4)) in
  let three (o : dout) := Nat.eqb (length (l_q (o_logs o))) 3 in
  prob (ev_final 2) L == 1 # 4 /\ prob (ev_final 2) Rr == 1 # 4 /\
  prob (fun _ => true) L == 1 /\ prob three L == 1 # 2 /\ prob three Rr == 1 # 2.
Proof. cbv zeta. repeat split; vm_compute; reflexivity. Qed.
Print Assumptions C12law_ex_tri.

(* full data (the extra tests and random.choice): both sides of C12_law_deferred_full agree *)
Example C12law_ex_full :
  let ev (o : dout) := match so_full (o_sim o) with
                       | Some fd => existsb (fun e => match e with (_, Some s, v) => N.eqb s 1 && N.eqb v 2 | _ => false end) (fd_trans fd)
                       | None => false end in
  prob ev (law (basic_discrete_SIR tri (1 # 2) lx_ord (Some [0; 1]%N) None None 0 None true 4)) ==
  prob ev (law (bind (perc_loop (simple_rules (1 # 2)) (contacts tri (gnodes tri)) [] [])
                     (fun kq => discrete_SIR tri (table_rules (tbl (fst kq))) None lx_ord
                                  (Some [0; 1]%N) None None 0 None true 4))) /\
  0 < prob ev (law (basic_discrete_SIR tri (1 # 2) lx_ord (Some [0; 1]%N) None None 0 None true 4)) < 1.
Proof. cbv zeta. split; [vm_compute; reflexivity|]. split; vm_compute; reflexivity. Qed.
Print Assumptions C12law_ex_full.

(* the expectation on the right of C12_rows_law_bfs with the canonical h, on the digraph *)
Example C12law_ex_expect :
  expect (clamp01 (1 # 3)) (contacts dg (gnodes dg))
    (fun kept => prob (ev_final 2)
       (law (discrete_SIR dg (det_rules (ttk kept) (fun _ _ => O)) None lx_ord (Some [0%N]) None None 0 None false 4)))
  == 10 # 27.
Proof. vm_compute. reflexivity. Qed.
Print Assumptions C12law_ex_expect.

(* the triangle is a simple undirected graph; both simulators give "final R = 2" probability 1/4
   and "final R = 3" probability 1/2 at p = 1/2 *)
Example C12law_ex_perc :
  sym_graphb tri = true /\
  let evr (n : Z) (o : dout) := Z.eqb (rows_final_R (so_rows (o_sim o))) n in
  let B := law (basic_discrete_SIR tri (1 # 2) lx_ord (Some [0%N]) None None 0 None false 4) in
  let P := law (percolation_based_discrete_SIR tri (1 # 2) (fun _ l => l) (Some [0%N]) None None 0 None false 4) in
  prob (evr 2%Z) B == 1 # 4 /\ prob (evr 2%Z) P == 1 # 4 /\ prob (evr 3%Z) B == 1 # 2 /\ prob (evr 3%Z) P == 1 # 2.
Proof. split; [vm_compute; reflexivity|]. cbv zeta. repeat split; vm_compute; reflexivity. Qed.
Print Assumptions C12law_ex_perc.

(* SIS on the path 0 - 1 - 2 from node 1, p = 1/2, two steps (tmax = 2, fuel 2): 8 coins.
   Event "exactly one infectious node at the end": both sides of C12_sis_law_deferred *)
Definition pth_adj (u : node) : list node :=
  match u with 0%N => [1]%N | 1%N => [0; 2]%N | 2%N => [1]%N | _ => [] end.
Definition pth : graph := mkGraph [0; 1; 2]%N pth_adj pth_adj false (fun _ _ => 1) (fun _ => 1) false false.
Example C12law_ex_sis :
  forallb (fun u => N.ltb u 3) (gnodes pth) = true /\ length (keys_from pth (enc_lin 3) O 2) = 8%nat /\
  let ev (o : dout) := match rev (so_rows (o_sim o)) with (_, [_; i]) :: _ => Z.eqb i 1 | _ => false end in
  let L := prob ev (law (basic_discrete_SIS pth (1 # 2) lx_ord (Some [1%N]) None 0 (Some 2) false 2)) in
  let Rr := prob ev (law (bind (perc_loop (simple_rules (1 # 2)) (keys_from pth (enc_lin 3) O 2) [] [])
                    (fun kq => basic_discrete_SIS_R pth (det_rules (fun u v k => meme (enc_lin 3 k u, v) (fst kq)) (fun _ _ => O)) lx_ord
                                 (Some [1%N]) None 0 (Some 2) false 2))) in
  L == Rr /\ 0 < L /\ L < 1.
Proof. split; [vm_compute; reflexivity|]. split; [vm_compute; reflexivity|]. cbv zeta. repeat split; vm_compute; reflexivity. Qed.
Print Assumptions C12law_ex_sis.

(* full data on the triangle, p = 1/2: total mass 1; the event "node 2 is recorded infected at time 1"
   (an event on the node histories) has the same probability under both simulators *)
Example C12law_ex_full_perc :
  let ev (x : list row * option (list (node * history))) :=
    match snd x with
    | Some hs => existsb (fun uh => N.eqb (fst uh) 2 && existsb (fun e => Qeq_bool (fst e) 1 && N.eqb (snd e) 1) (snd uh)) hs
    | None => false end in
  let B := law (basic_discrete_SIR tri (1 # 2) lx_ord (Some [0%N]) None None 0 None true 4) in
  let P := law (percolation_based_discrete_SIR tri (1 # 2) (fun _ l => l) (Some [0%N]) None None 0 None true 4) in
  prob (fun _ => true) B == 1 /\ prob (fun _ => true) P == 1 /\
  prob (fun o => ev (proj o)) B == 1 # 2 /\ prob (fun o => ev (proj o)) P == 1 # 2.
Proof. cbv zeta. repeat split; vm_compute; reflexivity. Qed.
Print Assumptions C12law_ex_full_perc.

(* the chain on the path 0 - 1 - 2, p = 1/2.  SIR from node 0 to extinction: generations {1}, {2}, {}
   with probability 1/2 * 1/2 * 1 = 1/4 (computed on the law of the program and by the chain formula);
   with tmax = 2 the run stops after two passes: {1}, {2} has probability 1/4 and {1}, {2}, {} has 0.
   SIS from node 1, two steps: {0,2} then {1}: 1/4 * 3/4 = 3/16. *)
Example C12law_ex_chain :
  let SIRlaw tmax := law (basic_discrete_SIR_G pth (1 # 2) lx_ord [0%N] None 0 tmax false 4) in
  let SIRch tmax := chain_prob pth (1 # 2) tmax 4 0 (fun v => negb (mem v [0%N]) && negb (mem v [])) (canon pth [0%N]) in
  prob (fun x => gens_are pth [[1]; [2]; []]%N (snd x)) (SIRlaw None) == 1 # 4 /\ SIRch None [[1]; [2]; []]%N == 1 # 4 /\
  prob (fun x => gens_are pth [[1]; [2]]%N (snd x)) (SIRlaw (Some 2)) == 1 # 4 /\ SIRch (Some 2) [[1]; [2]]%N == 1 # 4 /\
  prob (fun x => gens_are pth [[1]; [2]; []]%N (snd x)) (SIRlaw (Some 2)) == 0 /\ SIRch (Some 2) [[1]; [2]; []]%N == 0 /\
  prob (fun x => gens_are pth [[0; 2]; [1]]%N (snd x))
       (law (basic_discrete_SIS_G pth (1 # 2) lx_ord [1%N] 0 (Some 2) false 2)) == 3 # 16 /\
  sis_chain_prob pth (1 # 2) (Some 2) 2 0 (canon pth [1%N]) [[0; 2]; [1]]%N == 3 # 16.
Proof. cbv zeta. repeat split; vm_compute; reflexivity. Qed.
Print Assumptions C12law_ex_chain.
