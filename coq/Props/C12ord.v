(* C12 (also used by C14, C18) -- the discrete-time simulators do not depend on the order in which
   Python iterates the set `infecteds` (hash order, different from process to process).
   Props/C12.v (C12_dsir_perm_indep) covers discrete_SIR without a recovery test, rows and node
   histories.  Here, for table rules [det_rules tt pick] (tt may depend on the age / the step),
   EVERY graph and initial sets (no well-formedness hypothesis is needed: in particular every
   input with wf_inputb g i0 r0 = true), both return modes, every tmin, tmax, every fuel and any two
   permutation oracles:
     - discrete_SIR WITH a recovery test (trec = Some f; trec = None is covered too),
     - basic_discrete_SIS,
     - and the TRANSMISSIONS of the full-data object: equal as multisets (Permutation; the entries
       appended within one step come in iteration order, nothing else moves: C12_transmissions_per_step).
   Only statements, each closed by [exact] of a lemma of Proofs/DiscreteOrd.v, DiscreteOrdR.v, over the
   definitions of Model/Discrete.v that are extracted and run against /repo. *)
From EoNV Require Import Prelude Samp Graph Discrete DiscreteP DiscreteOrd DiscreteOrdR.
From Coq Require Import Permutation.

(* random.choice(infector[v]) under the table rule indexes sorted(infector[v]): the candidate list
   is collected in iteration order (order dependent), its sorted version and hence the chosen
   infector are not *)
Theorem C12_choice_independent_of_collection_order : forall tt pick k v c1 c2, Permutation c1 c2 ->
  nsort c1 = nsort c2 /\
  r_pick (det_rules tt pick) k v c1 = r_pick (det_rules tt pick) k v c2.
Proof. exact det_pick_perm. Qed.
Print Assumptions C12_choice_independent_of_collection_order.

(* discrete_SIR, test_recovery given or not: for every fuel either both runs run out of fuel or both
   return; then the rows are equal, the node histories are equal, and (full data) the transmission
   lists are permutations of one another *)
Theorem C12_dsir_order_independent_with_recovery_test :
  forall g tt pick trec ord1 ord2 i0 r0o tmin tmax full fuel,
  perm_oracle ord1 -> perm_oracle ord2 ->
  let run ord := discrete_SIR g (det_rules tt pick) trec ord (Some i0) r0o None tmin tmax full fuel in
  (run ord1 = Fail OutOfFuel /\ run ord2 = Fail OutOfFuel) \/
  exists o1 o2, run ord1 = Ret o1 /\ run ord2 = Ret o2 /\
    so_rows (o_sim o1) = so_rows (o_sim o2) /\
    option_map fd_hist (so_full (o_sim o1)) = option_map fd_hist (so_full (o_sim o2)) /\
    (if full then exists f1 f2, so_full (o_sim o1) = Some f1 /\ so_full (o_sim o2) = Some f2 /\
                                fd_hist f1 = fd_hist f2 /\ Permutation (fd_trans f1) (fd_trans f2)
     else so_full (o_sim o1) = None /\ so_full (o_sim o2) = None).
Proof. exact dsir_ord_indep. Qed.
Print Assumptions C12_dsir_order_independent_with_recovery_test.

(* the same for basic_discrete_SIS *)
Theorem C12_dsis_order_independent :
  forall g tt pick ord1 ord2 i0 tmin tmax full fuel,
  perm_oracle ord1 -> perm_oracle ord2 ->
  let run ord := basic_discrete_SIS_R g (det_rules tt pick) ord (Some i0) None tmin tmax full fuel in
  (run ord1 = Fail OutOfFuel /\ run ord2 = Fail OutOfFuel) \/
  exists o1 o2, run ord1 = Ret o1 /\ run ord2 = Ret o2 /\
    so_rows (o_sim o1) = so_rows (o_sim o2) /\
    option_map fd_hist (so_full (o_sim o1)) = option_map fd_hist (so_full (o_sim o2)) /\
    (if full then exists f1 f2, so_full (o_sim o1) = Some f1 /\ so_full (o_sim o2) = Some f2 /\
                                fd_hist f1 = fd_hist f2 /\ Permutation (fd_trans f1) (fd_trans f2)
     else so_full (o_sim o1) = None /\ so_full (o_sim o2) = None).
Proof. exact dsis_ord_indep. Qed.
Print Assumptions C12_dsis_order_independent.

(* Permutation of the whole lists is equality of the per-step multisets: the entries of any one
   time stamp (more generally: selected by any predicate) are permutations of one another *)
Theorem C12_transmissions_per_step : forall (sel : Q * option node * node -> bool) tr1 tr2,
  Permutation tr1 tr2 -> Permutation (filter sel tr1) (filter sel tr2).
Proof. exact (perm_filter (Q * option node * node)). Qed.
Print Assumptions C12_transmissions_per_step.

(* ---- non-vacuity ---- *)
(* the 4-node graph ex_g of Props/C12.v: path 0 - 1 - 2 - 3 plus the chord 0 - 2 *)
Definition ordex_adj (u : node) : list node :=
  match u with 0%N => [1; 2]%N | 1%N => [0; 2]%N | 2%N => [1; 3; 0]%N | 3%N => [2]%N | _ => [] end.
Definition ordex_g : graph := mkGraph [0; 1; 2; 3]%N ordex_adj ordex_adj false (fun _ _ => 1) (fun _ => 1) false false.
Definition ordex_tt (u v : node) (a : nat) : bool := true.
Definition ordex_pick (k : nat) (v : node) : nat := 1%nat.
Definition ordex_rec (u : node) (a : nat) : bool := Nat.leb 1 a.     (* recover at the second test *)
Definition ordex_id (k : nat) (l : list node) : list node := l.
Definition ordex_rev (k : nat) (l : list node) : list node := rev l.

Example C12_ordex_wf : wf_inputb ordex_g [0; 3]%N [] = true.
Proof. vm_compute. reflexivity. Qed.
Example C12_ordex_oracles : perm_oracle ordex_id /\ perm_oracle ordex_rev.
Proof.
  split; intros k l.
  - apply Permutation_refl.
  - unfold ordex_rev. apply Permutation_sym. apply Permutation_rev.
Qed.

(* node 2 is hit from 0 and from 3 in step 0: the candidate lists are [0; 3] resp. [3; 0] and the
   table picks rank 1 of the sorted list, node 3, in both *)
Example C12_ordex_choice :
  r_pick (det_rules ordex_tt ordex_pick) 0 2%N [0; 3]%N = Ret 3%N /\
  r_pick (det_rules ordex_tt ordex_pick) 0 2%N [3; 0]%N = Ret 3%N.
Proof. split; vm_compute; reflexivity. Qed.

(* discrete_SIR with a recovery test, full data: the two orders return the same rows and
   histories; the transmission lists differ as lists and are permutations of one another *)
Example C12_ordex_sir :
  exists o1 o2 f1 f2,
    discrete_SIR ordex_g (det_rules ordex_tt ordex_pick) (Some ordex_rec) ordex_id (Some [0; 3]%N) None None 0 None true 10 = Ret o1 /\
    discrete_SIR ordex_g (det_rules ordex_tt ordex_pick) (Some ordex_rec) ordex_rev (Some [0; 3]%N) None None 0 None true 10 = Ret o2 /\
    so_full (o_sim o1) = Some f1 /\ so_full (o_sim o2) = Some f2 /\
    so_rows (o_sim o1) = so_rows (o_sim o2) /\
    map snd (so_rows (o_sim o1)) = [[2; 2; 0]; [0; 4; 0]; [0; 2; 2]; [0; 0; 4]]%Z /\
    fd_hist f1 = fd_hist f2 /\
    map (fun e => (snd (fst e), snd e)) (fd_trans f1) = [(None, 0); (None, 3); (Some 0, 1); (Some 3, 2)]%N /\
    map (fun e => (snd (fst e), snd e)) (fd_trans f2) = [(None, 0); (None, 3); (Some 3, 2); (Some 0, 1)]%N /\
    fd_trans f1 <> fd_trans f2 /\ Permutation (fd_trans f1) (fd_trans f2).
Proof.
  do 4 eexists.
  split; [vm_compute; reflexivity|]. split; [vm_compute; reflexivity|].
  split; [vm_compute; reflexivity|]. split; [vm_compute; reflexivity|].
  split; [vm_compute; reflexivity|]. split; [vm_compute; reflexivity|].
  split; [vm_compute; reflexivity|]. split; [vm_compute; reflexivity|].
  split; [vm_compute; reflexivity|].
  split; [vm_compute; intro H; discriminate H|].
  vm_compute. apply perm_skip. apply perm_skip. apply perm_swap.
Qed.

(* basic_discrete_SIS, three steps *)
Example C12_ordex_sis :
  exists o1 o2 f1 f2,
    basic_discrete_SIS_R ordex_g (det_rules ordex_tt ordex_pick) ordex_id (Some [0; 3]%N) None 0 (Some 3) true 10 = Ret o1 /\
    basic_discrete_SIS_R ordex_g (det_rules ordex_tt ordex_pick) ordex_rev (Some [0; 3]%N) None 0 (Some 3) true 10 = Ret o2 /\
    so_full (o_sim o1) = Some f1 /\ so_full (o_sim o2) = Some f2 /\
    so_rows (o_sim o1) = so_rows (o_sim o2) /\
    map snd (so_rows (o_sim o1)) = [[2; 2]; [2; 2]; [2; 2]; [2; 2]]%Z /\
    fd_hist f1 = fd_hist f2 /\
    map (fun e => (snd (fst e), snd e)) (fd_trans f1) =
      [(None, 0); (None, 3); (Some 0, 1); (Some 3, 2); (Some 2, 0); (Some 2, 3); (Some 0, 1); (Some 3, 2)]%N /\
    map (fun e => (snd (fst e), snd e)) (fd_trans f2) =
      [(None, 0); (None, 3); (Some 3, 2); (Some 0, 1); (Some 2, 3); (Some 2, 0); (Some 3, 2); (Some 0, 1)]%N /\
    fd_trans f1 <> fd_trans f2 /\ Permutation (fd_trans f1) (fd_trans f2).
Proof.
  do 4 eexists.
  split; [vm_compute; reflexivity|]. split; [vm_compute; reflexivity|].
  split; [vm_compute; reflexivity|]. split; [vm_compute; reflexivity|].
  split; [vm_compute; reflexivity|]. split; [vm_compute; reflexivity|].
  split; [vm_compute; reflexivity|]. split; [vm_compute; reflexivity|].
  split; [vm_compute; reflexivity|].
  split; [vm_compute; intro H; discriminate H|].
  vm_compute. apply perm_skip. apply perm_skip.
  eapply perm_trans; [apply perm_swap|]. apply perm_skip. apply perm_skip.
  eapply perm_trans; [apply perm_swap|]. apply perm_skip. apply perm_skip.
  apply perm_swap.
Qed.

(* the fuel alternative is real: a recovery test that never succeeds, no horizon *)
Example C12_ordex_fuel :
  discrete_SIR ordex_g (det_rules ordex_tt ordex_pick) (Some (fun _ _ => false)) ordex_id (Some [0; 3]%N) None None 0 None true 10 = Fail OutOfFuel /\
  discrete_SIR ordex_g (det_rules ordex_tt ordex_pick) (Some (fun _ _ => false)) ordex_rev (Some [0; 3]%N) None None 0 None true 10 = Fail OutOfFuel.
Proof. split; vm_compute; reflexivity. Qed.

Print Assumptions C12_ordex_wf.
Print Assumptions C12_ordex_oracles.
Print Assumptions C12_ordex_choice.
Print Assumptions C12_ordex_sir.
Print Assumptions C12_ordex_sis.
Print Assumptions C12_ordex_fuel.
