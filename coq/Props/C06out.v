(* C06, output layer of the 35 ODE entry points of EoN/analytic.py that have no *_from_graph model
   (Model/Outputs.v, Model/Outputs2.v; the same definitions are extracted - Extract/XOut.v - and compared with
   the implementation on every run by harness/c06out.py).  Only statements; proofs in Proofs/Outputs*.v.

   The integrator (scipy.integrate.odeint, and the integrate.ode loop of _my_odeint_) is an abstract
   `msolver : initial vector -> times -> matrix`.  The only facts used about it are `msolver_ok`:
   one row per time, every row as wide as the initial vector, row 0 = the initial vector (the documented
   behaviour; trusted base 6 of DESIGN section 3).  `preserves w sv` = the solver keeps the linear functional w
   (what an exact flow - and every Runge-Kutta scheme - does when w(rhs) = 0, the conserve_ theorems of Props/C06.v).

   For an entry point E with arguments a:  run_model (m_E a) tmin tmax tcount sv = Ok r  is one call
   E(a, tmin, tmax, tcount).  `shaped r tmin tmax tcount X0 names`: the returned times are
   linspace(tmin,tmax,tcount), every returned array has tcount rows, the solver was started at X0 (block order and
   flattening order as stated), and the returned series are the documented ones in the documented order.
   sval/vval/mval nm j r = row j of the returned series named nm (scalar / vector / matrix valued).
   FULL STATEMENT per entry point: shaped; row 0 of every series = the requested initial quantity; S+I(+R) at
   every row = the structural total (N when the tuple is built by subtraction; the sum of solver row j otherwise,
   which is N for a solver that preserves the sum). *)
From EoNV Require Import Prelude Graph Aux Vec IC Wrappers VecP Rhs ICConserve Outputs OutputsP OutputsE1 OutputsE2 OutputsG.
From Coq Require Import Lqa.

(* ---------------- the time grid ---------------- *)
Theorem C06out_linspace_length : forall a b n, length (linspace a b n) = n.
Proof. exact linspace_length. Qed.
Print Assumptions C06out_linspace_length.
Theorem C06out_linspace_first : forall a b n, (0 < n)%nat -> nth 0 (linspace a b n) 0 == a.
Proof. exact linspace_first. Qed.
Print Assumptions C06out_linspace_first.
Theorem C06out_linspace_last : forall a b n, (1 < n)%nat -> nth (n - 1) (linspace a b n) 0 = b.
Proof. exact linspace_last. Qed.
Print Assumptions C06out_linspace_last.
Theorem C06out_linspace_step : forall a b n j, (1 < n)%nat -> (j < n - 1)%nat ->
  nth j (linspace a b n) 0 == a + Qnat j * ((b - a) / Qnat (n - 1)).
Proof. exact linspace_nth. Qed.
Print Assumptions C06out_linspace_step.

(* ---------------- the solver hypothesis is satisfiable; linear invariants ---------------- *)
(* explicit Euler for a right-hand side of dimension d satisfies msolver_ok *)
Theorem C06out_solver_hypothesis_nonvacuous : forall d f, shape_preserving d f -> msolver_ok (euler_solver d f).
Proof. exact euler_solver_ok. Qed.
Print Assumptions C06out_solver_hypothesis_nonvacuous.
(* and keeps the sum of the components whenever the components of the right-hand side sum to zero *)
Theorem C06out_linear_invariant_preserved : forall d f, shape_preserving d f ->
  (forall x t, length x = d -> vsum (f x t) == 0) -> preserves vsum (euler_solver d f).
Proof. exact euler_preserves_vsum. Qed.
Print Assumptions C06out_linear_invariant_preserved.
(* a run fails only when an argument check fails - never because of the solver *)
Theorem C06out_errors_are_argument_errors : forall m tmin tmax n sv e, run_model m tmin tmax n sv = Err e ->
  m = Err e \/ exists x0 asm x, m = Ok (x0, asm) /\ asm x = Err e.
Proof. exact run_err. Qed.
Print Assumptions C06out_errors_are_argument_errors.

(* ---------------- homogeneous mean field ---------------- *)
Theorem C06out_SIS_homogeneous_meanfield : forall sv S0 I0 tmin tmax n r,
  msolver_ok sv -> (0 < n)%nat -> run_model (m_SIS_homogeneous_meanfield S0 I0) tmin tmax n sv = Ok r ->
  shaped r tmin tmax n [S0; I0] [oS; oI] /\
  sval oS 0 r = S0 /\ sval oI 0 r = I0 /\
  (forall j, (j < n)%nat -> sval oS j r + sval oI j r == vsum (nth j (sv [S0; I0] (linspace tmin tmax n)) [])).
Proof. exact out_SIS_homogeneous_meanfield. Qed.
Print Assumptions C06out_SIS_homogeneous_meanfield.
Theorem C06out_SIS_homogeneous_meanfield_conserved : forall sv S0 I0 tmin tmax n r,
  msolver_ok sv -> preserves vsum sv -> (0 < n)%nat -> run_model (m_SIS_homogeneous_meanfield S0 I0) tmin tmax n sv = Ok r ->
  forall j, (j < n)%nat -> sval oS j r + sval oI j r == S0 + I0.
Proof. exact out_SIS_homogeneous_meanfield_conserve. Qed.
Print Assumptions C06out_SIS_homogeneous_meanfield_conserved.
(* the connection with the GENERATED right-hand side: integrated by explicit Euler, S+I = N at every returned row *)
Theorem C06out_SIS_homogeneous_meanfield_generated_rhs : forall c tau gamma S0 I0 tmin tmax n r,
  (0 < n)%nat ->
  run_model (m_SIS_homogeneous_meanfield S0 I0) tmin tmax n (euler_solver 2 (fun x t => dSIS_homogeneous_meanfield x t c tau gamma)) = Ok r ->
  forall j, (j < n)%nat -> sval oS j r + sval oI j r == S0 + I0.
Proof. exact out_SIS_homogeneous_meanfield_generated. Qed.
Print Assumptions C06out_SIS_homogeneous_meanfield_generated_rhs.
Example C06out_SIS_homogeneous_meanfield_example :
  exists r, run_model (m_SIS_homogeneous_meanfield 9 1) 0 1 3 (euler_solver 2 (fun x t => dSIS_homogeneous_meanfield x t (3 # 10) 1 1)) = Ok r
            /\ map (fun j => Qred (sval oS j r + sval oI j r)) [0; 1; 2]%nat = [10; 10; 10] /\ ~ sval oI 2 r == 1.
Proof. eexists. split; [reflexivity|]. split; [vm_compute; reflexivity|]. vm_compute. discriminate. Qed.
Print Assumptions C06out_SIS_homogeneous_meanfield_example.

Theorem C06out_SIR_homogeneous_meanfield : forall sv S0 I0 R0 tmin tmax n r,
  msolver_ok sv -> (0 < n)%nat -> run_model (m_SIR_homogeneous_meanfield S0 I0 R0) tmin tmax n sv = Ok r ->
  shaped r tmin tmax n [S0; I0] [oS; oI; oR] /\
  sval oS 0 r = S0 /\ sval oI 0 r = I0 /\ sval oR 0 r == R0 /\
  (forall j, (j < n)%nat -> sval oS j r + sval oI j r + sval oR j r == S0 + I0 + R0).
Proof. exact out_SIR_homogeneous_meanfield. Qed.
Print Assumptions C06out_SIR_homogeneous_meanfield.

(* ---------------- homogeneous pairwise ---------------- *)
Theorem C06out_SIS_homogeneous_pairwise : forall sv S0 I0 SI0 SS0 nn full tmin tmax n r,
  msolver_ok sv -> (0 < n)%nat -> run_model (m_SIS_homogeneous_pairwise S0 I0 SI0 SS0 nn full) tmin tmax n sv = Ok r ->
  shaped r tmin tmax n [S0; SI0; SS0] (if full then [oS; oI; oSI; oSS; oII] else [oS; oI]) /\
  sval oS 0 r = S0 /\ sval oI 0 r == I0 /\
  (full = true -> sval oSI 0 r = SI0 /\ sval oSS 0 r = SS0 /\ sval oII 0 r == (S0 + I0) * nn - SS0 - 2 * SI0) /\
  (forall j, (j < n)%nat -> sval oS j r + sval oI j r == S0 + I0).
Proof. exact out_SIS_homogeneous_pairwise. Qed.
Print Assumptions C06out_SIS_homogeneous_pairwise.
Theorem C06out_accepts_SIS_homogeneous_pairwise : forall sv S0 I0 SI0 SS0 nn full tmin tmax n,
  SS0 + SI0 * 2 <= nn * (S0 + I0) -> exists r, run_model (m_SIS_homogeneous_pairwise S0 I0 SI0 SS0 nn full) tmin tmax n sv = Ok r.
Proof. exact accepts_SIS_homogeneous_pairwise. Qed.
Print Assumptions C06out_accepts_SIS_homogeneous_pairwise.
Theorem C06out_SIR_homogeneous_pairwise : forall sv S0 I0 R0 SI0 SS0 nn full tmin tmax n r,
  msolver_ok sv -> (0 < n)%nat -> run_model (m_SIR_homogeneous_pairwise S0 I0 R0 SI0 SS0 nn full) tmin tmax n sv = Ok r ->
  shaped r tmin tmax n [S0; I0; SI0; SS0] (if full then [oS; oI; oR; oSI; oSS] else [oS; oI; oR]) /\
  sval oS 0 r = S0 /\ sval oI 0 r = I0 /\ sval oR 0 r == R0 /\
  (full = true -> sval oSI 0 r = SI0 /\ sval oSS 0 r = SS0) /\
  (forall j, (j < n)%nat -> sval oS j r + sval oI j r + sval oR j r == S0 + I0 + R0).
Proof. exact out_SIR_homogeneous_pairwise. Qed.
Print Assumptions C06out_SIR_homogeneous_pairwise.
Theorem C06out_accepts_SIR_homogeneous_pairwise : forall sv S0 I0 R0 SI0 SS0 nn full tmin tmax n,
  SS0 + 2 * SI0 <= nn * (S0 + I0 + R0) -> exists r, run_model (m_SIR_homogeneous_pairwise S0 I0 R0 SI0 SS0 nn full) tmin tmax n sv = Ok r.
Proof. exact accepts_SIR_homogeneous_pairwise. Qed.
Print Assumptions C06out_accepts_SIR_homogeneous_pairwise.

(* ---------------- heterogeneous mean field ---------------- *)
Theorem C06out_SIS_heterogeneous_meanfield : forall sv Sk0 Ik0 full tmin tmax n r,
  msolver_ok sv -> (0 < n)%nat -> run_model (m_SIS_heterogeneous_meanfield Sk0 Ik0 full) tmin tmax n sv = Ok r ->
  length Sk0 = length Ik0 /\
  shaped r tmin tmax n (Sk0 ++ Ik0) (if full then [oS; oI; oSk; oIk] else [oS; oI]) /\
  sval oS 0 r = vsum Sk0 /\ sval oI 0 r = vsum Ik0 /\
  (full = true -> vval oSk 0 r = Sk0 /\ vval oIk 0 r = Ik0) /\
  (forall j, (j < n)%nat -> sval oS j r + sval oI j r == vsum (nth j (sv (Sk0 ++ Ik0) (linspace tmin tmax n)) [])).
Proof. exact out_SIS_heterogeneous_meanfield. Qed.
Print Assumptions C06out_SIS_heterogeneous_meanfield.
Theorem C06out_SIS_heterogeneous_meanfield_conserved : forall sv Sk0 Ik0 full tmin tmax n r,
  msolver_ok sv -> preserves vsum sv -> (0 < n)%nat -> run_model (m_SIS_heterogeneous_meanfield Sk0 Ik0 full) tmin tmax n sv = Ok r ->
  forall j, (j < n)%nat -> sval oS j r + sval oI j r == vsum Sk0 + vsum Ik0.
Proof. exact out_SIS_heterogeneous_meanfield_conserve. Qed.
Print Assumptions C06out_SIS_heterogeneous_meanfield_conserved.
Theorem C06out_SIS_heterogeneous_meanfield_generated_rhs : forall tau gamma Sk0 Ik0 full tmin tmax n r,
  (0 < n)%nat ->
  run_model (m_SIS_heterogeneous_meanfield Sk0 Ik0 full) tmin tmax n
            (euler_solver (2 * length Sk0) (fun x t => dSIS_heterogeneous_meanfield x t (length Sk0) tau gamma)) = Ok r ->
  forall j, (j < n)%nat -> sval oS j r + sval oI j r == vsum Sk0 + vsum Ik0.
Proof. exact out_SIS_heterogeneous_meanfield_generated. Qed.
Print Assumptions C06out_SIS_heterogeneous_meanfield_generated_rhs.
Theorem C06out_accepts_SIS_heterogeneous_meanfield : forall sv Sk0 Ik0 full tmin tmax n,
  length Sk0 = length Ik0 -> exists r, run_model (m_SIS_heterogeneous_meanfield Sk0 Ik0 full) tmin tmax n sv = Ok r.
Proof. exact accepts_SIS_heterogeneous_meanfield. Qed.
Print Assumptions C06out_accepts_SIS_heterogeneous_meanfield.
(* full data returns (Sk, Ik, Rk) only *)
Theorem C06out_SIR_heterogeneous_meanfield : forall sv Sk0 Ik0 Rk0 full tmin tmax n r,
  msolver_ok sv -> (0 < n)%nat -> run_model (m_SIR_heterogeneous_meanfield Sk0 Ik0 Rk0 full) tmin tmax n sv = Ok r ->
  length Sk0 = length Ik0 /\ length Sk0 = length Rk0 /\
  shaped r tmin tmax n (1 :: Rk0) (if full then [oSk; oIk; oRk] else [oS; oI; oR]) /\
  (if full then veq (vval oSk 0 r) Sk0 /\ veq (vval oIk 0 r) Ik0 /\ vval oRk 0 r = Rk0
   else sval oS 0 r == vsum Sk0 /\ sval oI 0 r == vsum Ik0 /\ sval oR 0 r = vsum Rk0) /\
  (forall j, (j < n)%nat ->
     (if full then vsum (vval oSk j r) + vsum (vval oIk j r) + vsum (vval oRk j r) else sval oS j r + sval oI j r + sval oR j r)
     == vsum Sk0 + vsum Ik0 + vsum Rk0).
Proof. exact out_SIR_heterogeneous_meanfield. Qed.
Print Assumptions C06out_SIR_heterogeneous_meanfield.

(* ---------------- heterogeneous pairwise: 2-D arrays flattened row-major; returned ..., SkIl, SkSl ---------------- *)
Theorem C06out_SIS_heterogeneous_pairwise : forall sv Sk0 Ik0 SkSl0 SkIl0 IkIl0 full tmin tmax n r,
  msolver_ok sv -> (0 < n)%nat ->
  length Sk0 = length Ik0 -> length SkSl0 = length Sk0 -> length SkIl0 = length Sk0 -> rect (length Sk0) SkSl0 -> rect (length Sk0) SkIl0 ->
  run_model (m_SIS_heterogeneous_pairwise Sk0 Ik0 SkSl0 SkIl0 IkIl0 full) tmin tmax n sv = Ok r ->
  shaped r tmin tmax n (Sk0 ++ flatten SkSl0 ++ flatten SkIl0) (if full then [oS; oI; oSk; oIk; oSkIl; oSkSl; oIkIl] else [oS; oI]) /\
  sval oS 0 r = vsum Sk0 /\ sval oI 0 r == vsum Ik0 /\
  (full = true -> vval oSk 0 r = Sk0 /\ veq (vval oIk 0 r) Ik0 /\ mval oSkIl 0 r = SkIl0 /\ mval oSkSl 0 r = SkSl0) /\
  (forall j, (j < n)%nat -> sval oS j r + sval oI j r == vsum Sk0 + vsum Ik0).
Proof. exact out_SIS_heterogeneous_pairwise. Qed.
Print Assumptions C06out_SIS_heterogeneous_pairwise.
Theorem C06out_SIR_heterogeneous_pairwise : forall sv Sk0 Ik0 Rk0 SkSl0 SkIl0 Ks full tmin tmax n r,
  msolver_ok sv -> (0 < n)%nat ->
  length Sk0 = length Ik0 -> length Sk0 = length Rk0 -> length SkSl0 = length Sk0 -> length SkIl0 = length Sk0 ->
  rect (length Sk0) SkSl0 -> rect (length Sk0) SkIl0 -> match Ks with Some l => length l = length Sk0 | None => True end ->
  run_model (m_SIR_heterogeneous_pairwise Sk0 Ik0 Rk0 SkSl0 SkIl0 Ks full) tmin tmax n sv = Ok r ->
  shaped r tmin tmax n (Sk0 ++ Ik0 ++ flatten SkSl0 ++ flatten SkIl0) (if full then [oS; oI; oR; oSk; oIk; oRk; oSkIl; oSkSl] else [oS; oI; oR]) /\
  sval oS 0 r = vsum Sk0 /\ sval oI 0 r = vsum Ik0 /\ sval oR 0 r == vsum Rk0 /\
  (full = true -> vval oSk 0 r = Sk0 /\ vval oIk 0 r = Ik0 /\ veq (vval oRk 0 r) Rk0 /\ mval oSkIl 0 r = SkIl0 /\ mval oSkSl 0 r = SkSl0) /\
  (forall j, (j < n)%nat -> sval oS j r + sval oI j r + sval oR j r == vsum Sk0 + vsum Ik0 + vsum Rk0).
Proof. exact out_SIR_heterogeneous_pairwise. Qed.
Print Assumptions C06out_SIR_heterogeneous_pairwise.
(* non-vacuity, and the flattening order: a non-symmetric 2x2 block comes back as it was given *)
Example C06out_SIR_heterogeneous_pairwise_example :
  exists r, run_model (m_SIR_heterogeneous_pairwise [3; 4] [1; 2] [0; 1] [[1; 2]; [3; 4]] [[5; 6]; [7; 8]] None true) 0 1 2 (fun x0 ts => map (fun _ => x0) ts) = Ok r
            /\ mval oSkSl 1 r = [[1; 2]; [3; 4]] /\ mval oSkIl 1 r = [[5; 6]; [7; 8]] /\ r_X0 r = [3; 4; 1; 2; 1; 2; 3; 4; 5; 6; 7; 8].
Proof. eexists. split; [reflexivity|]. vm_compute. auto. Qed.
Print Assumptions C06out_SIR_heterogeneous_pairwise_example.

(* ---------------- compact pairwise / compact effective degree ---------------- *)
Theorem C06out_SIS_compact_pairwise : forall sv Sk0 Ik0 SI0 SS0 II0 full tmin tmax n r,
  msolver_ok sv -> (0 < n)%nat -> length Sk0 = length Ik0 ->
  run_model (m_SIS_compact_pairwise Sk0 Ik0 SI0 SS0 II0 full) tmin tmax n sv = Ok r ->
  shaped r tmin tmax n (Sk0 ++ [SI0; SS0]) (if full then [oS; oI; oSk; oIk; oSI; oSS; oII] else [oS; oI]) /\
  sval oS 0 r = vsum Sk0 /\ sval oI 0 r == vsum Ik0 /\
  (full = true -> vval oSk 0 r = Sk0 /\ veq (vval oIk 0 r) Ik0 /\ sval oSI 0 r = SI0 /\ sval oSS 0 r = SS0 /\ sval oII 0 r == II0) /\
  (forall j, (j < n)%nat -> sval oS j r + sval oI j r == vsum Sk0 + vsum Ik0).
Proof. exact out_SIS_compact_pairwise. Qed.
Print Assumptions C06out_SIS_compact_pairwise.
Theorem C06out_SIS_compact_effective_degree_forwards : forall Sk0 Ik0 SI0 SS0 II0 full,
  m_SIS_compact_effective_degree Sk0 Ik0 SI0 SS0 II0 full = m_SIS_compact_pairwise Sk0 Ik0 SI0 SS0 II0 full.
Proof. exact out_SIS_compact_effective_degree_is_compact_pairwise. Qed.
Print Assumptions C06out_SIS_compact_effective_degree_forwards.
(* full data returns (Sk, I, R, SS, SI): no aggregated S *)
Theorem C06out_SIR_compact_pairwise : forall sv Sk0 I0 R0 SS0 SI0 full tmin tmax n r,
  msolver_ok sv -> (0 < n)%nat -> run_model (m_SIR_compact_pairwise Sk0 I0 R0 SS0 SI0 full) tmin tmax n sv = Ok r ->
  shaped r tmin tmax n (Sk0 ++ [SS0; SI0; R0]) (if full then [oSk; oI; oR; oSS; oSI] else [oS; oI; oR]) /\
  (full = false -> sval oS 0 r = vsum Sk0) /\ sval oI 0 r == I0 /\ sval oR 0 r = R0 /\
  (full = true -> vval oSk 0 r = Sk0 /\ sval oSS 0 r = SS0 /\ sval oSI 0 r = SI0) /\
  (forall j, (j < n)%nat -> (if full then vsum (vval oSk j r) else sval oS j r) + sval oI j r + sval oR j r == I0 + R0 + vsum Sk0).
Proof. exact out_SIR_compact_pairwise. Qed.
Print Assumptions C06out_SIR_compact_pairwise.
Theorem C06out_SIR_compact_effective_degree : forall sv Skappa0 I0 R0 SI0 full tmin tmax n r,
  msolver_ok sv -> (0 < n)%nat -> run_model (m_SIR_compact_effective_degree Skappa0 I0 R0 SI0 full) tmin tmax n sv = Ok r ->
  shaped r tmin tmax n (Skappa0 ++ [R0; SI0]) (if full then [oS; oI; oR; oSkappa; oSI] else [oS; oI; oR]) /\
  sval oS 0 r = vsum Skappa0 /\ sval oI 0 r == I0 /\ sval oR 0 r = R0 /\
  (full = true -> vval oSkappa 0 r = Skappa0 /\ sval oSI 0 r = SI0) /\
  (forall j, (j < n)%nat -> sval oS j r + sval oI j r + sval oR j r == vsum Skappa0 + I0 + R0).
Proof. exact out_SIR_compact_effective_degree. Qed.
Print Assumptions C06out_SIR_compact_effective_degree.

(* ---------------- super compact pairwise ---------------- *)
Theorem C06out_SIS_super_compact_pairwise : forall sv S0 I0 SS0 SI0 II0 full tmin tmax n r,
  msolver_ok sv -> (0 < n)%nat -> run_model (m_SIS_super_compact_pairwise S0 I0 SS0 SI0 II0 full) tmin tmax n sv = Ok r ->
  shaped r tmin tmax n [I0; SS0; SI0; II0] (if full then [oS; oI; oSS; oSI; oII] else [oS; oI]) /\
  sval oS 0 r == S0 /\ sval oI 0 r = I0 /\
  (full = true -> sval oSS 0 r = SS0 /\ sval oSI 0 r = SI0 /\ sval oII 0 r = II0) /\
  (forall j, (j < n)%nat -> sval oS j r + sval oI j r == S0 + I0).
Proof. exact out_SIS_super_compact_pairwise. Qed.
Print Assumptions C06out_SIS_super_compact_pairwise.
Theorem C06out_SIR_super_compact_pairwise : forall sv R0 SS0 SI0 N psihat full tmin tmax n r,
  msolver_ok sv -> (0 < n)%nat -> run_model (m_SIR_super_compact_pairwise R0 SS0 SI0 N psihat full) tmin tmax n sv = Ok r ->
  shaped r tmin tmax n [1; SS0; SI0; R0] (if full then [oS; oI; oR; oSS; oSI] else [oS; oI; oR]) /\
  sval oS 0 r = N * psihat 1 /\ sval oI 0 r == N - N * psihat 1 - R0 /\ sval oR 0 r = R0 /\
  (full = true -> sval oSS 0 r = SS0 /\ sval oSI 0 r = SI0) /\
  (forall j, (j < n)%nat -> sval oS j r + sval oI j r + sval oR j r == N).
Proof. exact out_SIR_super_compact_pairwise. Qed.
Print Assumptions C06out_SIR_super_compact_pairwise.

(* ---------------- effective degree: (rows x cols) blocks flattened row-major ---------------- *)
Theorem C06out_SIS_effective_degree : forall sv Ssi0 Isi0 full tmin tmax n r,
  msolver_ok sv -> (0 < n)%nat ->
  rect (length (mrow Ssi0 0)) Ssi0 -> rect (length (mrow Ssi0 0)) Isi0 -> length Isi0 = length Ssi0 ->
  run_model (m_SIS_effective_degree Ssi0 Isi0 full) tmin tmax n sv = Ok r ->
  shaped r tmin tmax n (flatten Ssi0 ++ flatten Isi0) (if full then [oS; oI; oSsi; oIsi] else [oS; oI]) /\
  sval oS 0 r == msum Ssi0 /\ sval oI 0 r == msum Isi0 /\
  (full = true -> mval oSsi 0 r = Ssi0 /\ mval oIsi 0 r = Isi0) /\
  (forall j, (j < n)%nat -> sval oS j r + sval oI j r == vsum (nth j (sv (flatten Ssi0 ++ flatten Isi0) (linspace tmin tmax n)) [])).
Proof. exact out_SIS_effective_degree. Qed.
Print Assumptions C06out_SIS_effective_degree.
Theorem C06out_SIR_effective_degree : forall sv Ssi0 I0 R0 full tmin tmax n r,
  msolver_ok sv -> (0 < n)%nat -> rect (length (mrow Ssi0 0)) Ssi0 ->
  run_model (m_SIR_effective_degree Ssi0 I0 R0 full) tmin tmax n sv = Ok r ->
  shaped r tmin tmax n (flatten Ssi0 ++ [R0]) (if full then [oS; oI; oR; oSsi] else [oS; oI; oR]) /\
  sval oS 0 r == msum Ssi0 /\ sval oI 0 r == I0 /\ sval oR 0 r = R0 /\
  (full = true -> mval oSsi 0 r = Ssi0) /\
  (forall j, (j < n)%nat -> sval oS j r + sval oI j r + sval oR j r == msum Ssi0 + I0 + R0).
Proof. exact out_SIR_effective_degree. Qed.
Print Assumptions C06out_SIR_effective_degree.
Example C06out_SIS_effective_degree_example :   (* a 2 x 3 block: rows stay rows *)
  exists r, run_model (m_SIS_effective_degree [[1; 2; 3]; [4; 5; 6]] [[7; 8; 9]; [10; 11; 12]] true) 0 1 2 (fun x0 ts => map (fun _ => x0) ts) = Ok r
            /\ mval oSsi 1 r = [[1; 2; 3]; [4; 5; 6]] /\ mval oIsi 1 r = [[7; 8; 9]; [10; 11; 12]].
Proof. eexists. split; [reflexivity|]. vm_compute. auto. Qed.
Print Assumptions C06out_SIS_effective_degree_example.

(* ---------------- EBCM ---------------- *)
Theorem C06out_EBCM : forall sv N psihat R0 full tmin tmax n r,
  msolver_ok sv -> (0 < n)%nat -> run_model (m_EBCM N psihat R0 full) tmin tmax n sv = Ok r ->
  shaped r tmin tmax n [1; R0] (if full then [oS; oI; oR; oTheta] else [oS; oI; oR]) /\
  sval oS 0 r = N * psihat 1 /\ sval oI 0 r == N - N * psihat 1 - R0 /\ sval oR 0 r = R0 /\
  (full = true -> sval oTheta 0 r = 1) /\
  (forall j, (j < n)%nat -> sval oS j r + sval oI j r + sval oR j r == N).
Proof. exact out_EBCM. Qed.
Print Assumptions C06out_EBCM.
