(* C06, output layer of the 35 ODE entry points of EoN/analytic.py that have no *_from_graph model
   (Model/Outputs.v, Model/Outputs2.v; the same definitions are extracted - Extract/XOut.v - and compared with
   the implementation on every run by harness/c06out.py).  Only statements; proofs in Proofs/Outputs*.v.

   The integrator (scipy.integrate.odeint, and the integrate.ode loop of _my_odeint_) is an abstract
   `msolver : initial vector -> times -> matrix`.  The only facts used about it are `msolver_ok`:
   one row per time, every row as wide as the initial vector, row 0 = the initial vector (the documented
   behaviour; trusted base 6 of DESIGN section 3).  `preserves w sv` = the solver keeps the linear functional w
   (what an exact flow - and every Runge-Kutta scheme - does when w(rhs) = 0, the conserve_ theorems of Props/C06.v).

   For an entry point E with arguments a:  run_model (m_E a) tmin tmax tcount sv = Ok r  is one call
   E(a, tmin, tmax, tcount).  `shaped r tmin tmax tcount X0 names`: the returned times are
   linspace(tmin,tmax,tcount), every returned array has tcount rows, the solver was started at X0 (block order and
   flattening order as stated), and the returned series are the documented ones in the documented order.
   sval/vval/mval nm j r = row j of the returned series named nm (scalar / vector / matrix valued).
   FULL STATEMENT per entry point: shaped; row 0 of every series = the requested initial quantity; S+I(+R) at
   every row = the structural total (N when the tuple is built by subtraction; the sum of solver row j otherwise,
   which is N for a solver that preserves the sum). *)
From EoNV Require Import Prelude Graph Aux Vec IC Wrappers VecP ICP Rhs ICConserve Attack Pgf Rhs2D C14xDef Outputs Outputs2 OutputsP OutputsE1 OutputsE2 OutputsG OutputsN OutputsD.
From Coq Require Import Lqa.

(* ---------------- the time grid ---------------- *)
Theorem C06out_linspace_length : forall a b n, length (linspace a b n) = n.
Proof. exact linspace_length. Qed.
Print Assumptions C06out_linspace_length.
Theorem C06out_linspace_first : forall a b n, (0 < n)%nat -> nth 0 (linspace a b n) 0 == a.
Proof. exact linspace_first. Qed.
Print Assumptions C06out_linspace_first.
Theorem C06out_linspace_last : forall a b n, (1 < n)%nat -> nth (n - 1) (linspace a b n) 0 = b.
Proof. exact linspace_last. Qed.
Print Assumptions C06out_linspace_last.
Theorem C06out_linspace_step : forall a b n j, (1 < n)%nat -> (j < n - 1)%nat ->
  nth j (linspace a b n) 0 == a + Qnat j * ((b - a) / Qnat (n - 1)).
Proof. exact linspace_nth. Qed.
Print Assumptions C06out_linspace_step.

(* ---------------- the solver hypothesis is satisfiable; linear invariants ---------------- *)
(* explicit Euler for a right-hand side of dimension d satisfies msolver_ok *)
Theorem C06out_solver_hypothesis_nonvacuous : forall d f, shape_preserving d f -> msolver_ok (euler_solver d f).
Proof. exact euler_solver_ok. Qed.
Print Assumptions C06out_solver_hypothesis_nonvacuous.
(* and keeps the sum of the components whenever the components of the right-hand side sum to zero *)
Theorem C06out_linear_invariant_preserved : forall d f, shape_preserving d f ->
  (forall x t, length x = d -> vsum (f x t) == 0) -> preserves vsum (euler_solver d f).
Proof. exact euler_preserves_vsum. Qed.
Print Assumptions C06out_linear_invariant_preserved.
(* a run fails only when an argument check fails - never because of the solver *)
Theorem C06out_errors_are_argument_errors : forall m tmin tmax n sv e, run_model m tmin tmax n sv = Err e ->
  m = Err e \/ exists x0 asm x, m = Ok (x0, asm) /\ asm x = Err e.
Proof. exact run_err. Qed.
Print Assumptions C06out_errors_are_argument_errors.

(* ---------------- homogeneous mean field ---------------- *)
Theorem C06out_SIS_homogeneous_meanfield : forall sv S0 I0 tmin tmax n r,
  msolver_ok sv -> (0 < n)%nat -> run_model (m_SIS_homogeneous_meanfield S0 I0) tmin tmax n sv = Ok r ->
  shaped r tmin tmax n [S0; I0] [oS; oI] /\
  sval oS 0 r = S0 /\ sval oI 0 r = I0 /\
  (forall j, (j < n)%nat -> sval oS j r + sval oI j r == vsum (nth j (sv [S0; I0] (linspace tmin tmax n)) [])).
Proof. exact out_SIS_homogeneous_meanfield. Qed.
Print Assumptions C06out_SIS_homogeneous_meanfield.
Theorem C06out_SIS_homogeneous_meanfield_conserved : forall sv S0 I0 tmin tmax n r,
  msolver_ok sv -> preserves vsum sv -> (0 < n)%nat -> run_model (m_SIS_homogeneous_meanfield S0 I0) tmin tmax n sv = Ok r ->
  forall j, (j < n)%nat -> sval oS j r + sval oI j r == S0 + I0.
Proof. exact out_SIS_homogeneous_meanfield_conserve. Qed.
Print Assumptions C06out_SIS_homogeneous_meanfield_conserved.
(* the connection with the GENERATED right-hand side: integrated by explicit Euler, S+I = N at every returned row *)
Theorem C06out_SIS_homogeneous_meanfield_generated_rhs : forall c tau gamma S0 I0 tmin tmax n r,
  (0 < n)%nat ->
  run_model (m_SIS_homogeneous_meanfield S0 I0) tmin tmax n (euler_solver 2 (fun x t => dSIS_homogeneous_meanfield x t c tau gamma)) = Ok r ->
  forall j, (j < n)%nat -> sval oS j r + sval oI j r == S0 + I0.
Proof. exact out_SIS_homogeneous_meanfield_generated. Qed.
Print Assumptions C06out_SIS_homogeneous_meanfield_generated_rhs.
Example C06out_SIS_homogeneous_meanfield_example :
  exists r, run_model (m_SIS_homogeneous_meanfield 9 1) 0 1 3 (euler_solver 2 (fun x t => dSIS_homogeneous_meanfield x t (3 # 10) 1 1)) = Ok r
            /\ map (fun j => Qred (sval oS j r + sval oI j r)) [0; 1; 2]%nat = [10; 10; 10] /\ ~ sval oI 2 r == 1.
Proof. eexists. split; [vm_compute; reflexivity|]. split; [vm_compute; reflexivity|]. vm_compute. discriminate. Qed.
Print Assumptions C06out_SIS_homogeneous_meanfield_example.

Theorem C06out_SIR_homogeneous_meanfield : forall sv S0 I0 R0 tmin tmax n r,
  msolver_ok sv -> (0 < n)%nat -> run_model (m_SIR_homogeneous_meanfield S0 I0 R0) tmin tmax n sv = Ok r ->
  shaped r tmin tmax n [S0; I0] [oS; oI; oR] /\
  sval oS 0 r = S0 /\ sval oI 0 r = I0 /\ sval oR 0 r == R0 /\
  (forall j, (j < n)%nat -> sval oS j r + sval oI j r + sval oR j r == S0 + I0 + R0).
Proof. exact out_SIR_homogeneous_meanfield. Qed.
Print Assumptions C06out_SIR_homogeneous_meanfield.

(* ---------------- homogeneous pairwise ---------------- *)
Theorem C06out_SIS_homogeneous_pairwise : forall sv S0 I0 SI0 SS0 nn full tmin tmax n r,
  msolver_ok sv -> (0 < n)%nat -> run_model (m_SIS_homogeneous_pairwise S0 I0 SI0 SS0 nn full) tmin tmax n sv = Ok r ->
  shaped r tmin tmax n [S0; SI0; SS0] (if full then [oS; oI; oSI; oSS; oII] else [oS; oI]) /\
  sval oS 0 r = S0 /\ sval oI 0 r == I0 /\
  (full = true -> sval oSI 0 r = SI0 /\ sval oSS 0 r = SS0 /\ sval oII 0 r == (S0 + I0) * nn - SS0 - 2 * SI0) /\
  (forall j, (j < n)%nat -> sval oS j r + sval oI j r == S0 + I0).
Proof. exact out_SIS_homogeneous_pairwise. Qed.
Print Assumptions C06out_SIS_homogeneous_pairwise.
Theorem C06out_accepts_SIS_homogeneous_pairwise : forall sv S0 I0 SI0 SS0 nn full tmin tmax n,
  SS0 + SI0 * 2 <= nn * (S0 + I0) -> exists r, run_model (m_SIS_homogeneous_pairwise S0 I0 SI0 SS0 nn full) tmin tmax n sv = Ok r.
Proof. exact accepts_SIS_homogeneous_pairwise. Qed.
Print Assumptions C06out_accepts_SIS_homogeneous_pairwise.
Theorem C06out_SIR_homogeneous_pairwise : forall sv S0 I0 R0 SI0 SS0 nn full tmin tmax n r,
  msolver_ok sv -> (0 < n)%nat -> run_model (m_SIR_homogeneous_pairwise S0 I0 R0 SI0 SS0 nn full) tmin tmax n sv = Ok r ->
  shaped r tmin tmax n [S0; I0; SI0; SS0] (if full then [oS; oI; oR; oSI; oSS] else [oS; oI; oR]) /\
  sval oS 0 r = S0 /\ sval oI 0 r = I0 /\ sval oR 0 r == R0 /\
  (full = true -> sval oSI 0 r = SI0 /\ sval oSS 0 r = SS0) /\
  (forall j, (j < n)%nat -> sval oS j r + sval oI j r + sval oR j r == S0 + I0 + R0).
Proof. exact out_SIR_homogeneous_pairwise. Qed.
Print Assumptions C06out_SIR_homogeneous_pairwise.
Theorem C06out_accepts_SIR_homogeneous_pairwise : forall sv S0 I0 R0 SI0 SS0 nn full tmin tmax n,
  SS0 + 2 * SI0 <= nn * (S0 + I0 + R0) -> exists r, run_model (m_SIR_homogeneous_pairwise S0 I0 R0 SI0 SS0 nn full) tmin tmax n sv = Ok r.
Proof. exact accepts_SIR_homogeneous_pairwise. Qed.
Print Assumptions C06out_accepts_SIR_homogeneous_pairwise.

(* ---------------- heterogeneous mean field ---------------- *)
Theorem C06out_SIS_heterogeneous_meanfield : forall sv Sk0 Ik0 full tmin tmax n r,
  msolver_ok sv -> (0 < n)%nat -> run_model (m_SIS_heterogeneous_meanfield Sk0 Ik0 full) tmin tmax n sv = Ok r ->
  length Sk0 = length Ik0 /\
  shaped r tmin tmax n (Sk0 ++ Ik0) (if full then [oS; oI; oSk; oIk] else [oS; oI]) /\
  sval oS 0 r = vsum Sk0 /\ sval oI 0 r = vsum Ik0 /\
  (full = true -> vval oSk 0 r = Sk0 /\ vval oIk 0 r = Ik0) /\
  (forall j, (j < n)%nat -> sval oS j r + sval oI j r == vsum (nth j (sv (Sk0 ++ Ik0) (linspace tmin tmax n)) [])).
Proof. exact out_SIS_heterogeneous_meanfield. Qed.
Print Assumptions C06out_SIS_heterogeneous_meanfield.
Theorem C06out_SIS_heterogeneous_meanfield_conserved : forall sv Sk0 Ik0 full tmin tmax n r,
  msolver_ok sv -> preserves vsum sv -> (0 < n)%nat -> run_model (m_SIS_heterogeneous_meanfield Sk0 Ik0 full) tmin tmax n sv = Ok r ->
  forall j, (j < n)%nat -> sval oS j r + sval oI j r == vsum Sk0 + vsum Ik0.
Proof. exact out_SIS_heterogeneous_meanfield_conserve. Qed.
Print Assumptions C06out_SIS_heterogeneous_meanfield_conserved.
Theorem C06out_SIS_heterogeneous_meanfield_generated_rhs : forall tau gamma Sk0 Ik0 full tmin tmax n r,
  (0 < n)%nat ->
  run_model (m_SIS_heterogeneous_meanfield Sk0 Ik0 full) tmin tmax n
            (euler_solver (2 * length Sk0) (fun x t => dSIS_heterogeneous_meanfield x t (length Sk0) tau gamma)) = Ok r ->
  forall j, (j < n)%nat -> sval oS j r + sval oI j r == vsum Sk0 + vsum Ik0.
Proof. exact out_SIS_heterogeneous_meanfield_generated. Qed.
Print Assumptions C06out_SIS_heterogeneous_meanfield_generated_rhs.
Theorem C06out_accepts_SIS_heterogeneous_meanfield : forall sv Sk0 Ik0 full tmin tmax n,
  length Sk0 = length Ik0 -> exists r, run_model (m_SIS_heterogeneous_meanfield Sk0 Ik0 full) tmin tmax n sv = Ok r.
Proof. exact accepts_SIS_heterogeneous_meanfield. Qed.
Print Assumptions C06out_accepts_SIS_heterogeneous_meanfield.
(* full data returns (Sk, Ik, Rk) only *)
Theorem C06out_SIR_heterogeneous_meanfield : forall sv Sk0 Ik0 Rk0 full tmin tmax n r,
  msolver_ok sv -> (0 < n)%nat -> run_model (m_SIR_heterogeneous_meanfield Sk0 Ik0 Rk0 full) tmin tmax n sv = Ok r ->
  length Sk0 = length Ik0 /\ length Sk0 = length Rk0 /\
  shaped r tmin tmax n (1 :: Rk0) (if full then [oSk; oIk; oRk] else [oS; oI; oR]) /\
  (if full then veq (vval oSk 0 r) Sk0 /\ veq (vval oIk 0 r) Ik0 /\ vval oRk 0 r = Rk0
   else sval oS 0 r == vsum Sk0 /\ sval oI 0 r == vsum Ik0 /\ sval oR 0 r = vsum Rk0) /\
  (forall j, (j < n)%nat ->
     (if full then vsum (vval oSk j r) + vsum (vval oIk j r) + vsum (vval oRk j r) else sval oS j r + sval oI j r + sval oR j r)
     == vsum Sk0 + vsum Ik0 + vsum Rk0).
Proof. exact out_SIR_heterogeneous_meanfield. Qed.
Print Assumptions C06out_SIR_heterogeneous_meanfield.

(* ---------------- heterogeneous pairwise: 2-D arrays flattened row-major; returned ..., SkIl, SkSl ---------------- *)
Theorem C06out_SIS_heterogeneous_pairwise : forall sv Sk0 Ik0 SkSl0 SkIl0 IkIl0 full tmin tmax n r,
  msolver_ok sv -> (0 < n)%nat ->
  length Sk0 = length Ik0 -> length SkSl0 = length Sk0 -> length SkIl0 = length Sk0 -> rect (length Sk0) SkSl0 -> rect (length Sk0) SkIl0 ->
  run_model (m_SIS_heterogeneous_pairwise Sk0 Ik0 SkSl0 SkIl0 IkIl0 full) tmin tmax n sv = Ok r ->
  shaped r tmin tmax n (Sk0 ++ flatten SkSl0 ++ flatten SkIl0) (if full then [oS; oI; oSk; oIk; oSkIl; oSkSl; oIkIl] else [oS; oI]) /\
  sval oS 0 r = vsum Sk0 /\ sval oI 0 r == vsum Ik0 /\
  (full = true -> vval oSk 0 r = Sk0 /\ veq (vval oIk 0 r) Ik0 /\ mval oSkIl 0 r = SkIl0 /\ mval oSkSl 0 r = SkSl0) /\
  (forall j, (j < n)%nat -> sval oS j r + sval oI j r == vsum Sk0 + vsum Ik0).
Proof. exact out_SIS_heterogeneous_pairwise. Qed.
Print Assumptions C06out_SIS_heterogeneous_pairwise.
Theorem C06out_SIR_heterogeneous_pairwise : forall sv Sk0 Ik0 Rk0 SkSl0 SkIl0 Ks full tmin tmax n r,
  msolver_ok sv -> (0 < n)%nat ->
  length Sk0 = length Ik0 -> length Sk0 = length Rk0 -> length SkSl0 = length Sk0 -> length SkIl0 = length Sk0 ->
  rect (length Sk0) SkSl0 -> rect (length Sk0) SkIl0 -> match Ks with Some l => length l = length Sk0 | None => True end ->
  run_model (m_SIR_heterogeneous_pairwise Sk0 Ik0 Rk0 SkSl0 SkIl0 Ks full) tmin tmax n sv = Ok r ->
  shaped r tmin tmax n (Sk0 ++ Ik0 ++ flatten SkSl0 ++ flatten SkIl0) (if full then [oS; oI; oR; oSk; oIk; oRk; oSkIl; oSkSl] else [oS; oI; oR]) /\
  sval oS 0 r = vsum Sk0 /\ sval oI 0 r = vsum Ik0 /\ sval oR 0 r == vsum Rk0 /\
  (full = true -> vval oSk 0 r = Sk0 /\ vval oIk 0 r = Ik0 /\ veq (vval oRk 0 r) Rk0 /\ mval oSkIl 0 r = SkIl0 /\ mval oSkSl 0 r = SkSl0) /\
  (forall j, (j < n)%nat -> sval oS j r + sval oI j r + sval oR j r == vsum Sk0 + vsum Ik0 + vsum Rk0).
Proof. exact out_SIR_heterogeneous_pairwise. Qed.
Print Assumptions C06out_SIR_heterogeneous_pairwise.
(* non-vacuity, and the flattening order: a non-symmetric 2x2 block comes back as it was given *)
Example C06out_SIR_heterogeneous_pairwise_example :
  exists r, run_model (m_SIR_heterogeneous_pairwise [3; 4] [1; 2] [0; 1] [[1; 2]; [3; 4]] [[5; 6]; [7; 8]] None true) 0 1 2 (fun x0 ts => map (fun _ => x0) ts) = Ok r
            /\ mval oSkSl 1 r = [[1; 2]; [3; 4]] /\ mval oSkIl 1 r = [[5; 6]; [7; 8]] /\ r_X0 r = [3; 4; 1; 2; 1; 2; 3; 4; 5; 6; 7; 8].
Proof. eexists. split; [vm_compute; reflexivity|]. vm_compute. auto. Qed.
Print Assumptions C06out_SIR_heterogeneous_pairwise_example.

(* ---------------- compact pairwise / compact effective degree ---------------- *)
Theorem C06out_SIS_compact_pairwise : forall sv Sk0 Ik0 SI0 SS0 II0 full tmin tmax n r,
  msolver_ok sv -> (0 < n)%nat -> length Sk0 = length Ik0 ->
  run_model (m_SIS_compact_pairwise Sk0 Ik0 SI0 SS0 II0 full) tmin tmax n sv = Ok r ->
  shaped r tmin tmax n (Sk0 ++ [SI0; SS0]) (if full then [oS; oI; oSk; oIk; oSI; oSS; oII] else [oS; oI]) /\
  sval oS 0 r = vsum Sk0 /\ sval oI 0 r == vsum Ik0 /\
  (full = true -> vval oSk 0 r = Sk0 /\ veq (vval oIk 0 r) Ik0 /\ sval oSI 0 r = SI0 /\ sval oSS 0 r = SS0 /\ sval oII 0 r == II0) /\
  (forall j, (j < n)%nat -> sval oS j r + sval oI j r == vsum Sk0 + vsum Ik0).
Proof. exact out_SIS_compact_pairwise. Qed.
Print Assumptions C06out_SIS_compact_pairwise.
Theorem C06out_SIS_compact_effective_degree_forwards : forall Sk0 Ik0 SI0 SS0 II0 full,
  m_SIS_compact_effective_degree Sk0 Ik0 SI0 SS0 II0 full = m_SIS_compact_pairwise Sk0 Ik0 SI0 SS0 II0 full.
Proof. exact out_SIS_compact_effective_degree_is_compact_pairwise. Qed.
Print Assumptions C06out_SIS_compact_effective_degree_forwards.
(* full data returns (Sk, I, R, SS, SI): no aggregated S *)
Theorem C06out_SIR_compact_pairwise : forall sv Sk0 I0 R0 SS0 SI0 full tmin tmax n r,
  msolver_ok sv -> (0 < n)%nat -> run_model (m_SIR_compact_pairwise Sk0 I0 R0 SS0 SI0 full) tmin tmax n sv = Ok r ->
  shaped r tmin tmax n (Sk0 ++ [SS0; SI0; R0]) (if full then [oSk; oI; oR; oSS; oSI] else [oS; oI; oR]) /\
  (full = false -> sval oS 0 r = vsum Sk0) /\ sval oI 0 r == I0 /\ sval oR 0 r = R0 /\
  (full = true -> vval oSk 0 r = Sk0 /\ sval oSS 0 r = SS0 /\ sval oSI 0 r = SI0) /\
  (forall j, (j < n)%nat -> (if full then vsum (vval oSk j r) else sval oS j r) + sval oI j r + sval oR j r == I0 + R0 + vsum Sk0).
Proof. exact out_SIR_compact_pairwise. Qed.
Print Assumptions C06out_SIR_compact_pairwise.
Theorem C06out_SIR_compact_effective_degree : forall sv Skappa0 I0 R0 SI0 full tmin tmax n r,
  msolver_ok sv -> (0 < n)%nat -> run_model (m_SIR_compact_effective_degree Skappa0 I0 R0 SI0 full) tmin tmax n sv = Ok r ->
  shaped r tmin tmax n (Skappa0 ++ [R0; SI0]) (if full then [oS; oI; oR; oSkappa; oSI] else [oS; oI; oR]) /\
  sval oS 0 r = vsum Skappa0 /\ sval oI 0 r == I0 /\ sval oR 0 r = R0 /\
  (full = true -> vval oSkappa 0 r = Skappa0 /\ sval oSI 0 r = SI0) /\
  (forall j, (j < n)%nat -> sval oS j r + sval oI j r + sval oR j r == vsum Skappa0 + I0 + R0).
Proof. exact out_SIR_compact_effective_degree. Qed.
Print Assumptions C06out_SIR_compact_effective_degree.

(* ---------------- super compact pairwise ---------------- *)
Theorem C06out_SIS_super_compact_pairwise : forall sv S0 I0 SS0 SI0 II0 full tmin tmax n r,
  msolver_ok sv -> (0 < n)%nat -> run_model (m_SIS_super_compact_pairwise S0 I0 SS0 SI0 II0 full) tmin tmax n sv = Ok r ->
  shaped r tmin tmax n [I0; SS0; SI0; II0] (if full then [oS; oI; oSS; oSI; oII] else [oS; oI]) /\
  sval oS 0 r == S0 /\ sval oI 0 r = I0 /\
  (full = true -> sval oSS 0 r = SS0 /\ sval oSI 0 r = SI0 /\ sval oII 0 r = II0) /\
  (forall j, (j < n)%nat -> sval oS j r + sval oI j r == S0 + I0).
Proof. exact out_SIS_super_compact_pairwise. Qed.
Print Assumptions C06out_SIS_super_compact_pairwise.
Theorem C06out_SIR_super_compact_pairwise : forall sv R0 SS0 SI0 N psihat full tmin tmax n r,
  msolver_ok sv -> (0 < n)%nat -> run_model (m_SIR_super_compact_pairwise R0 SS0 SI0 N psihat full) tmin tmax n sv = Ok r ->
  shaped r tmin tmax n [1; SS0; SI0; R0] (if full then [oS; oI; oR; oSS; oSI] else [oS; oI; oR]) /\
  sval oS 0 r = N * psihat 1 /\ sval oI 0 r == N - N * psihat 1 - R0 /\ sval oR 0 r = R0 /\
  (full = true -> sval oSS 0 r = SS0 /\ sval oSI 0 r = SI0) /\
  (forall j, (j < n)%nat -> sval oS j r + sval oI j r + sval oR j r == N).
Proof. exact out_SIR_super_compact_pairwise. Qed.
Print Assumptions C06out_SIR_super_compact_pairwise.

(* ---------------- effective degree: (rows x cols) blocks flattened row-major ---------------- *)
Theorem C06out_SIS_effective_degree : forall sv Ssi0 Isi0 full tmin tmax n r,
  msolver_ok sv -> (0 < n)%nat ->
  rect (length (mrow Ssi0 0)) Ssi0 -> rect (length (mrow Ssi0 0)) Isi0 -> length Isi0 = length Ssi0 ->
  run_model (m_SIS_effective_degree Ssi0 Isi0 full) tmin tmax n sv = Ok r ->
  shaped r tmin tmax n (flatten Ssi0 ++ flatten Isi0) (if full then [oS; oI; oSsi; oIsi] else [oS; oI]) /\
  sval oS 0 r == msum Ssi0 /\ sval oI 0 r == msum Isi0 /\
  (full = true -> mval oSsi 0 r = Ssi0 /\ mval oIsi 0 r = Isi0) /\
  (forall j, (j < n)%nat -> sval oS j r + sval oI j r == vsum (nth j (sv (flatten Ssi0 ++ flatten Isi0) (linspace tmin tmax n)) [])).
Proof. exact out_SIS_effective_degree. Qed.
Print Assumptions C06out_SIS_effective_degree.
Theorem C06out_SIR_effective_degree : forall sv Ssi0 I0 R0 full tmin tmax n r,
  msolver_ok sv -> (0 < n)%nat -> rect (length (mrow Ssi0 0)) Ssi0 ->
  run_model (m_SIR_effective_degree Ssi0 I0 R0 full) tmin tmax n sv = Ok r ->
  shaped r tmin tmax n (flatten Ssi0 ++ [R0]) (if full then [oS; oI; oR; oSsi] else [oS; oI; oR]) /\
  sval oS 0 r == msum Ssi0 /\ sval oI 0 r == I0 /\ sval oR 0 r = R0 /\
  (full = true -> mval oSsi 0 r = Ssi0) /\
  (forall j, (j < n)%nat -> sval oS j r + sval oI j r + sval oR j r == msum Ssi0 + I0 + R0).
Proof. exact out_SIR_effective_degree. Qed.
Print Assumptions C06out_SIR_effective_degree.
Example C06out_SIS_effective_degree_example :   (* a 2 x 3 block: rows stay rows *)
  exists r, run_model (m_SIS_effective_degree [[1; 2; 3]; [4; 5; 6]] [[7; 8; 9]; [10; 11; 12]] true) 0 1 2 (fun x0 ts => map (fun _ => x0) ts) = Ok r
            /\ mval oSsi 1 r = [[1; 2; 3]; [4; 5; 6]] /\ mval oIsi 1 r = [[7; 8; 9]; [10; 11; 12]].
Proof. eexists. split; [vm_compute; reflexivity|]. vm_compute. auto. Qed.
Print Assumptions C06out_SIS_effective_degree_example.

(* ---------------- EBCM ---------------- *)
Theorem C06out_EBCM : forall sv N psihat R0 full tmin tmax n r,
  msolver_ok sv -> (0 < n)%nat -> run_model (m_EBCM N psihat R0 full) tmin tmax n sv = Ok r ->
  shaped r tmin tmax n [1; R0] (if full then [oS; oI; oR; oTheta] else [oS; oI; oR]) /\
  sval oS 0 r = N * psihat 1 /\ sval oI 0 r == N - N * psihat 1 - R0 /\ sval oR 0 r = R0 /\
  (full = true -> sval oTheta 0 r = 1) /\
  (forall j, (j < n)%nat -> sval oS j r + sval oI j r + sval oR j r == N).
Proof. exact out_EBCM. Qed.
Print Assumptions C06out_EBCM.

(* ====================== node-level systems ====================== *)
(* per-node arrays are in the order of the CALLER's nodelist (default: G.nodes()); y0_rho = rho for every node,
   y0_set nodelist I0 = indicator of initial_infecteds, x0_sets = indicator of "neither infected nor recovered";
   amask = the (nodelist x nodelist) array multiplied by the adjacency matrix in nodelist order *)
Theorem C06out_SIS_individual_based_rho : forall sv g tmin tmax n r, msolver_ok sv -> (0 < n)%nat -> forall rho nl full,
  run_model (m_SIS_individual_based g (Some rho) None nl full) tmin tmax n sv = Ok r ->
  let nodelist := nodelist_or g nl in
  shaped r tmin tmax n (y0_rho nodelist rho) (if full then [oSs; oIs] else [oS; oI]) /\
  (if full then vval oIs 0 r = y0_rho nodelist rho /\ vval oSs 0 r = x0_of (y0_rho nodelist rho)
   else sval oI 0 r == rho * Qnat (length nodelist) /\ sval oS 0 r == (1 - rho) * Qnat (length nodelist)) /\
  (forall j, (j < n)%nat -> (if full then vsum (vval oSs j r) + vsum (vval oIs j r) else sval oS j r + sval oI j r) == Qnat (length nodelist)).
Proof. exact out_SIS_individual_based_rho. Qed.
Print Assumptions C06out_SIS_individual_based_rho.
Theorem C06out_SIS_individual_based_Y0 : forall sv g tmin tmax n r, msolver_ok sv -> (0 < n)%nat -> forall Y0 nl full,
  run_model (m_SIS_individual_based g None (Some Y0) (Some nl) full) tmin tmax n sv = Ok r ->
  shaped r tmin tmax n Y0 (if full then [oSs; oIs] else [oS; oI]) /\
  (if full then vval oIs 0 r = Y0 /\ vval oSs 0 r = x0_of Y0 else sval oI 0 r = vsum Y0 /\ sval oS 0 r == Qnat (length Y0) - vsum Y0) /\
  (forall j, (j < n)%nat -> (if full then vsum (vval oSs j r) + vsum (vval oIs j r) else sval oS j r + sval oI j r) == Qnat (length Y0)).
Proof. exact out_SIS_individual_based_Y0. Qed.
Print Assumptions C06out_SIS_individual_based_Y0.
Theorem C06out_rejects_SIS_individual_based : forall g rho Y0 nl full,
  (Y0 <> None /\ nl = None) \/ (rho = None /\ Y0 = None) \/ (rho <> None /\ Y0 <> None) ->
  m_SIS_individual_based g rho Y0 nl full = Err EoNError.
Proof. exact rejects_SIS_individual_based. Qed.
Print Assumptions C06out_rejects_SIS_individual_based.
Theorem C06out_SIS_individual_based_pure_IC : forall sv g tmin tmax n r, msolver_ok sv -> (0 < n)%nat -> forall I0 nl full,
  run_model (m_SIS_individual_based_pure_IC g I0 nl full) tmin tmax n sv = Ok r ->
  let nodelist := nodelist_or g nl in
  shaped r tmin tmax n (y0_set nodelist I0) (if full then [oSs; oIs] else [oS; oI]) /\
  (if full then vval oIs 0 r = y0_set nodelist I0 /\ vval oSs 0 r = x0_of (y0_set nodelist I0)
   else sval oI 0 r == cnt (fun u => mem u I0) nodelist /\ sval oS 0 r == Qnat (length nodelist) - cnt (fun u => mem u I0) nodelist) /\
  (forall j, (j < n)%nat -> (if full then vsum (vval oSs j r) + vsum (vval oIs j r) else sval oS j r + sval oI j r) == Qnat (length nodelist)).
Proof. exact out_SIS_individual_based_pure_IC. Qed.
Print Assumptions C06out_SIS_individual_based_pure_IC.
(* the order of nodelist matters: node 2 listed first *)
Example C06out_pure_IC_nodelist_example :
  exists r, run_model (m_SIS_individual_based_pure_IC path3 [2%N] (Some [2%N; 0%N; 1%N]) true) 0 1 2 (fun x0 ts => map (fun _ => x0) ts) = Ok r
            /\ vval oIs 1 r = [1; 0; 0] /\ r_X0 r = [1; 0; 0].
Proof. eexists. split; [vm_compute; reflexivity|]. vm_compute. auto. Qed.
Print Assumptions C06out_pure_IC_nodelist_example.
Theorem C06out_SIR_individual_based_rho : forall sv g tmin tmax n r, msolver_ok sv -> (0 < n)%nat -> forall rho nl full,
  run_model (m_SIR_individual_based g (Some rho) None None nl full) tmin tmax n sv = Ok r ->
  let nodelist := nodelist_or g nl in
  shaped r tmin tmax n (x0_of (y0_rho nodelist rho) ++ y0_rho nodelist rho) (if full then [oS; oI; oR; oSs; oIs; oRs] else [oS; oI; oR]) /\
  sval oS 0 r == (1 - rho) * Qnat (length nodelist) /\ sval oI 0 r == rho * Qnat (length nodelist) /\ sval oR 0 r == 0 /\
  (forall j, (j < n)%nat -> sval oS j r + sval oI j r + sval oR j r == Qnat (length nodelist)).
Proof. exact out_SIR_individual_based_rho. Qed.
Print Assumptions C06out_SIR_individual_based_rho.
Theorem C06out_SIR_individual_based_pure_IC : forall sv g tmin tmax n r, msolver_ok sv -> (0 < n)%nat -> forall I0 R0 nl full,
  run_model (m_SIR_individual_based_pure_IC g I0 R0 nl full) tmin tmax n sv = Ok r ->
  let nodelist := nodelist_or g nl in
  let X0v := match R0 with None => x0_of (y0_set nodelist I0) | Some rr => x0_sets nodelist I0 rr end in
  shaped r tmin tmax n (X0v ++ y0_set nodelist I0) (if full then [oS; oI; oR; oSs; oIs; oRs] else [oS; oI; oR]) /\
  sval oS 0 r == cnt (fun u => negb (mem u (match R0 with None => [] | Some rr => rr end) || mem u I0)) nodelist /\
  sval oI 0 r == cnt (fun u => mem u I0) nodelist /\
  sval oS 0 r + sval oI 0 r + sval oR 0 r == Qnat (length nodelist) /\
  (full = true -> vval oSs 0 r = X0v /\ vval oIs 0 r = y0_set nodelist I0) /\
  (forall j, (j < n)%nat -> sval oS j r + sval oI j r + sval oR j r == Qnat (length nodelist)).
Proof. exact out_SIR_individual_based_pure_IC. Qed.
Print Assumptions C06out_SIR_individual_based_pure_IC.
Theorem C06out_SIS_pair_based_Y0 : forall sv g tmin tmax n r, msolver_ok sv -> (0 < n)%nat -> forall Y0 nl full,
  length Y0 = length (gnodes g) -> length nl = length (gnodes g) ->
  run_model (m_SIS_pair_based g None (Some nl) (Some Y0) None None full) tmin tmax n sv = Ok r ->
  let A := amask g nl (outer (x0_of Y0) Y0) in let B := amask g nl (outer (x0_of Y0) (x0_of Y0)) in
  shaped r tmin tmax n (Y0 ++ flatten A ++ flatten B) (if full then [oS; oI; oXs; oYs; oXY; oXX] else [oS; oI]) /\
  sval oI 0 r = vsum Y0 /\ sval oS 0 r == Qnat (length Y0) - vsum Y0 /\
  (full = true -> vval oYs 0 r = Y0 /\ vval oXs 0 r = x0_of Y0 /\ mval oXY 0 r = A /\ mval oXX 0 r = B) /\
  (forall j, (j < n)%nat -> sval oS j r + sval oI j r == Qnat (length Y0)).
Proof. exact out_SIS_pair_based_Y0. Qed.
Print Assumptions C06out_SIS_pair_based_Y0.
Theorem C06out_rejects_SIS_pair_based : forall g rho nl Y0 XY0 XX0 full,
  (Y0 <> None /\ rho <> None) \/ (Y0 <> None /\ nl = None) \/ (exists y, Y0 = Some y /\ rho = None /\ nl <> None /\ length y <> length (gnodes g)) ->
  m_SIS_pair_based g rho nl Y0 XY0 XX0 full = Err EoNError.
Proof. exact rejects_SIS_pair_based. Qed.
Print Assumptions C06out_rejects_SIS_pair_based.
Theorem C06out_SIS_pair_based_pure_IC : forall sv g tmin tmax n r, msolver_ok sv -> (0 < n)%nat -> forall I0 nl full,
  length (nodelist_or g nl) = length (gnodes g) ->
  run_model (m_SIS_pair_based_pure_IC g I0 nl full) tmin tmax n sv = Ok r ->
  let nodelist := nodelist_or g nl in let Y0 := y0_set nodelist I0 in
  let A := amask g nodelist (outer (x0_of Y0) Y0) in let B := amask g nodelist (outer (x0_of Y0) (x0_of Y0)) in
  shaped r tmin tmax n (Y0 ++ flatten A ++ flatten B) (if full then [oS; oI; oXs; oYs; oXY; oXX] else [oS; oI]) /\
  sval oI 0 r == cnt (fun u => mem u I0) nodelist /\ sval oS 0 r == Qnat (length nodelist) - cnt (fun u => mem u I0) nodelist /\
  (full = true -> vval oYs 0 r = Y0 /\ vval oXs 0 r = x0_of Y0 /\ mval oXY 0 r = A /\ mval oXX 0 r = B) /\
  (forall j, (j < n)%nat -> sval oS j r + sval oI j r == Qnat (length nodelist)).
Proof. exact out_SIS_pair_based_pure_IC. Qed.
Print Assumptions C06out_SIS_pair_based_pure_IC.
Theorem C06out_SIR_pair_based_Y0 : forall sv g tmin tmax n r, msolver_ok sv -> (0 < n)%nat -> forall Y0 X0 nl full,
  length Y0 = length (gnodes g) -> length X0 = length (gnodes g) -> length nl = length (gnodes g) ->
  run_model (m_SIR_pair_based g None (Some nl) (Some Y0) (Some X0) None None full) tmin tmax n sv = Ok r ->
  let A := amask g nl (outer X0 Y0) in let B := amask g nl (outer X0 X0) in
  shaped r tmin tmax n (X0 ++ Y0 ++ flatten A ++ flatten B) (if full then [oS; oI; oR; oXs; oYs; oZs; oXY; oXX] else [oS; oI; oR]) /\
  sval oS 0 r = vsum X0 /\ sval oI 0 r = vsum Y0 /\ sval oR 0 r == Qnat (length X0) - vsum X0 - vsum Y0 /\
  (full = true -> vval oXs 0 r = X0 /\ vval oYs 0 r = Y0 /\ vval oZs 0 r = vsub (x0_of X0) Y0 /\ mval oXY 0 r = A /\ mval oXX 0 r = B) /\
  (forall j, (j < n)%nat -> sval oS j r + sval oI j r + sval oR j r == Qnat (length X0)).
Proof. exact out_SIR_pair_based_Y0. Qed.
Print Assumptions C06out_SIR_pair_based_Y0.
Theorem C06out_SIR_pair_based_pure_IC : forall sv g tmin tmax n r, msolver_ok sv -> (0 < n)%nat -> forall I0 R0 nl full,
  length (nodelist_or g nl) = length (gnodes g) ->
  run_model (m_SIR_pair_based_pure_IC g I0 R0 nl full) tmin tmax n sv = Ok r ->
  let nodelist := nodelist_or g nl in let Y0 := y0_set nodelist I0 in
  let X0 := match R0 with None => x0_of Y0 | Some rr => x0_sets nodelist I0 rr end in
  let A := amask g nodelist (outer X0 Y0) in let B := amask g nodelist (outer X0 X0) in
  shaped r tmin tmax n (X0 ++ Y0 ++ flatten A ++ flatten B) (if full then [oS; oI; oR; oXs; oYs; oZs; oXY; oXX] else [oS; oI; oR]) /\
  sval oS 0 r = vsum X0 /\ sval oI 0 r == cnt (fun u => mem u I0) nodelist /\
  (full = true -> vval oXs 0 r = X0 /\ vval oYs 0 r = Y0 /\ mval oXY 0 r = A /\ mval oXX 0 r = B) /\
  (forall j, (j < n)%nat -> sval oS j r + sval oI j r + sval oR j r == Qnat (length nodelist)).
Proof. exact out_SIR_pair_based_pure_IC. Qed.
Print Assumptions C06out_SIR_pair_based_pure_IC.
Example C06out_SIR_pair_based_pure_IC_example :     (* path a-b-c, b infected, c recovered, nodelist (c, a, b) *)
  exists r, run_model (m_SIR_pair_based_pure_IC path3 [1%N] (Some [2%N]) (Some [2%N; 0%N; 1%N]) true) 0 1 2 (fun x0 ts => map (fun _ => x0) ts) = Ok r
            /\ vval oXs 1 r = [0; 1; 0] /\ vval oYs 1 r = [0; 0; 1] /\ mval oXY 1 r = [[0; 0; 0]; [0; 0; 1]; [0; 0; 0]]
            /\ map Qred [sval oS 1 r; sval oI 1 r; sval oR 1 r] = [1; 1; 1].
Proof. eexists. split; [vm_compute; reflexivity|]. vm_compute. auto. Qed.
Print Assumptions C06out_SIR_pair_based_pure_IC_example.

(* ====================== EBCM variants ====================== *)
Theorem C06out_EBCM_uniform_introduction_forwards : forall N psi psiP rho full,
  m_EBCM_uniform_introduction N psi psiP rho full = m_EBCM N (fun x => (1 - rho) * psi x) 0 full /\
  fwd_EBCM_uniform_introduction N psi psiP rho = mkEb N (fun x => (1 - rho) * psi x) (fun x => (1 - rho) * psiP x) (1 - rho) 0 0.
Proof. exact out_EBCM_uniform_introduction_forwards. Qed.
Print Assumptions C06out_EBCM_uniform_introduction_forwards.
Theorem C06out_EBCM_uniform_introduction : forall sv N psi psiP rho full tmin tmax n r,
  msolver_ok sv -> (0 < n)%nat -> psi 1 == 1 ->
  run_model (m_EBCM_uniform_introduction N psi psiP rho full) tmin tmax n sv = Ok r ->
  shaped r tmin tmax n [1; 0] (if full then [oS; oI; oR; oTheta] else [oS; oI; oR]) /\
  sval oS 0 r == (1 - rho) * N /\ sval oI 0 r == rho * N /\ sval oR 0 r = 0 /\
  (full = true -> sval oTheta 0 r = 1) /\
  (forall j, (j < n)%nat -> sval oS j r + sval oI j r + sval oR j r == N).
Proof. exact out_EBCM_uniform_introduction. Qed.
Print Assumptions C06out_EBCM_uniform_introduction.
(* state layout [R, theta_k1, phiR_k1, ...] over SORTED keys; the returned theta are the entries 1+2*index *)
Theorem C06out_EBCM_pref_mix : forall sv N pk rho full tmin tmax n r,
  msolver_ok sv -> (0 < n)%nat -> run_model (m_EBCM_pref_mix N pk rho full) tmin tmax n sv = Ok r ->
  let rho' := match rho with Some x => x | None => 1 / N end in
  let spk := pk_sorted pk in
  shaped r tmin tmax n (pm_IC spk) (if full then [oS; oI; oR; oTheta] else [oS; oI; oR]) /\
  sval oS 0 r == N * ((1 - rho') * dsum spk (fun _ p => p)) /\ sval oR 0 r == 0 /\
  (full = true -> vval oTheta 0 r = map (fun k => pm_theta spk (pm_IC spk) k) (map fst spk)) /\
  (forall j, (j < n)%nat -> sval oS j r + sval oI j r + sval oR j r == N).
Proof. exact out_EBCM_pref_mix. Qed.
Print Assumptions C06out_EBCM_pref_mix.
Theorem C06out_EBCM_pref_mix_theta_starts_at_one : forall spk k, In k (map fst spk) -> pm_theta spk (pm_IC spk) k = 1.
Proof. exact pm_theta_IC. Qed.
Print Assumptions C06out_EBCM_pref_mix_theta_starts_at_one.
Theorem C06out_EBCM_pref_mix_S_is_pm_out_S : forall spk N rho X, N * pm_fracS spk rho X = pm_out_S spk N rho X.
Proof. exact asm_EBCM_pref_mix_is_pm_out. Qed.
Print Assumptions C06out_EBCM_pref_mix_S_is_pm_out_S.
Theorem C06out_EBCM_pref_mix_from_graph_forwards : forall g rho full,
  m_EBCM_pref_mix_from_graph g rho full = m_EBCM_pref_mix (gN g) (pk_of_graph g) rho full.
Proof. exact out_EBCM_pref_mix_from_graph_forwards. Qed.
Print Assumptions C06out_EBCM_pref_mix_from_graph_forwards.
Example C06out_EBCM_pref_mix_example :     (* keys given as 3, 1: layout and returned theta in sorted order *)
  exists r, run_model (m_EBCM_pref_mix 10 [(3%nat, 1 # 4); (1%nat, 3 # 4)] (Some (1 # 5)) true) 0 1 2 (fun x0 ts => match ts with [] => [] | _ => [x0; [1 # 10; 1 # 2; 0; 1 # 3; 0]] end) = Ok r
            /\ r_X0 r = [0; 1; 0; 1; 0] /\ vval oTheta 1 r = [1 # 2; 1 # 3]
            /\ Qred (sval oS 1 r) = Qred (10 * ((4 # 5) * ((3 # 4) * (1 # 2) + (1 # 4) * ((1 # 3) * (1 # 3) * (1 # 3))))).
Proof. eexists. split; [vm_compute; reflexivity|]. vm_compute. auto. Qed.
Print Assumptions C06out_EBCM_pref_mix_example.

(* ====================== discrete time ====================== *)
Theorem C06out_discrete_times : forall tmin tmax, length (dtimes tmin tmax) = S (dsteps tmin tmax) /\
  forall j, (j <= dsteps tmin tmax)%nat -> nth j (dtimes tmin tmax) 0 = inject_Z (tmin + Z.of_nat j).
Proof. exact dtimes_spec. Qed.
Print Assumptions C06out_discrete_times.
Theorem C06out_EBCM_discrete : forall a p tmin tmax full,
  let r := o_EBCM_discrete a p tmin tmax full in
  let T := dsteps tmin tmax in
  r_times r = dtimes tmin tmax /\ all_len (S T) r /\
  names (r_series r) = (if full then [oS; oI; oR; oTheta] else [oS; oI; oR]) /\
  sval oS 0 r = eb_N a * eb_psihat a 1 /\ sval oR 0 r = eb_R0 a /\ sval oI 0 r = eb_N a - eb_N a * eb_psihat a 1 - eb_R0 a /\
  (full = true -> sval oTheta 0 r = 1) /\
  (forall j, (j <= T)%nat -> sval oS j r + sval oI j r + sval oR j r == eb_N a) /\
  (forall j, (j < T)%nat -> sval oR (S j) r = sval oR j r + sval oI j r).
Proof. exact out_EBCM_discrete. Qed.
Print Assumptions C06out_EBCM_discrete.
Theorem C06out_EBCM_discrete_uniform_introduction_forwards : forall N psi psiP p rho tmax full,
  o_EBCM_discrete_uniform_introduction N psi psiP p rho tmax full =
  o_EBCM_discrete (mkEb N (fun x => (1 - rho) * psi x) (fun x => (1 - rho) * psiP x) (1 - rho) 0 0) p 0 tmax full.
Proof. exact out_EBCM_discrete_uniform_introduction. Qed.
Print Assumptions C06out_EBCM_discrete_uniform_introduction_forwards.
(* EBCM_discrete_from_graph hands over N = |G|, a closure with N psihat(1) = the number of susceptible nodes, R0 = the number of
   recovered nodes, phiS0 = [SS]/[SX], phiR0 = [SR]/[SX] (explicit sets) or (1-rho)N, 0, 1-rho, 0 (rho) *)
Theorem C06out_EBCM_discrete_from_graph_sets : forall g rq I0 a,
  wf_ugraph g = true -> rq_I rq = Some I0 -> fwd_EBCM_discrete_from_graph g rq = Ok a ->
  exists st, initialize_node_status g I0 (rq_R rq) = Ok st /\
    eb_N a = gN g /\ eb_N a * eb_psihat a 1 == cnt (isS st) (gnodes g) /\ eb_R0 a = cnt (isR st) (gnodes g) /\
    eb_phiS0 a == SS_of g st / SX_of g st /\ eb_phiR0 a == SR_of g st / SX_of g st.
Proof. exact fwd_EBCM_discrete_from_graph_sets. Qed.
Print Assumptions C06out_EBCM_discrete_from_graph_sets.
Theorem C06out_EBCM_discrete_from_graph_rho : forall g rq,
  wf_ugraph g = true -> rq_I rq = None -> rq_R rq = None ->
  exists a, fwd_EBCM_discrete_from_graph g rq = Ok a /\ eb_N a = gN g /\
    eb_N a * eb_psihat a 1 == (1 - rho_or_default g (rq_rho rq)) * gN g /\ eb_R0 a = 0 /\ eb_phiS0 a = 1 - rho_or_default g (rq_rho rq) /\ eb_phiR0 a = 0.
Proof. exact fwd_EBCM_discrete_from_graph_rho. Qed.
Print Assumptions C06out_EBCM_discrete_from_graph_rho.
Example C06out_EBCM_discrete_from_graph_example :     (* path a-b-c, b infected, c recovered: S0 = 1, I0 = 1, R0 = 1 at tmin = 2 *)
  exists r, o_EBCM_discrete_from_graph path3 (mkReq (Some [1%N]) (Some [2%N]) None) (1 # 2) 2 4 true = Ok r
            /\ r_times r = [2; 3; 4] /\ map (fun nm => Qred (sval nm 0 r)) [oS; oI; oR; oTheta] = [1; 1; 1; 1]
            /\ Qred (sval oR 1 r) = 2.
Proof. eexists. split; [vm_compute; reflexivity|]. vm_compute. auto. Qed.
Print Assumptions C06out_EBCM_discrete_from_graph_example.
Theorem C06out_EBCM_pref_mix_discrete : forall N pk pnk p rho tmin tmax full,
  let r := o_EBCM_pref_mix_discrete N pk pnk p rho tmin tmax full in
  let rho' := match rho with Some x => x | None => 1 / N end in
  let T := dsteps tmin tmax in
  r_times r = dtimes tmin tmax /\ all_len (S T) r /\
  names (r_series r) = (if full then [oS; oI; oR; oTheta] else [oS; oI; oR]) /\
  sval oS 0 r = N * (1 - rho') /\ sval oI 0 r = N * rho' /\ sval oR 0 r = 0 /\
  (full = true -> vval oTheta 0 r = map (fun k => plookup k (map (fun k => (k, 1)) (map fst pk))) (sort_keys (map fst pk))) /\
  (forall j, (j <= T)%nat -> sval oS j r + sval oI j r + sval oR j r == N) /\
  (forall j, (j < T)%nat -> sval oR (S j) r = sval oR j r + sval oI j r).
Proof. exact out_EBCM_pref_mix_discrete. Qed.
Print Assumptions C06out_EBCM_pref_mix_discrete.
Theorem C06out_EBCM_pref_mix_discrete_from_graph_forwards : forall g p rho tmin tmax full,
  o_EBCM_pref_mix_discrete_from_graph g p rho tmin tmax full = o_EBCM_pref_mix_discrete (gN g) (pk_of_graph g) (pnk_of_graph g) p rho tmin tmax full.
Proof. exact out_EBCM_pref_mix_discrete_from_graph_forwards. Qed.
Print Assumptions C06out_EBCM_pref_mix_discrete_from_graph_forwards.

(* ====================== Attack_rate_*_from_graph ====================== *)
Theorem C06out_Attack_rate_from_graph_forwards : forall g rq a,
  fwd_Attack_rate_from_graph g rq = Ok a ->
  ar_pk a = pk_of_graph g /\
  match rq_I rq with
  | Some I0 => exists st, initialize_node_status g I0 (rq_R rq) = Ok st /\ ar_rho a = None /\
      (exists s, ar_Sk0 a = Some s /\ forall k, s k = Sk_cnt g st k * (1 / vnth k (Nk_of g))) /\
      ar_phiS0 a = Some (SS_of g st * 1 / SX_of g st) /\ ar_phiR0 a = SR_of g st * 1 / SX_of g st
  | None => ar_rho a = rq_rho rq /\ ar_Sk0 a = None /\ ar_phiS0 a = None /\ ar_phiR0 a = 0
  end.
Proof. exact fwd_Attack_rate_from_graph_spec. Qed.
Print Assumptions C06out_Attack_rate_from_graph_forwards.
(* with explicit sets, the closure built from the forwarded Sk0 has N psihat(1) = number of susceptible nodes: the attack rate
   counted from the requested state *)
Theorem C06out_Attack_rate_from_graph_psihat1 : forall g st, wf_ugraph g = true ->
  gN g * psihat_of (pk_of_graph g) (fun k => Sk_cnt g st k * (1 / vnth k (Nk_of g))) 1 == cnt (isS st) (gnodes g).
Proof. exact attack_psihat1_sets. Qed.
Print Assumptions C06out_Attack_rate_from_graph_psihat1.
Example C06out_Attack_rate_example :     (* star with centre infected: nobody else can be protected when p = 1 *)
  exists x, o_Attack_rate_discrete_from_graph star4 (mkReq (Some [0%N]) None None) 1 2 = Ok x /\ Qred x = 1.
Proof. eexists. split; [vm_compute; reflexivity|]. vm_compute. reflexivity. Qed.
Print Assumptions C06out_Attack_rate_example.
