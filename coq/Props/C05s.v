(* C05 — requested initial conditions are what the run starts from, for the event-driven SIS
   simulators fast_SIS (the sampler program, EVERY draw script via [exec]) and
   fast_nonMarkov_SIS (EVERY rule table inside [rules_ok]).  Model: Model/EventSIS.v (the
   extracted one) and Model/InitChkSIS.v (argument forms; the extracted checker).
   Proofs: Proofs/C05sHist.v, C05sTop.v, on top of the lock-step log invariant of
   Proofs/EventSISLog.v / EventSISFast.v / EventSISNM.v (which already gave row 0, C04esis).

   Reading guide.  [ic_sis_domb nodes i0 tmin tmax] = the property's domain: node list and
   initial collection duplicate-free, the collection inside the graph, tmin < tmax.
   [ic_sisb nodes i0 tmin rows full] = "rows start with (tmin, [N-|I0|; |I0|]) and, with full
   data: transmissions() begins with one source-less entry (tmin, None, u) per initial node in
   the order given and every later entry has a source; every node of the graph has a history
   that starts at tmin -- as I for an initial node, as S for every other node (or as I when
   transmissions() holds a sourced infection of it AT tmin: a zero delay, a tie of measure
   zero that the code resolves by restarting the history, sim:391)" ([C05s_ic_sisb_sound]).
   [ic_sis_rhob] = the same for the list of nodes that the source-less transmissions show,
   which must be duplicate-free, inside the graph and of length int(round(N*rho)) -- round
   half to even -- (or 1).  Both are extracted and applied to the IMPLEMENTATION's outputs.
   [rules_ok]: durations >= 0; delay lists non-negative and non-decreasing (with a negative
   delay the code queues an event before tmin and drops the wrong rows).
   Not proved: that rho's random.sample is UNIFORM over k-subsets ([law] gives Sample no mass);
   duplicates in initial_infecteds are outside the domain (the code drops |list| rows). *)
From EoNV Require Import Prelude Samp Graph ListDict ListDictP Gillespie KldP GillespieInv SampP GillespieP GillespieLog.
From EoNV Require Import Investigation InvestigationP GillespieC10.
From EoNV Require Import EventSIS EventSISP EventSISRows EventSISLog EventSISFast EventSISNM EventSISOut EventSISInit EventSISEx.
From EoNV Require Import InitChk InitChkSIS C05sHist C05sTop C05sStatus C05sQuiet C05sQuietF.
From Coq Require Import Lqa.

Section C05s.
Variable g : graph.
Hypothesis Hadj : forall u v, In v (gadj g u) -> In v (gnodes g).

(* fast_SIS with initial_infecteds (a single node is the one-element list), every draw
   script, both return modes: a run that returns starts as requested *)
Theorem C05s_fast_SIS_starts_as_requested : forall tau gamma tmax tmin i0 full fuel ds out tr,
  ic_sis_domb (gnodes g) i0 tmin tmax = true ->
  exec (fast_SIS g tau gamma tmax (Some i0) None tmin full fuel) ds [] = (Ok out, tr) ->
  ic_sisb (gnodes g) i0 tmin (so_rows out) (so_full out) = true.
Proof. exact (fsis_starts_as_requested g Hadj). Qed.

(* ... the initial condition given in ANY way: explicit nodes; nothing (one random node); rho:
   int(round(N*rho)) -- round half to even -- DISTINCT nodes of the graph are drawn and the
   run starts from exactly them *)
Theorem C05s_fast_SIS_any_initial_condition : forall tau gamma tmax tmin i0o rho full fuel ds out tr,
  NoDup (gnodes g) -> xlt tmin tmax = true ->
  (forall l, i0o = Some l -> NoDup l /\ incl l (gnodes g)) ->
  exec (fast_SIS g tau gamma tmax i0o rho tmin full fuel) ds [] = (Ok out, tr) ->
  exists i0, NoDup i0 /\ incl i0 (gnodes g) /\
    match i0o with
    | Some l => i0 = l /\ rho = None
    | None => Z.of_nat (length i0) = requested g rho /\ (0 <= requested g rho <= order g)%Z /\
              ic_sis_rhob (gnodes g) rho tmin (so_rows out) (so_full out) = true
    end /\
    ic_sisb (gnodes g) i0 tmin (so_rows out) (so_full out) = true.
Proof. exact (fsis_starts_as_requested_any g Hadj). Qed.

(* fast_nonMarkov_SIS *)
Theorem C05s_fast_nonMarkov_SIS_starts_as_requested : forall dur delays tmax tmin i0 full fuel out,
  ic_sis_domb (gnodes g) i0 tmin tmax = true -> rules_ok dur delays ->
  nm_run g dur delays tmax tmin full fuel i0 = Ok out ->
  ic_sisb (gnodes g) i0 tmin (so_rows out) (so_full out) = true.
Proof. exact (nmsis_starts_as_requested g Hadj). Qed.

(* ... as the sampler program, with the calls it makes to the random source: none when the
   nodes are given, exactly random.sample(list(G), k) otherwise *)
Theorem C05s_fast_nonMarkov_SIS_any_initial_condition : forall dur delays tmax tmin i0o rho full fuel ds out tr,
  NoDup (gnodes g) -> xlt tmin tmax = true -> rules_ok dur delays ->
  (forall l, i0o = Some l -> NoDup l /\ incl l (gnodes g)) ->
  exec (fast_nonMarkov_SIS g dur delays tmax i0o rho tmin full fuel) ds [] = (Ok out, tr) ->
  exists i0, NoDup i0 /\ incl i0 (gnodes g) /\
    match i0o with
    | Some l => i0 = l /\ rho = None /\ tr = []
    | None => Z.of_nat (length i0) = requested g rho /\ (0 <= requested g rho <= order g)%Z /\
              ic_sis_rhob (gnodes g) rho tmin (so_rows out) (so_full out) = true /\
              tr = [CSample (map knode (gnodes g)) (Z.to_nat (requested g rho))]
    end /\
    ic_sisb (gnodes g) i0 tmin (so_rows out) (so_full out) = true.
Proof. exact (nmsis_starts_as_requested_any g Hadj). Qed.

(* the user-facing argument forms (Model/InitChkSIS.v): initial_infecteds = None, a single
   node of the graph, or any collection (by its element list) -- a single node and the
   one-element collection start the same run, both pass the checker for [x] *)
Theorem C05s_fast_SIS_every_argument_form : forall tau gamma tmax tmin a rho full fuel ds out tr,
  NoDup (gnodes g) -> xlt tmin tmax = true ->
  (forall l, arg_nodes a = Some l -> NoDup l /\ incl l (gnodes g)) ->
  exec (fast_SIS_arg g tau gamma tmax a rho tmin full fuel) ds [] = (Ok out, tr) ->
  exists i0, NoDup i0 /\ incl i0 (gnodes g) /\
    match arg_nodes a with
    | Some l => i0 = l /\ rho = None
    | None => Z.of_nat (length i0) = requested g rho /\ (0 <= requested g rho <= order g)%Z /\
              ic_sis_rhob (gnodes g) rho tmin (so_rows out) (so_full out) = true
    end /\
    ic_sisb (gnodes g) i0 tmin (so_rows out) (so_full out) = true.
Proof. exact (fsis_arg_starts_as_requested g Hadj). Qed.

Theorem C05s_fast_nonMarkov_SIS_every_argument_form : forall dur delays tmax tmin a rho full fuel ds out tr,
  NoDup (gnodes g) -> xlt tmin tmax = true -> rules_ok dur delays ->
  (forall l, arg_nodes a = Some l -> NoDup l /\ incl l (gnodes g)) ->
  exec (fast_nonMarkov_SIS_arg g dur delays tmax a rho tmin full fuel) ds [] = (Ok out, tr) ->
  exists i0, NoDup i0 /\ incl i0 (gnodes g) /\
    match arg_nodes a with
    | Some l => i0 = l /\ rho = None /\ tr = []
    | None => Z.of_nat (length i0) = requested g rho /\ (0 <= requested g rho <= order g)%Z /\
              ic_sis_rhob (gnodes g) rho tmin (so_rows out) (so_full out) = true /\
              tr = [CSample (map knode (gnodes g)) (Z.to_nat (requested g rho))]
    end /\
    ic_sisb (gnodes g) i0 tmin (so_rows out) (so_full out) = true.
Proof. exact (nmsis_arg_starts_as_requested g Hadj). Qed.

End C05s.

(* what the checker says, clause by clause *)
Theorem C05s_ic_sisb_sound : forall nodes i0 tmin rows full, ic_sisb nodes i0 tmin rows full = true ->
  (exists t rest, rows = (t, [Z.of_nat (length nodes) - Z.of_nat (length i0); Z.of_nat (length i0)]%Z) :: rest /\ t == tmin) /\
  (forall fd, full = Some fd ->
     (exists pre rest, fd_trans fd = pre ++ rest /\ map snd pre = i0 /\
        Forall (fun x : tx_t => snd (fst x) = None /\ fst (fst x) == tmin) pre /\
        Forall (fun x : tx_t => exists s, snd (fst x) = Some s) rest) /\
     (forall u, In u nodes -> exists t s rest, hlook u (fd_hist fd) = Some ((t, s) :: rest) /\ t == tmin /\
        (In u i0 -> s = stI) /\
        (~ In u i0 -> s = stS \/ (s = stI /\ exists t' src, In (t', Some src, u) (fd_trans fd) /\ t' == tmin)))).
Proof. exact ic_sisb_sound. Qed.

(* what Simulation_Investigation.node_status(u, tmin) / get_statuses(time = tmin) answer on an
   accepted output: when nothing else happened at the instant tmin ([quiet_at_tmin]: no history
   has a second entry at tmin, no sourced transmission is dated tmin -- both read off the
   output), exactly the request: I for the initial nodes, S for every other node *)
Theorem C05s_statuses_at_tmin_are_the_request : forall nodes i0 tmin rows fd,
  ic_sisb nodes i0 tmin rows (Some fd) = true -> quiet_at_tmin nodes tmin fd = true ->
  forall u, In u nodes ->
    Investigation.node_status (Investigation.mkInv nodes (fd_hist fd) (Some [(tmin, stS)]) (Some [stS; stI])) u tmin =
    Ok (if mem u i0 then stI else stS).
Proof. exact statuses_at_tmin. Qed.

(* fast_SIS: the tie clause bites only on scripts that contain the draw 0 (a value of measure
   zero of random.expovariate).  On EVERY script of strictly positive draws nothing but the
   requested infections is dated tmin, and the full-data object answers exactly the request *)
Theorem C05s_fast_SIS_positive_draws_exact_start : forall g, (forall u v, In v (gadj g u) -> In v (gnodes g)) ->
  forall tau gamma tmax tmin i0 fuel ds out tr fd,
  ic_sis_domb (gnodes g) i0 tmin tmax = true -> Forall (fun d => 0 < d) ds ->
  exec (fast_SIS g tau gamma tmax (Some i0) None tmin true fuel) ds [] = (Ok out, tr) -> so_full out = Some fd ->
  quiet_at_tmin (gnodes g) tmin fd = true /\
  forall u, In u (gnodes g) ->
    Investigation.node_status (Investigation.mkInv (gnodes g) (fd_hist fd) (Some [(tmin, stS)]) (Some [stS; stI])) u tmin =
    Ok (if mem u i0 then stI else stS).
Proof. exact fsis_positive_draws_exact_start. Qed.

(* fast_nonMarkov_SIS: the tie clause bites only for a ZERO duration or delay.  With strictly
   positive rules ([rules_pos]) nothing but the requested infections is dated tmin, the full-data
   object answers exactly the request at tmin *)
Theorem C05s_fast_nonMarkov_SIS_positive_rules_exact_start : forall g, (forall u v, In v (gadj g u) -> In v (gnodes g)) ->
  forall dur delays tmax tmin i0 fuel out fd,
  ic_sis_domb (gnodes g) i0 tmin tmax = true -> rules_ok dur delays -> rules_pos dur delays ->
  nm_run g dur delays tmax tmin true fuel i0 = Ok out -> so_full out = Some fd ->
  quiet_at_tmin (gnodes g) tmin fd = true /\
  forall u, In u (gnodes g) ->
    Investigation.node_status (Investigation.mkInv (gnodes g) (fd_hist fd) (Some [(tmin, stS)]) (Some [stS; stI])) u tmin =
    Ok (if mem u i0 then stI else stS).
Proof. exact nmsis_positive_rules_exact_start. Qed.

(* rho together with initial_infecteds -- a single node or a collection, whatever the values,
   also rho = 0 or an empty list (the `is not None` tests of sim:2758, 2937): EoNError,
   nothing drawn, no rule called *)
Theorem C05s_rho_conflict_rejected : forall g tau gamma dur delays tmax a rho tmin full fuel, arg_given a = true ->
  fast_SIS_arg g tau gamma tmax a (Some rho) tmin full fuel = Fail EoNError /\
  fast_nonMarkov_SIS_arg g dur delays tmax a (Some rho) tmin full fuel = Fail EoNError.
Proof. exact sis_rho_conflict_rejected. Qed.

Theorem C05s_rho_conflict_rejected_normalised : forall g tau gamma dur delays tmax l rho tmin full fuel,
  fast_SIS g tau gamma tmax (Some l) (Some rho) tmin full fuel = Fail EoNError /\
  fast_nonMarkov_SIS g dur delays tmax (Some l) (Some rho) tmin full fuel = Fail EoNError.
Proof. exact sis_rho_conflict_rejected_model. Qed.

(* a single node of the graph = the one-element collection (`G.has_node(initial_infecteds)`) *)
Theorem C05s_single_node_is_singleton : forall g tau gamma dur delays tmax x rho tmin full fuel, mem x (gnodes g) = true ->
  fast_SIS_arg g tau gamma tmax (IOne x) rho tmin full fuel = fast_SIS_arg g tau gamma tmax (IMany [x]) rho tmin full fuel /\
  fast_nonMarkov_SIS_arg g dur delays tmax (IOne x) rho tmin full fuel = fast_nonMarkov_SIS_arg g dur delays tmax (IMany [x]) rho tmin full fuel.
Proof. exact sis_single_node_is_singleton. Qed.

(* None -> sampled; a collection -> its element list; a single value that is not a node is
   iterated: TypeError *)
Theorem C05s_argument_forms : forall g tau gamma tmax rho tmin full fuel,
  fast_SIS_arg g tau gamma tmax IAbsent rho tmin full fuel = fast_SIS g tau gamma tmax None rho tmin full fuel /\
  (forall l, fast_SIS_arg g tau gamma tmax (IMany l) None tmin full fuel = fast_SIS g tau gamma tmax (Some l) None tmin full fuel) /\
  (forall x, mem x (gnodes g) = false -> fast_SIS_arg g tau gamma tmax (IOne x) None tmin full fuel = Fail TypeErr).
Proof. exact sis_arg_forms. Qed.

(* ---------------- non-vacuity ---------------- *)
(* the path 0 - 1 - 2 of Proofs/EventSISEx.v, tmin = 5/2: a run of fast_SIS from node 0 with
   full data; the checker accepts it; row 0 is (5/2, [2; 1]); node 0 starts (5/2, I),
   nodes 1 and 2 start (5/2, S) *)
Definition hist_heads (o : simout) : list (node * option (Q * N)) :=
  match so_full o with
  | Some fd => map (fun p : node * history => (fst p, match snd p with e :: _ => Some (Qred (fst e), snd e) | [] => None end)) (fd_hist fd)
  | None => []
  end.

Example C05s_fast_SIS_example :
  ic_sis_domb (gnodes gp) [0%N] (5#2) (Some (9#2)) = true /\
  match exec (fast_SIS gp 2 1 (Some (9#2)) (Some [0%N]) None (5#2) true 100) script3 [] with
  | (Ok o, tr) =>
      ic_sisb (gnodes gp) [0%N] (5#2) (so_rows o) (so_full o) = true /\
      map snd (firstn 1 (so_rows o)) = [[2; 1]%Z] /\ length tr = 20%nat /\ length (so_rows o) = 11%nat /\
      hist_heads o = [(0%N, Some (5#2, stI)); (1%N, Some (5#2, stS)); (2%N, Some (5#2, stS))] /\
      option_map (quiet_at_tmin (gnodes gp) (5#2)) (so_full o) = Some true
  | _ => False
  end.
Proof. vm_compute. repeat split. Qed.

(* rho = 1/2 on three nodes: int(round(3/2)) = 2 (half to even); rho = 1/6: int(round(1/2)) = 0.
   The two sampled nodes are read off the source-less transmissions *)
Example C05s_fast_SIS_rho_example :
  requested gp (Some (1#2)) = 2%Z /\ requested gp (Some (1#6)) = 0%Z /\ requested gp (Some (5#6)) = 2%Z /\
  match exec (fast_SIS gp 2 1 (Some 2) None (Some (1 # 2)) 0 true 100) [1; 1#4; 1#8; 3#8; 1#2; 5#8; 1#16; 3#4] [] with
  | (Ok o, tr) =>
      ic_sis_rhob (gnodes gp) (Some (1#2)) 0 (so_rows o) (so_full o) = true /\
      option_map (fun fd => initial_of_trans (fd_trans fd)) (so_full o) = Some [1%N; 2%N] /\
      map snd (firstn 1 (so_rows o)) = [[1; 2]%Z]
  | _ => False
  end.
Proof. vm_compute. repeat split. Qed.

(* fast_nonMarkov_SIS, rule tables of Proofs/EventSISEx.v *)
Example C05s_fast_nonMarkov_SIS_example :
  rules_ok durS delS /\ ic_sis_domb (gnodes gp) [0%N; 2%N] (-3) (Some 1) = true /\
  match nm_run gp durS delS (Some 1) (-3) true 100 [0%N; 2%N] with
  | Ok o => ic_sisb (gnodes gp) [0%N; 2%N] (-3) (so_rows o) (so_full o) = true /\
            map snd (firstn 1 (so_rows o)) = [[1; 2]%Z] /\ length (so_rows o) = 13%nat
  | _ => False
  end.
Proof. split; [exact exS_rules_ok|]. vm_compute. repeat split. Qed.

Example C05s_positive_script : Forall (fun d => 0 < d) script3 /\ length script3 = 20%nat.
Proof. split; [|reflexivity]. unfold script3. repeat constructor. Qed.

Example C05s_rules_pos_satisfiable : rules_pos durS delS /\ rules_ok durS delS.
Proof.
  split; [|exact exS_rules_ok]. split.
  - intros v k. unfold durS. destruct v as [|[p|[p|p|]|]]; lra.
  - intros v w k. unfold delS. destruct v as [|[p|[p|p|]|]]; try constructor;
      destruct w as [|[q|[q|q|]|]]; repeat constructor; lra.
Qed.

(* the tie clause of the checker is real: a rule table with the delay 0 infects node 1 AT tmin;
   its history then starts (tmin, I) although it was not requested, and transmissions() shows
   the sourced entry at tmin -- row 0 is still the request *)
Definition del0 (u v : node) (k : nat) : list Q := match u, v with 0%N, 1%N => [0] | _, _ => [] end.
Example C05s_zero_delay_tie_example :
  match nm_run gp durS del0 (Some 1) 0 true 100 [0%N] with
  | Ok o => ic_sisb (gnodes gp) [0%N] 0 (so_rows o) (so_full o) = true /\
            hist_heads o = [(0%N, Some (0, stI)); (1%N, Some (0, stI)); (2%N, Some (0, stS))] /\
            firstn 2 (so_rows o) = [(0, [2; 1]%Z); (0, [1; 2]%Z)] /\
            option_map (quiet_at_tmin (gnodes gp) 0) (so_full o) = Some false
  | _ => False
  end.
Proof. vm_compute. repeat split. Qed.

(* the checker rejects: row 0 computed before the initial nodes were counted; a first time
   other than tmin; an initial node whose history starts 'S'; a node that was not requested
   starting 'I' without a sourced transmission at tmin; a source-less transmission for a node
   that was not requested; and accepts the honest output *)
Definition fd_ok : fulldata :=
  mkFull [(0%N, [(0, stI); (1, stS)]); (1%N, [(0, stS); (1#2, stI)]); (2%N, [(0, stS)])] [(0, None, 0%N); (1#2, Some 0%N, 1%N)].
Example C05s_ic_sisb_rejects :
  ic_sisb [0;1;2]%N [0%N] 0 [(0, [2;1]%Z); (1#2, [1;2]%Z)] (Some fd_ok) = true /\
  ic_sisb [0;1;2]%N [0%N] 0 [(0, [3;0]%Z); (1#2, [2;1]%Z)] None = false /\
  ic_sisb [0;1;2]%N [0%N] 0 [(1#2, [2;1]%Z)] None = false /\
  ic_sisb [0;1;2]%N [0%N] 0 [(0, [2;1]%Z)] (Some (mkFull [(0%N, [(0, stS); (0, stI)]); (1%N, [(0, stS)]); (2%N, [(0, stS)])] [(0, None, 0%N)])) = false /\
  ic_sisb [0;1;2]%N [0%N] 0 [(0, [2;1]%Z)] (Some (mkFull [(0%N, [(0, stI)]); (1%N, [(0, stI)]); (2%N, [(0, stS)])] [(0, None, 0%N)])) = false /\
  ic_sisb [0;1;2]%N [0%N] 0 [(0, [2;1]%Z)] (Some (mkFull [(0%N, [(0, stI)]); (1%N, [(0, stS)]); (2%N, [(0, stS)])] [(0, None, 0%N); (0, None, 1%N)])) = false /\
  ic_sis_rhob [0;1;2]%N (Some (1#2)) 0 [(0, [2;1]%Z)] None = false /\
  ic_sis_rhob [0;1;2]%N (Some (1#2)) 0 [(0, [1;2]%Z)] None = true.
Proof. vm_compute. repeat split. Qed.

(* the domain clause tmin < tmax is needed: myQueue.add drops every event at or after tmax,
   the initial infections included, and the code then drops |I0| rows from the one-row arrays:
   with tmin = tmax the simulators return EMPTY arrays (no row 0 at all; Gillespie_SIS returns
   the row (tmin, N-|I0|, |I0|) there).  Same with duplicates in initial_infecteds: one row too
   many is dropped and row 0 is gone *)
Example C05s_domain_tmin_before_tmax_and_distinct_nodes_needed :
  (match exec (fast_SIS gp 2 1 (Some 5) (Some [0%N]) None 5 false 100) script3 [] with (Ok o, tr) => so_rows o = [] /\ tr = [] | _ => False end) /\
  (match nm_run gp durS delS (Some 5) 5 false 100 [0%N] with Ok o => so_rows o = [] | _ => False end) /\
  ic_sis_domb (gnodes gp) [0%N] 5 (Some 5) = false /\
  (match nm_run gp durS delS (Some 1) 0 false 100 [0%N; 0%N] with
   | Ok o => ic_sisb (gnodes gp) [0%N; 0%N] 0 (so_rows o) (so_full o) = false /\ map (fun r : row => Qred (fst r)) (firstn 1 (so_rows o)) = [1#8]
   | _ => False end) /\
  ic_sis_domb (gnodes gp) [0%N; 0%N] 0 (Some 1) = false.
Proof. vm_compute. repeat split. Qed.

Example C05s_argument_examples :
  fast_SIS_arg gp 2 1 (Some 2) (IOne 1%N) None 0 false 100 = fast_SIS gp 2 1 (Some 2) (Some [1%N]) None 0 false 100 /\
  fast_SIS_arg gp 2 1 (Some 2) (IOne 7%N) None 0 false 100 = Fail TypeErr /\
  fast_SIS_arg gp 2 1 (Some 2) (IMany []) (Some 0) 0 false 100 = Fail EoNError /\
  arg_given (IOne 0%N) = true /\ mem 1%N (gnodes gp) = true.
Proof. repeat split. Qed.

Print Assumptions C05s_fast_SIS_starts_as_requested.
Print Assumptions C05s_fast_SIS_any_initial_condition.
Print Assumptions C05s_fast_nonMarkov_SIS_starts_as_requested.
Print Assumptions C05s_fast_nonMarkov_SIS_any_initial_condition.
Print Assumptions C05s_fast_SIS_every_argument_form.
Print Assumptions C05s_fast_nonMarkov_SIS_every_argument_form.
Print Assumptions C05s_ic_sisb_sound.
Print Assumptions C05s_statuses_at_tmin_are_the_request.
Print Assumptions C05s_fast_SIS_positive_draws_exact_start.
Print Assumptions C05s_positive_script.
Print Assumptions C05s_fast_nonMarkov_SIS_positive_rules_exact_start.
Print Assumptions C05s_rules_pos_satisfiable.
Print Assumptions C05s_rho_conflict_rejected.
Print Assumptions C05s_rho_conflict_rejected_normalised.
Print Assumptions C05s_single_node_is_singleton.
Print Assumptions C05s_argument_forms.
Print Assumptions C05s_fast_SIS_example.
Print Assumptions C05s_fast_SIS_rho_example.
Print Assumptions C05s_fast_nonMarkov_SIS_example.
Print Assumptions C05s_zero_delay_tie_example.
Print Assumptions C05s_ic_sisb_rejects.
Print Assumptions C05s_domain_tmin_before_tmax_and_distinct_nodes_needed.
Print Assumptions C05s_argument_examples.
