(* C17 — placeholder while the proofs are being written *)
From EoNV Require Import Prelude Samp Graph Percolation.
