(* C17 — percolation-based probability/size estimators compute what they document.
   Only statements, each closed by [exact] of a lemma from Proofs/PercolationP.v.
   Reachability: [fwd g u v] = there is a directed path (possibly empty) from u to v.
   [card_of P k] = the set {x | P x} has exactly k elements.
   Graph hypotheses are the boolean predicate [wf_graphb] (simple graph: distinct
   nodes, adjacency inside the node list, predecessor lists the converse). *)
From EoNV Require Import Prelude Samp Graph Percolation PercolationP.

(* _out_component_(G, source): exactly the nodes reachable from a source (sources
   included); it never runs out of fuel (|nodes| steps suffice: the result is Ok) *)
Theorem C17_out_comp_spec :
  forall g, wf_graphb g = true -> forall src, incl (sources src) (gnodes g) ->
  exists r, out_component g src = Ok r /\ NoDup r /\
            forall y, In y r <-> exists s, In s (sources src) /\ fwd g s y.
Proof. exact (fun g H => out_comp_spec g (wf_graphb_wfg g H)). Qed.

(* _in_component_(G, target): exactly the nodes from which a target can be reached *)
Theorem C17_in_comp_spec :
  forall g, wf_graphb g = true -> forall src, incl (sources src) (gnodes g) ->
  exists r, in_component g src = Ok r /\ NoDup r /\
            forall y, In y r <-> exists s, In s (sources src) /\ In y (gnodes g) /\ fwd g y s.
Proof. exact (fun g H => in_comp_spec g (wf_graphb_wfg g H)). Qed.

(* ... independent of the order (and multiplicity) in which a set of sources is iterated *)
Theorem C17_out_comp_order_indep :
  forall g, wf_graphb g = true -> forall l l', incl l (gnodes g) -> (forall x, In x l <-> In x l') ->
  exists r r', out_component g (Many l) = Ok r /\ out_component g (Many l') = Ok r' /\
               (forall y, In y r <-> In y r') /\ length r = length r'.
Proof. exact (fun g H => out_comp_order_indep g (wf_graphb_wfg g H)). Qed.

Theorem C17_in_comp_order_indep :
  forall g, wf_graphb g = true -> forall l l', incl l (gnodes g) -> (forall x, In x l <-> In x l') ->
  exists r r', in_component g (Many l) = Ok r /\ in_component g (Many l') = Ok r' /\
               (forall y, In y r <-> In y r') /\ length r = length r'.
Proof. exact (fun g H => in_comp_order_indep g (wf_graphb_wfg g H)). Qed.

(* the generated components are the classes of mutual reachability and cover the nodes *)
Theorem C17_sccs_spec :
  forall g, wf_graphb g = true ->
  exists L, sccs g = Ok L /\ (forall c, In c L -> is_scc g c) /\
            (forall u, In u (gnodes g) -> exists c, In c L /\ In u c) /\ (L = [] <-> gnodes g = []).
Proof. exact (fun g H => sccs_spec g (wf_graphb_wfg g H)). Qed.

(* list(Hscc)[0]: the result does not depend on which element of a component is taken *)
Theorem C17_scc_indep :
  forall g, wf_graphb g = true -> forall u v, In u (gnodes g) -> In v (gnodes g) -> mutual g u v ->
  est_at g u = est_at g v.
Proof. exact (fun g H => scc_indep g (wf_graphb_wfg g H)). Qed.

(* estimate_SIR_prob_size_from_dir_perc: for WHICHEVER largest strongly connected
   component c (index k among the largest) and WHICHEVER of its elements (index j):
   PE = |{x | x reaches c}| / N and AR = |{x | c reaches x}| / N, both in [0,1] *)
Theorem C17_estimator_formula :
  forall g, wf_graphb g = true -> gnodes g <> [] ->
  exists L, sccs g = Ok L /\ largest L <> [] /\
  forall k j c u, nth_error (largest L) k = Some c -> nth_error c j = Some u ->
    is_scc g c /\ (forall c', is_scc g c' -> c' <> [] -> (length c' <= length c)%nat) /\
    exists a b,
      estimate_from_dir_perc g k j = Ok (frac a (length (gnodes g)), frac b (length (gnodes g))) /\
      card_of (fun x => In x (gnodes g) /\ exists y, In y c /\ fwd g x y) a /\
      card_of (fun x => exists y, In y c /\ fwd g y x) b /\
      (0 <= frac a (length (gnodes g)) /\ frac a (length (gnodes g)) <= 1) /\
      (0 <= frac b (length (gnodes g)) /\ frac b (length (gnodes g)) <= 1).
Proof. exact (fun g H => estimator_formula g (wf_graphb_wfg g H)). Qed.

(* a graph without nodes: the code's crash is max() of an empty sequence = ValueError *)
Theorem C17_estimator_empty_graph :
  forall g, gnodes g = [] -> forall k j, estimate_from_dir_perc g k j = Err ValueErr.
Proof. exact estimator_empty. Qed.

(* estimate_SIR_prob_size: for every outcome us of the calls random.random(), the
   percolated network h has G's nodes and the edges whose draw was below p, and both
   outputs are m/N with m the largest number of nodes reachable from one node of h
   (= the largest component: h is undirected) *)
Theorem C17_estimate_SIR_prob_size_spec :
  forall g p us, wf_graphb g = true -> gnodes g <> [] ->
  forall h, percolate_network g p us = Ok h ->
  gnodes h = gnodes g /\
  (forall u v, In v (gadj h u) <-> In (u, v) (kept_of p (edges g) us) \/ In (v, u) (kept_of p (edges g) us)) /\
  exists m, estimate_SIR_prob_size g p us = Ok (frac m (length (gnodes g)), frac m (length (gnodes g))) /\
    (exists v, In v (gnodes h) /\ card_of (reach (gadj h) v) m) /\
    (forall v k, In v (gnodes h) -> card_of (reach (gadj h) v) k -> (k <= m)%nat) /\
    0 <= frac m (length (gnodes g)) /\ frac m (length (gnodes g)) <= 1.
Proof. exact (fun g p us H => estimate_SIR_prob_size_spec g p us (wf_graphb_wfg g H)). Qed.

Theorem C17_percolated_network_is_symmetric :
  forall nodes es u v, In v (gadj (graph_of nodes es false) u) -> In u (gadj (graph_of nodes es false) v).
Proof. exact graph_of_undirected_sym. Qed.

(* nonMarkov_directed_percolate_network_with_timing, for ALL rules dur / delay: the
   nodes of G, and u->v exactly when v is a neighbour of u and delay(u,v) <= duration(u) *)
Theorem C17_nm_perc_timing_spec :
  forall (dur : node -> xtime) (delay : node -> node -> xtime) g w, wf_graphb g = true ->
  let h := nm_perc_timing dur delay g w in
  NoDup (pg_nodes h) /\ (forall x, In x (pg_nodes h) <-> In x (gnodes g)) /\
  length (pg_nodes h) = length (gnodes g) /\
  (forall u v, In (u, v) (pg_edges h) <-> In u (gnodes g) /\ In v (gadj g u) /\ xle (delay u v) (dur u) = true).
Proof. exact (fun dur delay g w H => nm_perc_timing_spec dur delay g w (wf_graphb_wfg g H)). Qed.

(* the attributes record what the rules returned (none when weights=False) *)
Theorem C17_nm_perc_timing_attributes :
  forall (dur : node -> xtime) (delay : node -> node -> xtime) g w,
  let h := nm_perc_timing dur delay g w in
  (forall u d, In (u, d) (pg_dur h) -> w = true /\ In u (gnodes g) /\ d = dur u) /\
  (forall u v d, In (u, v, d) (pg_delay h) -> w = true /\ In u (gnodes g) /\ In v (gadj g u) /\ d = delay u v /\ xle d (dur u) = true).
Proof. exact nm_perc_timing_attr. Qed.

(* the rules are consulted for every node and for every arc of G *)
Theorem C17_nm_perc_timing_calls :
  forall g, wf_graphb g = true ->
  (forall u, In (CallRec u) (nm_perc_timing_calls g) <-> In u (gnodes g)) /\
  (forall u v, In (CallTrans u v) (nm_perc_timing_calls g) <-> In u (gnodes g) /\ In v (gadj g u)).
Proof. exact (fun g H => nm_perc_timing_calls_spec g (wf_graphb_wfg g H)). Qed.

(* nonMarkov_directed_percolate_network, for ALL xi, zeta, transmission *)
Theorem C17_nm_perc_spec :
  forall (X Z : Type) (xi : node -> option X) (zeta : node -> option Z) (transmission : X -> Z -> bool) g h,
  wf_graphb g = true -> nm_perc X Z xi zeta transmission g = Ok h ->
  NoDup (pg_nodes h) /\ (forall x, In x (pg_nodes h) <-> In x (gnodes g)) /\
  length (pg_nodes h) = length (gnodes g) /\
  (forall u v, In (u, v) (pg_edges h) <->
     In u (gnodes g) /\ In v (gadj g u) /\ exists a b, xi u = Some a /\ zeta v = Some b /\ transmission a b = true).
Proof. exact (fun X Z xi zeta tr g h H => nm_perc_spec X Z xi zeta tr g h (wf_graphb_wfg g H)). Qed.

Theorem C17_nm_perc_succeeds :
  forall (X Z : Type) (xi : node -> option X) (zeta : node -> option Z) (transmission : X -> Z -> bool) g,
  wf_graphb g = true -> (forall u, In u (gnodes g) -> xi u <> None /\ zeta u <> None) ->
  exists h, nm_perc X Z xi zeta transmission g = Ok h.
Proof. exact (fun X Z xi zeta tr g H => nm_perc_total X Z xi zeta tr g (wf_graphb_wfg g H)). Qed.

Theorem C17_nm_perc_only_failure_is_KeyError :
  forall (X Z : Type) (xi : node -> option X) (zeta : node -> option Z) (transmission : X -> Z -> bool) g e,
  nm_perc X Z xi zeta transmission g = Err e -> e = KeyErr.
Proof. exact nm_perc_err. Qed.

(* the directed / non-Markovian estimators apply the same computation to the
   percolated graph: [estimator_ok H f] is literally the statement of
   C17_estimator_formula for the digraph H and the estimator f (unfolded below) *)
Theorem C17_estimator_ok_is_the_formula :
  forall H f, estimator_ok H f <->
  exists L, sccs H = Ok L /\ largest L <> [] /\
  forall k j c u, nth_error (largest L) k = Some c -> nth_error c j = Some u ->
    is_scc H c /\ (forall c', is_scc H c' -> c' <> [] -> (length c' <= length c)%nat) /\
    exists a b,
      f k j = Ok (frac a (length (gnodes H)), frac b (length (gnodes H))) /\
      card_of (fun x => In x (gnodes H) /\ exists y, In y c /\ fwd H x y) a /\
      card_of (fun x => exists y, In y c /\ fwd H y x) b /\
      (0 <= frac a (length (gnodes H)) /\ frac a (length (gnodes H)) <= 1) /\
      (0 <= frac b (length (gnodes H)) /\ frac b (length (gnodes H)) <= 1).
Proof. exact (fun H f => iff_refl _). Qed.

Theorem C17_estimate_nonMarkov_with_timing_formula :
  forall (dur : node -> xtime) (delay : node -> node -> xtime) g, wf_graphb g = true -> gnodes g <> [] ->
  estimator_ok (to_graph (nm_perc_timing dur delay g true)) (estimate_nonMarkov_with_timing dur delay g).
Proof. exact (fun dur delay g H => estimate_with_timing_ok dur delay g (wf_graphb_wfg g H)). Qed.

Theorem C17_estimate_nonMarkov_formula :
  forall (X Z : Type) (xi : node -> option X) (zeta : node -> option Z) (transmission : X -> Z -> bool) g h,
  wf_graphb g = true -> gnodes g <> [] -> nm_perc X Z xi zeta transmission g = Ok h ->
  estimator_ok (to_graph h) (estimate_nonMarkov X Z xi zeta transmission g).
Proof. exact (fun X Z xi zeta tr g h H => estimate_nonMarkov_ok X Z xi zeta tr g h (wf_graphb_wfg g H)). Qed.

(* directed_percolate_network (expovariate rules).  For ALL values the calls to
   expovariate may return, presented as rules dur / delay (a drawn number exactly when
   the rate is positive, otherwise Inf: the boolean predicate [drawn]): run on those
   draws, in the order of the calls, the function returns what the timing builder
   returns for these rules -- hence (C17_nm_perc_timing_spec) G's nodes and u->v iff
   the delay drawn for (u,v) is <= the duration drawn for u. *)
Theorem C17_directed_percolate_network_is_timing_builder :
  forall (dur : node -> xtime) (delay : node -> node -> xtime) tau gamma g w,
  (forall u, In u (gnodes g) -> drawn gamma (dur u) = true /\ forall v, In v (gadj g u) -> drawn tau (delay u v) = true) ->
  exists tr', exec (directed_percolate_network g tau gamma w) (outer_draws dur delay g (gnodes g)) []
              = (Ok (nm_perc_timing dur delay g w), tr').
Proof. exact directed_percolate_network_spec. Qed.

(* and whatever list of draws is supplied: G's nodes and only arcs of G *)
Theorem C17_directed_percolate_network_shape :
  forall g tau gamma w, wf_graphb g = true ->
  forall ds tr h tr', exec (directed_percolate_network g tau gamma w) ds tr = (Ok h, tr') ->
  NoDup (pg_nodes h) /\ (forall x, In x (pg_nodes h) <-> In x (gnodes g)) /\
  length (pg_nodes h) = length (gnodes g) /\
  (forall u v, In (u, v) (pg_edges h) -> In u (gnodes g) /\ In v (gadj g u)).
Proof. exact (fun g tau gamma w H => directed_percolate_network_shape g tau gamma w (wf_graphb_wfg g H)). Qed.

(* get_infected_nodes, once the percolated network h is drawn ([pg_wf h]: what every
   builder returns, C17_timing_builder_output_wf): the nodes reachable from the initial
   infecteds in h minus the initially recovered nodes and their arcs *)
Theorem C17_timing_builder_output_wf :
  forall (dur : node -> xtime) (delay : node -> node -> xtime) g w, wf_graphb g = true ->
  pg_wf (nm_perc_timing dur delay g w).
Proof. exact (fun dur delay g w H => timing_pg_wf dur delay g w (wf_graphb_wfg g H)). Qed.

Theorem C17_removed_nodes_adjacency :
  forall h r0 u v,
  In v (gadj (to_graph (remove_nodes h r0)) u) <-> In (u, v) (pg_edges h) /\ ~ In u r0 /\ ~ In v r0.
Proof. exact removed_adj. Qed.

Theorem C17_get_infected_nodes_spec :
  forall h i0 r0, pg_wf h -> incl r0 (pg_nodes h) -> incl i0 (pg_nodes h) -> (forall x, In x i0 -> ~ In x r0) ->
  exists r, infected_nodes_in h i0 r0 = Ok r /\ NoDup r /\
            forall y, In y r <-> exists s, In s i0 /\ reach (gadj (to_graph (remove_nodes h r0))) s y.
Proof. exact infected_nodes_in_spec. Qed.

(* ---------------- non-vacuity ---------------- *)
(* two equally large components {0,1} and {2,3}, 1->2, 3->4: the two choices give
   different answers, each as the formula says *)
Definition ex_g : graph := graph_of [0;1;2;3;4]%N [(0,1);(1,0);(2,3);(3,2);(1,2);(3,4)]%N true.

Example C17_ex_wf : wf_graphb ex_g = true.
Proof. vm_compute. reflexivity. Qed.

Example C17_ex_two_answers :
  estimate_from_dir_perc ex_g 0 0 = Ok (2 # 5, 5 # 5) /\ estimate_from_dir_perc ex_g 1 1 = Ok (4 # 5, 3 # 5) /\
  estimate_from_dir_perc ex_g 0 1 = estimate_from_dir_perc ex_g 0 0 /\
  out_component ex_g (Many [3;1]%N) = Ok [3;1;2;4;0]%N /\ in_component ex_g (One 2%N) = Ok [2;3;1;0]%N.
Proof. vm_compute. repeat split. Qed.

Example C17_ex_mutual : mutual ex_g 2%N 3%N.
Proof.
  split; (eapply reach_step; [apply reach_refl|]); vm_compute; auto.
Qed.

(* a path 0-1-2 with delays 1/2 "upwards", 2 "downwards" and durations 1 *)
Definition ex_path : graph := graph_of [0;1;2]%N [(0,1);(1,2)]%N false.
Example C17_ex_builder :
  wf_graphb ex_path = true /\
  pg_edges (nm_perc_timing (fun _ => Some 1) (fun u v => if N.ltb u v then Some (1 # 2) else Some 2) ex_path true) = [(0,1);(1,2)]%N /\
  estimate_SIR_prob_size ex_path (1 # 2) [1 # 4; 3 # 4] = Ok (2 # 3, 2 # 3) /\
  (* tau = 1, gamma = 0: durations are Inf, every arc is kept *)
  forallb (fun u => drawn 0 None && forallb (fun v => drawn 1 (Some (1 # 2))) (gadj ex_path u)) (gnodes ex_path) = true /\
  fst (exec (directed_percolate_network ex_path 1 0 false) [1 # 2; 1 # 2; 1 # 2; 1 # 2] []) =
    Ok (nm_perc_timing (fun _ => None) (fun _ _ => Some (1 # 2)) ex_path false) /\
  (* everything transmits; node 1 initially recovered cuts the path *)
  infected_nodes_in (nm_perc_timing (fun _ => None) (fun _ _ => Some (1 # 2)) ex_path true) [0%N] [1%N] = Ok [0%N] /\
  infected_nodes_in (nm_perc_timing (fun _ => None) (fun _ _ => Some (1 # 2)) ex_path true) [0%N] [] = Ok [0; 1; 2]%N.
Proof. vm_compute. repeat split. Qed.

Print Assumptions C17_out_comp_spec.
Print Assumptions C17_in_comp_spec.
Print Assumptions C17_out_comp_order_indep.
Print Assumptions C17_in_comp_order_indep.
Print Assumptions C17_sccs_spec.
Print Assumptions C17_scc_indep.
Print Assumptions C17_estimator_formula.
Print Assumptions C17_estimator_empty_graph.
Print Assumptions C17_estimate_SIR_prob_size_spec.
Print Assumptions C17_percolated_network_is_symmetric.
Print Assumptions C17_nm_perc_timing_spec.
Print Assumptions C17_nm_perc_timing_attributes.
Print Assumptions C17_nm_perc_timing_calls.
Print Assumptions C17_nm_perc_spec.
Print Assumptions C17_nm_perc_succeeds.
Print Assumptions C17_nm_perc_only_failure_is_KeyError.
Print Assumptions C17_estimator_ok_is_the_formula.
Print Assumptions C17_estimate_nonMarkov_with_timing_formula.
Print Assumptions C17_estimate_nonMarkov_formula.
Print Assumptions C17_directed_percolate_network_is_timing_builder.
Print Assumptions C17_directed_percolate_network_shape.
Print Assumptions C17_timing_builder_output_wf.
Print Assumptions C17_removed_nodes_adjacency.
Print Assumptions C17_get_infected_nodes_spec.
Print Assumptions C17_ex_wf.
Print Assumptions C17_ex_two_answers.
Print Assumptions C17_ex_mutual.
Print Assumptions C17_ex_builder.
