(* C09 — recorded transmissions are causally valid and complete.
   This file: Gillespie_SIR / Gillespie_SIS (generic in the kind); other simulators
   are delivered in their own files. *)
From EoNV Require Import Prelude Samp Graph ListDict ListDictP Gillespie KldP GillespieInv SampP GillespieP GillespieLog GillespieEx.

Section C09.
Variable g : graph.
Hypothesis Hg : wfg g.
Hypothesis Hnd : NoDup (gnodes g).
Hypothesis Hadj : forall u v, In v (gadj g u) -> In v (gnodes g).
Variable kind : model_kind.
Variables tau gamma tmin : Q.
Variable tmax : xtime.

(* every full-data run: transmissions() = the source-less entries of the initial nodes
   followed by exactly one entry per infection event, with the event's time and target,
   in time order; replaying the log, every entry goes along an edge from a node that is
   infectious to a node that is susceptible at that moment (valid_logb), and the rows and
   per-node histories are projections of the same log *)
Theorem C09_gillespie_full_output :
  forall i0 r0 fuel out, wf_init g kind i0 r0 ->
    reach (gillespie g kind tau gamma (Some i0) r0 None tmin tmax true fuel) out ->
    exists (evs : list ev) (txs : list tx) (fd : fulldata) (rs : list row),
      so_full out = Some fd /\
      fd_trans fd = map (fun u => (tmin, None, u)) i0 ++ txs /\
      valid_logb g kind (st_init i0 (r0_list kind r0)) evs txs = true /\
      map (fun x : tx => fst (fst x)) txs = map ev_time (filter (fun e => N.eqb (ev_st e) stI) evs) /\
      map (fun x : tx => snd x) txs = map ev_node (filter (fun e => N.eqb (ev_st e) stI) evs) /\
      Forall (fun e => xlt (ev_time e) tmax = true) evs /\
      Forall (fun e => In (ev_node e) (gnodes g) /\ (ev_st e = stI \/ ev_st e = rec_status kind)) evs /\
      so_rows out = init_rows g kind tmin i0 (r0_list kind r0) ++ rs /\
      map fst rs = map ev_time evs /\
      (forall k e r, nth_error evs k = Some e -> nth_error rs k = Some r ->
         snd r = census g kind (replay (st_init i0 (r0_list kind r0)) (firstn (S k) evs))) /\
      fd_hist fd = map (fun u =>
          let es := node_events u (map (fun u => (tmin, u, stI)) i0 ++ map (fun u => (tmin, u, stR)) (r0_list kind r0) ++ evs) in
          (u, hist_of kind tmin (match kind with SIR => first_with stI es ++ first_with stR es | SIS => es end))) (gnodes g).
Proof. exact (gillespie_full_output g Hg Hnd Hadj kind tau gamma tmin tmax). Qed.

(* what valid_logb guarantees for each entry: the source was infectious — initially, or
   as the target of an EARLIER entry — and the target is its neighbour *)
Theorem C09_sources_are_infectious_and_adjacent :
  forall evs txs st, valid_logb g kind st evs txs = true ->
    forall a t u v b, txs = a ++ (t, Some u, v) :: b ->
      (st u = stI \/ In u (map (fun x : tx => snd x) a)) /\ In v (gadj g u).
Proof. exact (vl_sources g kind). Qed.

End C09.

(* SIR: nobody is infected twice; with the previous theorem (sources come from earlier
   entries or the initial set) the transmission tree is a forest rooted at the initially
   infected nodes *)
Theorem C09_SIR_infected_at_most_once :
  forall g evs txs st, valid_logb g SIR st evs txs = true -> NoDup (map (fun t : tx => snd t) txs).
Proof. exact vl_nodup_targets. Qed.

(* non-vacuity: the scripted run of GillespieEx has two sourced transmissions 0->1->2 *)
Example C09_example_transmissions :
  match fst ex_run with
  | Ok out => match so_full out with
              | Some fd => map (fun x : tx => (Qred (fst (fst x)), snd (fst x), snd x)) (fd_trans fd)
              | None => []
              end
  | Err _ => []
  end = [(0, None, 0%N); (1 # 4, Some 0%N, 1%N); (1 # 2, Some 1%N, 2%N)].
Proof. vm_compute. reflexivity. Qed.

Print Assumptions C09_gillespie_full_output.
Print Assumptions C09_sources_are_infectious_and_adjacent.
Print Assumptions C09_SIR_infected_at_most_once.
Print Assumptions C09_example_transmissions.
