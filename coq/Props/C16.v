(* C16 — weighted event selection stays proportional to weight after any history.
   Only statements, each closed by [exact] of a lemma from Proofs/ListDictP.v. *)
From EoNV Require Import Prelude Samp ListDict ListDictP.

Section C16.
Variable K : Type.
Variable Keqb : K -> K -> bool.
Hypothesis Keqb_spec : forall a b, reflect (a = b) (Keqb a b).

(* every reachable state satisfies the invariant: items duplicate-free, position
   map exact, weights non-negative and bounded by the tracked maximum, running
   total equal to the sum of the current weights *)
Theorem C16_invariant_every_history :
  forall (w : bool) (ops : list (op K)) (s : ld K),
    Forall (op_ok K w) ops ->
    ld_run K Keqb (ld_empty w) ops = Ok s ->
    ld_inv K s /\ weighted s = w.
Proof. exact (ld_run_inv_from_empty K Keqb Keqb_spec). Qed.

(* the structure is observationally the finite map of the specification *)
Theorem C16_refines_finite_map :
  forall (w : bool) (ops : list (op K)) (s : ld K),
    Forall (op_ok K w) ops ->
    ld_run K Keqb (ld_empty w) ops = Ok s ->
    forall k, oQeq (abs K s k) (fold_left (sp_step K Keqb) ops (sp_empty K) k).
Proof. exact (ld_run_refines_from_empty K Keqb Keqb_spec). Qed.

(* the only way an operation of the history can fail is removing an absent key *)
Theorem C16_only_failure_is_absent_remove :
  forall (s : ld K) (o : op K) (e : err),
    ld_inv K s -> op_ok K (weighted s) o -> ld_step K Keqb s o = Err e ->
    exists k, o = OpRemove k /\ abs K s k = None /\ e = KeyErr.
Proof. exact (ld_step_fails K Keqb Keqb_spec). Qed.

(* total_weight() is the sum of the current weights (len for unweighted) *)
Theorem C16_total_is_sum :
  forall s : ld K, ld_inv K s ->
    ld_total_weight K s == sumQ (map (absw K s) (items s)).
Proof. exact (ld_total_exact K). Qed.

(* the accept probability used by choose_random is a probability *)
Theorem C16_accept_is_probability :
  forall (s : ld K) k, ld_inv K s -> weighted s = true -> 0 < total s -> In k (items s) ->
    0 <= accp K s k /\ accp K s k <= 1.
Proof. exact (accp_01 K). Qed.

(* closed form of the rejection loop for EVERY fuel: the probability that
   choose_random returns k within [fuel] rounds is (w_k/W)(1-(1-a)^fuel) with
   a = W/(n*max_weight) the per-round acceptance probability *)
Theorem C16_rejection_law :
  forall (s : ld K) (fuel : nat) k,
    ld_inv K s -> weighted s = true -> 0 < total s -> In k (items s) ->
    sel_prob K Keqb fuel s k ==
      (wread K s k / total s) * (1 - (1 - acc_rate K s) ^ Z.of_nat fuel).
Proof. exact (rejection_law K Keqb Keqb_spec). Qed.

Theorem C16_acceptance_rate_positive :
  forall s : ld K, ld_inv K s -> weighted s = true -> 0 < total s ->
    0 < acc_rate K s /\ acc_rate K s <= 1.
Proof. exact (acc_rate_01 K). Qed.

(* hence, conditional on having returned within any positive number of rounds,
   k is selected with probability exactly weight/total ... *)
Theorem C16_selection_proportional :
  forall (s : ld K) (fuel : nat) k,
    ld_inv K s -> weighted s = true -> 0 < total s -> In k (items s) ->
    sel_prob K Keqb (S fuel) s k == (wread K s k / total s) * term_prob K Keqb (S fuel) s
    /\ 0 < term_prob K Keqb (S fuel) s.
Proof. exact (selection_proportional K Keqb Keqb_spec). Qed.

(* ... zero-weight candidates and absent keys are never selected ... *)
Theorem C16_zero_weight_never_selected :
  forall (s : ld K) (fuel : nat) k,
    ld_inv K s -> weighted s = true -> 0 < total s ->
    (~ In k (items s) \/ wread K s k == 0) -> sel_prob K Keqb fuel s k == 0.
Proof. exact (zero_never_selected K Keqb Keqb_spec). Qed.

(* ... and unweighted selection is uniform *)
Theorem C16_unweighted_uniform :
  forall (s : ld K) k, ld_inv K s -> weighted s = false -> In k (items s) ->
    sel_prob_unweighted K Keqb s k == 1 / Qnat (length (items s)).
Proof. exact (unweighted_uniform K Keqb Keqb_spec). Qed.

End C16.

(* non-vacuity: a 12-operation history in which the heaviest element changes
   four times and which ends with three positive weights and one zero weight
   meets the hypotheses, and the loop's law on it is the closed form *)
Example C16_history_nonvacuous : C16_example_statement.
Proof. exact C16_example_proof. Qed.

Print Assumptions C16_invariant_every_history.
Print Assumptions C16_refines_finite_map.
Print Assumptions C16_only_failure_is_absent_remove.
Print Assumptions C16_total_is_sum.
Print Assumptions C16_accept_is_probability.
Print Assumptions C16_rejection_law.
Print Assumptions C16_acceptance_rate_positive.
Print Assumptions C16_selection_proportional.
Print Assumptions C16_zero_weight_never_selected.
Print Assumptions C16_unweighted_uniform.
Print Assumptions C16_history_nonvacuous.
