(* C13x — C13 without the fuel condition.  Statements only; proofs in
   Proofs/C13xTerm.v (potential function), C13xFin.v, C13xTime.v.

   Props/C13.v proves: IF the reference agenda run [ref_sis] ends within the given
   fuel inside its domain, fast_nonMarkov_SIS ([nm_run]) returns literally its
   output.  Here the "if it ends" is discharged on two domains of rule tables, with
   a fuel that is a closed expression of the inputs:

     ref_fuel g delays K i0 = |i0| + 2 * Σ_{v ∈ G} Σ_{k < K} Σ_{w ∈ adj v} |delays v w k|
     nm_fuel  g delays K i0 = |i0| + ref_fuel g delays K i0

   (A) finite horizon, durations bounded below ([rules_boundedb], decidable):
       tmax = Some T, delta > 0, T <= tmin + K*delta, and for the ordinals k < K
       every duration of a node is >= delta and every listed delay is >= 0.
       Then no node is infected K times before T and the tables are never asked
       beyond ordinal K.
   (B) finite tables ([delays_finite K]: nothing listed from ordinal K on), any tmax
       including infinity, any durations and delays whatsoever: the process dies
       out because the tables run dry.  [cut_delays K d] is such a table for every d.

   On both domains: the reference run ENDS (second component b of its result = it
   stayed inside C13's own domain: ascending lists, pairwise distinct event
   times), and when b = true the arrays, node histories and transmissions of
   fast_nonMarkov_SIS are literally those of the reference semantics truncated at
   tmax.  On (B) fast_nonMarkov_SIS itself ends within nm_fuel even when b = false.

   Outside (A) and (B) no bound exists: zero durations with zero delays loop
   forever at one instant (last example; reproduced on the code: the call does not
   return).  That input is outside C13's domain (tied event times). *)
From EoNV Require Import Prelude Samp Graph EventSIS C13xTerm C13xFin C13xTime C13xTimeN.

(* ---------------- (A) ---------------- *)
Theorem nmsis_refines_bounded :
  forall (g : graph) (dur : node -> nat -> Q) (delays : node -> node -> nat -> list Q) (tmax : xtime)
         (tmin delta : Q) (K : nat) (full : bool) (i0 : list node),
    graph_closedb g i0 = true -> rules_boundedb g dur delays tmax tmin delta K = true -> xlt tmin tmax = true ->
    exists out b,
      ref_sis g dur delays tmax tmin full (ref_fuel g delays K i0) i0 = Ok (out, b) /\
      (b = true -> nm_run g dur delays tmax tmin full (nm_fuel g delays K i0) i0 = Ok out).
Proof. exact C13xTime.nmsis_refines_bounded. Qed.
Print Assumptions nmsis_refines_bounded.

(* fast_nonMarkov_SIS itself ends on (A) when, in addition, the delay lists of the ordinals below
   K are non-decreasing ([lists_sortedb]; the code queues the head of a list and trusts the
   rest to be later) — inside or outside C13's domain (ties, attempts after recovery allowed).
   Together with Props/C04esis.v, C09esis.v, C10esis.v (stated for runs that return) this makes
   those theorems unconditional on (A). *)
Theorem nmsis_terminates_bounded :
  forall g dur delays tmax tmin delta K full i0,
    graph_closedb g i0 = true -> rules_boundedb g dur delays tmax tmin delta K = true ->
    lists_sortedb g delays K = true -> xlt tmin tmax = true ->
    exists out, nm_run g dur delays tmax tmin full (nm_fuel g delays K i0) i0 = Ok out.
Proof. exact C13xTimeN.nmsis_terminates_bounded. Qed.
Print Assumptions nmsis_terminates_bounded.

(* ---------------- (B) ---------------- *)
Theorem nmsis_refines_finite :
  forall (g : graph), NoDup (gnodes g) -> (forall u v, In u (gnodes g) -> In v (gadj g u) -> In v (gnodes g)) ->
  forall (dur : node -> nat -> Q) (delays : node -> node -> nat -> list Q) (tmax : xtime) (K : nat),
    delays_finite K delays ->
    forall (tmin : Q) (full : bool) (i0 : list node),
    xlt tmin tmax = true -> incl i0 (gnodes g) ->
    exists out b,
      ref_sis g dur delays tmax tmin full (ref_fuel g delays K i0) i0 = Ok (out, b) /\
      (b = true -> nm_run g dur delays tmax tmin full (nm_fuel g delays K i0) i0 = Ok out).
Proof. exact C13xFin.nmsis_refines_fin. Qed.
Print Assumptions nmsis_refines_finite.

(* every table cut at ordinal K is finite: no hypothesis on the rules at all *)
Theorem nmsis_refines_cut :
  forall (g : graph), NoDup (gnodes g) -> (forall u v, In u (gnodes g) -> In v (gadj g u) -> In v (gnodes g)) ->
  forall dur delays tmax K tmin full i0,
    xlt tmin tmax = true -> incl i0 (gnodes g) ->
    let dl := cut_delays K delays in
    exists out b,
      ref_sis g dur dl tmax tmin full (ref_fuel g dl K i0) i0 = Ok (out, b) /\
      (b = true -> nm_run g dur dl tmax tmin full (nm_fuel g dl K i0) i0 = Ok out).
Proof.
  intros g Hnd Hadj dur delays tmax K.
  exact (C13xFin.nmsis_refines_fin g Hnd Hadj dur (cut_delays K delays) tmax K (cut_finite K delays)).
Qed.
Print Assumptions nmsis_refines_cut.

(* fast_nonMarkov_SIS itself ends on finite tables, inside or outside C13's domain *)
Theorem nmsis_terminates_finite :
  forall (g : graph), NoDup (gnodes g) -> (forall u v, In u (gnodes g) -> In v (gadj g u) -> In v (gnodes g)) ->
  forall dur delays tmax K, delays_finite K delays ->
  forall tmin full i0, incl i0 (gnodes g) ->
    exists out, nm_run g dur delays tmax tmin full (nm_fuel g delays K i0) i0 = Ok out.
Proof. exact C13xFin.nm_total_fin. Qed.
Print Assumptions nmsis_terminates_finite.

(* the core of both: one step of either loop lowers the potential *)
Theorem nmsis_step_lowers_potential :
  forall g dur delays tmax K, NoDup (gnodes g) ->
  forall s t c e rest, q_items (ns_q s) = (t, c, e) :: rest ->
    (forall src v fut, e = NTrans src v fut -> ns_stat s v = stS -> safe g delays K v (ns_ord s v)) ->
    (nM g delays K (n_event g dur delays tmax t e (npop s rest)) + 1 <= nM g delays K s)%nat.
Proof. exact C13xTerm.n_step_dec. Qed.
Print Assumptions nmsis_step_lowers_potential.

Theorem ref_step_lowers_potential :
  forall g dur delays tmax K, NoDup (gnodes g) ->
  forall s t a rest, r_ag s = (t, a) :: rest ->
    (forall u v, a = AAtt u v -> r_stat s v = stS -> safe g delays K v (r_ord s v)) ->
    (rM g delays K (r_event g dur delays tmax t a (rpop s rest)) + 1 <= rM g delays K s)%nat.
Proof. exact C13xTerm.r_step_dec. Qed.
Print Assumptions ref_step_lowers_potential.

(* ---------------- non-vacuity ---------------- *)
Definition adj3 (u : node) : list node :=
  match u with 0%N => [1%N] | 1%N => [0%N; 2%N] | 2%N => [1%N] | _ => [] end.
Definition g3 : graph := mkGraph [0%N;1%N;2%N] adj3 adj3 false (fun _ _ => 1) (fun _ => 1) false false.
Definition dur3 (u : node) (k : nat) : Q :=
  match u, k with 0%N, O => 37#64 | 0%N, _ => 53#64 | 1%N, O => 71#64 | 1%N, _ => 59#128 | _, _ => 101#64 end.
Definition del3 (u v : node) (k : nat) : list Q :=
  match u, v with
  | 0%N, 1%N => [11#64; 47#64]
  | 1%N, 0%N => [43#64; 135#128; 97#64]
  | 1%N, 2%N => [45#128]
  | 2%N, 1%N => match k with O => [83#64; 131#64] | _ => [] end
  | _, _ => []
  end.

(* (A) on the example of Props/C13.v: durations >= 59/128, T = 3 <= 7 * 59/128, so K = 7
   and the fuel is 1 + 2*(7*2 + 7*4 + 2) = 89; the run is inside C13's domain (b = true)
   and has 15 events *)
Example bounded_nonvacuous :
  graph_closedb g3 [0%N] = true /\ rules_boundedb g3 dur3 del3 (Some 3) 0 (59#128) 7 = true /\
  ref_fuel g3 del3 7 [0%N] = 89%nat /\
  exists out, ref_sis g3 dur3 del3 (Some 3) 0 true (ref_fuel g3 del3 7 [0%N]) [0%N] = Ok (out, true) /\
              length (so_rows out) = 16%nat /\
              nm_run g3 dur3 del3 (Some 3) 0 true (nm_fuel g3 del3 7 [0%N]) [0%N] = Ok out.
Proof.
  split; [reflexivity|]. split; [vm_compute; reflexivity|]. split; [vm_compute; reflexivity|].
  destruct (nmsis_refines_bounded g3 dur3 del3 (Some 3) 0 (59#128) 7 true [0%N]) as [out [b [E1 E2]]];
    [reflexivity|vm_compute; reflexivity|reflexivity|].
  assert (b = true) as -> by (vm_compute in E1; injection E1 as _ <-; reflexivity).
  exists out. split; [exact E1|]. split; [|apply E2; reflexivity].
  vm_compute in E1. injection E1 as <-. reflexivity.
Qed.
Print Assumptions bounded_nonvacuous.

(* the same tables with a tie forced (duration of node 0 := 11/64 = its first delay to 1: the
   attempt and the recovery coincide): outside C13's domain (b = false), still inside (A), and
   fast_nonMarkov_SIS ends within nm_fuel *)
Definition dur3t (u : node) (k : nat) : Q := match u, k with 0%N, O => 11#64 | _, _ => dur3 u k end.
Example bounded_terminates_outside_domain :
  rules_boundedb g3 dur3t del3 (Some 3) 0 (11#64) 18 = true /\ lists_sortedb g3 del3 18 = true /\
  (exists out, ref_sis g3 dur3t del3 (Some 3) 0 false (ref_fuel g3 del3 18 [0%N]) [0%N] = Ok (out, false)) /\
  (exists out, nm_run g3 dur3t del3 (Some 3) 0 false (nm_fuel g3 del3 18 [0%N]) [0%N] = Ok out).
Proof.
  apply conj; [vm_compute; reflexivity|]. apply conj; [vm_compute; reflexivity|]. apply conj.
  - destruct (nmsis_refines_bounded g3 dur3t del3 (Some 3) 0 (11#64) 18 false [0%N]) as [out [b [E1 _]]];
      [reflexivity|vm_compute; reflexivity|reflexivity|].
    assert (Hb : b = false) by (vm_compute in E1; injection E1 as _ <-; reflexivity).
    subst b. exists out. exact E1.
  - apply (nmsis_terminates_bounded g3 dur3t del3 (Some 3) 0 (11#64) 18 false [0%N]);
      [reflexivity|vm_compute; reflexivity|vm_compute; reflexivity|reflexivity].
Qed.
Print Assumptions bounded_terminates_outside_domain.

(* (B) with tmax = infinity: the same tables cut at ordinal 2; the epidemic dies out after
   finitely many events and the theorem gives the output of fast_nonMarkov_SIS with NO horizon *)
Example finite_nonvacuous :
  exists out, ref_sis g3 dur3 (cut_delays 2 del3) None 0 true (ref_fuel g3 (cut_delays 2 del3) 2 [0%N]) [0%N] = Ok (out, true) /\
              (10 <= length (so_rows out))%nat /\
              nm_run g3 dur3 (cut_delays 2 del3) None 0 true (nm_fuel g3 (cut_delays 2 del3) 2 [0%N]) [0%N] = Ok out.
Proof.
  assert (Hnd : NoDup (gnodes g3)) by (apply nodupb_NoDup; reflexivity).
  assert (Hadj : forall u v, In u (gnodes g3) -> In v (gadj g3 u) -> In v (gnodes g3)).
  { intros u v Hu Hv. destruct (graph_closedb_spec g3 [] eq_refl) as [_ [H _]]. apply (H u v Hu Hv). }
  destruct (nmsis_refines_cut g3 Hnd Hadj dur3 del3 None 2 0 true [0%N] eq_refl) as [out [b [E1 E2]]].
  { intros x [<-|[]]. left. reflexivity. }
  assert (b = true) as -> by (vm_compute in E1; injection E1 as _ <-; reflexivity).
  exists out. split; [exact E1|]. split; [|apply E2; reflexivity].
  vm_compute in E1. injection E1 as <-. vm_compute. repeat constructor.
Qed.
Print Assumptions finite_nonvacuous.

(* ---------------- where no bound exists ---------------- *)
(* FINITE CHECK (one fuel value, by evaluation): an edge 0-1, every duration 0, every delay
   list [0], tmax = 1.  Each node recovers at the instant it is infected and re-infects the
   other at the same instant; the model is still running after 5000 events at time 0.  On the
   code the call fast_nonMarkov_SIS(path_graph(2), lambda u,v,r: [0.0], lambda u: 0.0, [0], tmax=1)
   does not return (harness/c13x.py reproduces it under a timeout).  The input violates the
   hypothesis of C13 (event times pairwise distinct), so this is a statement about the domain, not
   a violation of the property. *)
Definition adj2 (u : node) : list node := match u with 0%N => [1%N] | 1%N => [0%N] | _ => [] end.
Definition g2 : graph := mkGraph [0%N;1%N] adj2 adj2 false (fun _ _ => 1) (fun _ => 1) false false.
Example zero_rules_do_not_terminate_finite_check :
  nm_run g2 (fun _ _ => 0) (fun _ _ _ => [0]) (Some 1) 0 false 5000 [0%N] = Err OutOfFuel /\
  (forall K, rules_boundedb g2 (fun _ _ => 0) (fun _ _ _ => [0]) (Some 1) 0 0 K = false).
Proof. split; [vm_compute; reflexivity|intro K; reflexivity]. Qed.
Print Assumptions zero_rules_do_not_terminate_finite_check.

(* ---------------- fast_SIS as an instance (goal stated, NOT proved) ----------------
   The law clause of C13 ("with exponential rules this coincides in law with fast_SIS") has a
   pathwise core that can be stated over these models: for every draw script ds on which
   fast_SIS returns out, let cs be the clock records of Props/C02fast.v [fsis_clock_structure]
   (each expovariate call annotated KRec v s d / KAtt u v k s d rd) and define
       dur v k      := d of the k-th record KRec v _ d,
       delays u v k := ascending list of (s + d) - (start of u's k-th infection) over the records
                       KAtt u v k s d _ with s + d < rec_time[u]
   (every attempt the draws define before the source's recovery, INCLUDING the one discarded
   because it falls inside v's infectious period — the reference ignores it for the same reason;
   the redrawn one starts at rec_time[v], not at the discarded time, so these are not plain
   cumulative sums).  Claim: ref_sis g dur delays tmax tmin full fuel i0 = Ok (out, true) whenever
   the drawn times are pairwise distinct.  This needs a second simulation (m_loop against the
   agenda with prophecy of the clocks still to be drawn) and is NOT proved here; it is CHECKED at
   run time on the implementation: harness/c13x.py [fsis_part] rebuilds exactly these tables from
   fast_SIS's own calls to expovariate and compares fast_SIS's arrays, histories and transmissions
   with the independent agenda oracle on them.  What is proved about fast_SIS pathwise stays
   Props/C02fast.v; the equality IN LAW (i.i.d. exponential gaps <=> restarted clocks) is cited. *)
