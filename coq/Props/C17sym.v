(* C17 — the tie between the two estimators of the property: on a network whose
   adjacency is symmetric (what percolate_network returns: C17_percolated_network_is_symmetric)
   estimate_SIR_prob_size_from_dir_perc returns ONE number for both outputs, for
   whichever largest strongly connected component c and element u the code picks:
   m/N with m = |c| = the number of nodes reachable from u, and c is exactly the
   connected component of u.  Only statements; proofs in Proofs/PercSymP.v. *)
From EoNV Require Import Prelude Samp Graph Percolation PercolationP PercSymP.

Theorem C17_symmetric_graph_one_answer :
  forall g, wf_graphb g = true -> gnodes g <> [] ->
  (forall u v, In v (gadj g u) -> In u (gadj g v)) ->
  exists L, sccs g = Ok L /\ largest L <> [] /\
  forall k j c u, nth_error (largest L) k = Some c -> nth_error c j = Some u ->
    exists m,
      estimate_from_dir_perc g k j = Ok (frac m (length (gnodes g)), frac m (length (gnodes g))) /\
      card_of (fun x => exists y, In y c /\ fwd g y x) m /\
      card_of (fun x => fwd g u x) m /\
      (forall x, In x c <-> fwd g u x).
Proof. exact (fun g H => estimator_symmetric g (wf_graphb_wfg g H)). Qed.
Print Assumptions C17_symmetric_graph_one_answer.

Theorem C17_reachability_symmetric :
  forall succ : node -> list node, (forall a b, In b (succ a) -> In a (succ b)) ->
  forall x y, reach succ x y -> reach succ y x.
Proof. exact reach_sym. Qed.
Print Assumptions C17_reachability_symmetric.

Theorem C17_card_unique : forall P a b, card_of P a -> card_of P b -> a = b.
Proof. exact card_of_unique. Qed.
Print Assumptions C17_card_unique.

Example C17_sym_ex_hyps :
  wf_graphb sym_ex = true /\ gnodes sym_ex <> [] /\ (forall u v, In v (gadj sym_ex u) -> In u (gadj sym_ex v)).
Proof. exact sym_ex_ok. Qed.
Example C17_sym_ex_value : estimate_from_dir_perc sym_ex 0 0 = Ok (frac 2 3, frac 2 3).
Proof. exact sym_ex_value. Qed.
