(* C07 — equivalent ODE models agree: SIR hierarchy and regular-graph reductions.
   Only statements; proofs are in Proofs/Rhs7P.v.  Every statement is about the
   GENERATED right-hand sides of Gen/Rhs.v (re-emitted from EoN/analytic.py by
   translate/rhs2v.py on every run).

   Full property (kept visible): with uniformly random initial infection on any
   degree distribution EBCM, SIR compact pairwise, SIR super-compact pairwise,
   SIR effective degree and SIR compact effective degree return the same S,I,R;
   the preferential-mixing EBCM (continuous and discrete) coincides with EBCM
   under uncorrelated mixing; on regular graphs heterogeneous pairwise, compact
   pairwise, pair-based and homogeneous pairwise coincide, as do heterogeneous
   mean-field, individual-based and homogeneous mean-field, for SIS and SIR.

   What is proved here: the algebraic core for the pairs whose two sides are
   both translated (vector fields correspond under the change of variables).
   The lift "vector fields correspond => returned curves coincide" is ODE
   uniqueness (Picard-Lindeloef, cited).  Names ending in _partial additionally
   take the chain rule for t |-> psihat'(theta(t)) resp. S_k = N c_k theta^k as
   given (written out as explicit formulas in the statement).  NOT proved,
   validated numerically only by harness/c07.py on the actual entry points:
   effective degree <-> compact effective degree <-> EBCM (multinomial change
   of variables), prefmix_uncorrelated (2-D / dict-based code, not translated),
   the heterogeneous pairwise, pair-based and individual-based reductions (2-D
   and node-level systems, not translated), and the matching of the wrappers' initial conditions. *)
From EoNV Require Import Prelude Vec VecP Aux Rhs Rhs7P.

(* ---- regular graphs: single degree class k, Phi o rhs_big = rhs_small o Phi ---- *)
(* heterogeneous mean-field SIS on the invariant subspace {S_j = I_j = 0, j <> k}
   is homogeneous mean-field SIS with n/N = k/(s+i) *)
Theorem C07_lump_SIS_heterogeneous_meanfield_regular : forall t tau g k s i,
  ~ Qnat k == 0 -> ~ s + i == 0 ->
  let small := dSIS_homogeneous_meanfield [s; i] t (Qnat k / (s + i)) tau g in
  veq (dSIS_heterogeneous_meanfield (unitv k s ++ unitv k i) t (S k) tau g)
      (unitv k (vnth 0 small) ++ unitv k (vnth 1 small)).
Proof. exact lump_SIS_heterogeneous_meanfield_regular. Qed.

(* compact pairwise SIS with Nk = (0,..,0,N), twoM = N k is homogeneous pairwise SIS with n = k *)
Theorem C07_lump_SIS_compact_pairwise_regular : forall t tau g k s SI SS N,
  ~ Qnat k == 0 -> ~ s == 0 ->
  let small := dSIS_homogeneous_pairwise [s; SI; SS] t N (Qnat k) tau g in
  veq (dSIS_compact_pairwise (unitv k s ++ [SI; SS]) t (unitv k N) (N * Qnat k) tau g)
      (unitv k (vnth 0 small) ++ [vnth 1 small; vnth 2 small]).
Proof. exact lump_SIS_compact_pairwise_regular. Qed.

(* compact pairwise SIR is homogeneous pairwise SIR with n = k under
   (S_k, SS, SI, R) |-> (S, I = N - S - R, SI, SS); dI = -dS - dR *)
Theorem C07_lump_SIR_compact_pairwise_regular : forall t tau g k s SS SI R N,
  ~ Qnat k == 0 -> ~ s == 0 ->
  let small := dSIR_homogeneous_pairwise [s; N - s - R; SI; SS] t (Qnat k) tau g in
  let big := dSIR_compact_pairwise (unitv k s ++ [SS; SI; R]) t N tau g in
  veq big (unitv k (vnth 0 small) ++ [vnth 3 small; vnth 2 small; g * (N - s - R)]) /\
  vnth 1 small == - vnth 0 small - g * (N - s - R).
Proof. exact lump_SIR_compact_pairwise_regular. Qed.

(* heterogeneous mean-field SIR (state theta, R_k; S_k = S0_k theta^k) on a single class k against
   homogeneous mean-field SIR (state S, I) with n/N = k/N, S = s0 theta^k, I = N - S - r:
   k s0 theta^(k-1) theta' = dS (the left side is d/dt of s0 theta^k by the chain rule, taken as
   given: _partial), dR_k = gamma I, and dI = -dS - dR *)
Theorem C07_lump_SIR_heterogeneous_meanfield_regular_partial : forall t tau g k theta r s0 N,
  ~ Qnat k == 0 -> ~ N == 0 -> ~ theta == 0 ->
  let S := s0 * qpow theta (Z.of_nat k) in
  let I := N - S - r in
  let small := dSIR_homogeneous_meanfield [S; I] t (Qnat k / N) tau g in
  let big := dSIR_heterogeneous_meanfield ([theta] ++ unitv k r) t (unitv k s0) (unitv k N) tau g in
  Qnat k * s0 * qpow theta (Z.of_nat k - 1) * vnth 0 big == vnth 0 small /\
  veq (slice_from 1 big) (unitv k (g * I)) /\
  vnth 1 small == - vnth 0 small - g * I.
Proof. exact lump_SIR_heterogeneous_meanfield_regular_partial. Qed.

(* ---- SIR hierarchy ---- *)
(* EBCM -> super-compact pairwise, SS = N psihat'(theta) phi_S, SI = N psihat'(theta) phi_I with
   phi_S = phiS0 psihat'(theta)/psihat'(1), phi_R = phiR0 + gamma (1-theta)/tau, phi_I = theta - phi_S - phi_R:
   theta' = -tau phi_I, and the images of the EBCM field (chain rule written out, psDP = psihat'')
   are the components of _dSIR_super_compact_pairwise_ *)
Theorem C07_ebcm_to_super_compact_partial : forall t N tau g phiS0 phiR0 (ps psP psDP : Q -> Q) theta R,
  let a := psP theta in let b := psDP theta in let c := psP 1 in
  let phiS := phiS0 * a / c in
  let phiR := phiR0 + g * (1 - theta) / tau in
  let phiI := theta - phiS - phiR in
  let SS := N * a * phiS in let SI := N * a * phiI in
  let dth := vnth 0 (dEBCM [theta; R] t N tau g ps psP phiS0 phiR0) in
  let dR := vnth 1 (dEBCM [theta; R] t N tau g ps psP phiS0 phiR0) in
  let sc := dSIR_super_compact_pairwise [theta; SS; SI; R] t tau g ps psP psDP N in
  ~ tau == 0 -> ~ N == 0 -> ~ a == 0 -> ~ c == 0 ->
  dth == - tau * phiI /\
  vnth 0 sc == dth /\
  vnth 1 sc == N * (b * dth) * phiS + N * a * (phiS0 * (b * dth) / c) /\
  vnth 2 sc == N * (b * dth) * phiI + N * a * (dth - phiS0 * (b * dth) / c - (- g * dth / tau)) /\
  vnth 3 sc == dR.
Proof. exact ebcm_to_super_compact_partial. Qed.

(* compact pairwise <-> super-compact pairwise: for degree classes with the moments of
   S_k = N c_k theta^k the (SS, SI, R) equations coincide and dS_k = k S_k theta'/theta *)
Theorem C07_compact_to_super_compact_partial : forall t N tau g (ps psP psDP : Q -> Q) Sk SS SI R theta,
  ~ N == 0 -> ~ theta == 0 -> ~ psP theta == 0 ->
  dot (arange (length Sk)) Sk == N * theta * psP theta ->
  dot (vmul (arange (length Sk)) (vsubs (arange (length Sk)) 1)) Sk == N * (theta * theta) * psDP theta ->
  vsum Sk == N * ps theta ->
  let cp := dSIR_compact_pairwise (Sk ++ [SS; SI; R]) t N tau g in
  let sc := dSIR_super_compact_pairwise [theta; SS; SI; R] t tau g ps psP psDP N in
  veq (take_last 3 cp) [vnth 1 sc; vnth 2 sc; vnth 3 sc] /\
  (forall k, (k < length Sk)%nat ->
     nth k (drop_last 3 cp) 0 == Qnat k * nth k Sk 0 * vnth 0 sc / theta).
Proof. exact compact_to_super_compact_partial. Qed.

(* ---- non-vacuity ---- *)
(* a 3-regular class: the lumped right-hand side is not trivially zero *)
Example C07_nonvacuous_lump :
  ~ Qnat 3 == 0 /\ ~ 8 + 2 == 0 /\
  veq (dSIS_heterogeneous_meanfield (unitv 3 8 ++ unitv 3 2) 0 4 (1 # 2) 1)
      ([0; 0; 0; - (2 # 5)] ++ [0; 0; 0; 2 # 5]).
Proof. split; [|split]; try (intro H; vm_compute in H; discriminate). vm_compute. repeat constructor. Qed.
(* the moment hypotheses of C07_compact_to_super_compact_partial are satisfiable:
   psihat(x) = (x + x^2)/2, theta = 1/2, N = 8: S_k = (0, 2, 1) *)
Example C07_nonvacuous_moments :
  let ps := fun x : Q => (x + x * x) / 2 in let psP := fun x : Q => (1 + 2 * x) / 2 in let psDP := fun _ : Q => 1 in
  let Sk := [0; 2; 1] in
  dot (arange (length Sk)) Sk == 8 * (1 # 2) * psP (1 # 2) /\
  dot (vmul (arange (length Sk)) (vsubs (arange (length Sk)) 1)) Sk == 8 * ((1 # 2) * (1 # 2)) * psDP (1 # 2) /\
  vsum Sk == 8 * ps (1 # 2) /\ ~ psP (1 # 2) == 0.
Proof. cbv zeta. repeat split; try (vm_compute; reflexivity). intro H; vm_compute in H; discriminate. Qed.

Print Assumptions C07_lump_SIS_heterogeneous_meanfield_regular.
Print Assumptions C07_lump_SIS_compact_pairwise_regular.
Print Assumptions C07_lump_SIR_compact_pairwise_regular.
Print Assumptions C07_lump_SIR_heterogeneous_meanfield_regular_partial.
Print Assumptions C07_ebcm_to_super_compact_partial.
Print Assumptions C07_compact_to_super_compact_partial.
Print Assumptions C07_nonvacuous_lump.
Print Assumptions C07_nonvacuous_moments.
