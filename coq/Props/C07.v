(* C07 — equivalent ODE models agree: SIR hierarchy and regular-graph reductions.
   Only statements; proofs are in Proofs/Rhs7P.v.  Every statement is about the
   GENERATED right-hand sides of Gen/Rhs.v (re-emitted from EoN/analytic.py by
   translate/rhs2v.py on every run).

   Full property (kept visible): with uniformly random initial infection on any
   degree distribution EBCM, SIR compact pairwise, SIR super-compact pairwise,
   SIR effective degree and SIR compact effective degree return the same S,I,R;
   the preferential-mixing EBCM (continuous and discrete) coincides with EBCM
   under uncorrelated mixing; on regular graphs heterogeneous pairwise, compact
   pairwise, pair-based and homogeneous pairwise coincide, as do heterogeneous
   mean-field, individual-based and homogeneous mean-field, for SIS and SIR.

   What is proved here: the algebraic core for the pairs whose two sides are
   both translated (vector fields correspond under the change of variables).
   The lift "vector fields correspond => returned curves coincide" is ODE
   uniqueness (Picard-Lindeloef, cited).  Names ending in _partial additionally
   take the chain rule for t |-> psihat'(theta(t)) resp. S_k = N c_k theta^k as
   given (written out as explicit formulas in the statement).  NOT proved,
   validated numerically only by harness/c07.py on the actual entry points:
   effective degree <-> compact effective degree <-> EBCM (multinomial change
   of variables), prefmix_uncorrelated (2-D / dict-based code, not translated),
   and the matching of the wrappers' initial conditions.  The heterogeneous
   pairwise, pair-based and individual-based regular-graph reductions are proved
   in the second part of this file over the hand-written models of Model/Rhs2D.v
   -- which the last part (theorems C07_generated_...) proves equal to the definitions
   regenerated from the source on every run (Gen/Rhs2.v, translate/rhs2d2v.py) --
   against the GENERATED homogeneous mean-field / homogeneous pairwise right-hand sides. *)
From EoNV Require Import Prelude Graph Vec VecP Aux Rhs Rhs7P Rhs2D Rhs2DP Rhs2 Rhs2GenP.

(* ---- regular graphs: single degree class k, Phi o rhs_big = rhs_small o Phi ---- *)
(* heterogeneous mean-field SIS on the invariant subspace {S_j = I_j = 0, j <> k}
   is homogeneous mean-field SIS with n/N = k/(s+i) *)
Theorem C07_lump_SIS_heterogeneous_meanfield_regular : forall t tau g k s i,
  ~ Qnat k == 0 -> ~ s + i == 0 ->
  let small := dSIS_homogeneous_meanfield [s; i] t (Qnat k / (s + i)) tau g in
  veq (dSIS_heterogeneous_meanfield (unitv k s ++ unitv k i) t (S k) tau g)
      (unitv k (vnth 0 small) ++ unitv k (vnth 1 small)).
Proof. exact lump_SIS_heterogeneous_meanfield_regular. Qed.

(* compact pairwise SIS with Nk = (0,..,0,N), twoM = N k is homogeneous pairwise SIS with n = k *)
Theorem C07_lump_SIS_compact_pairwise_regular : forall t tau g k s SI SS N,
  ~ Qnat k == 0 -> ~ s == 0 ->
  let small := dSIS_homogeneous_pairwise [s; SI; SS] t N (Qnat k) tau g in
  veq (dSIS_compact_pairwise (unitv k s ++ [SI; SS]) t (unitv k N) (N * Qnat k) tau g)
      (unitv k (vnth 0 small) ++ [vnth 1 small; vnth 2 small]).
Proof. exact lump_SIS_compact_pairwise_regular. Qed.

(* compact pairwise SIR is homogeneous pairwise SIR with n = k under
   (S_k, SS, SI, R) |-> (S, I = N - S - R, SI, SS); dI = -dS - dR *)
Theorem C07_lump_SIR_compact_pairwise_regular : forall t tau g k s SS SI R N,
  ~ Qnat k == 0 -> ~ s == 0 ->
  let small := dSIR_homogeneous_pairwise [s; N - s - R; SI; SS] t (Qnat k) tau g in
  let big := dSIR_compact_pairwise (unitv k s ++ [SS; SI; R]) t N tau g in
  veq big (unitv k (vnth 0 small) ++ [vnth 3 small; vnth 2 small; g * (N - s - R)]) /\
  vnth 1 small == - vnth 0 small - g * (N - s - R).
Proof. exact lump_SIR_compact_pairwise_regular. Qed.

(* heterogeneous mean-field SIR (state theta, R_k; S_k = S0_k theta^k) on a single class k against
   homogeneous mean-field SIR (state S, I) with n/N = k/N, S = s0 theta^k, I = N - S - r:
   k s0 theta^(k-1) theta' = dS (the left side is d/dt of s0 theta^k by the chain rule, taken as
   given: _partial), dR_k = gamma I, and dI = -dS - dR *)
Theorem C07_lump_SIR_heterogeneous_meanfield_regular_partial : forall t tau g k theta r s0 N,
  ~ Qnat k == 0 -> ~ N == 0 -> ~ theta == 0 ->
  let S := s0 * qpow theta (Z.of_nat k) in
  let I := N - S - r in
  let small := dSIR_homogeneous_meanfield [S; I] t (Qnat k / N) tau g in
  let big := dSIR_heterogeneous_meanfield ([theta] ++ unitv k r) t (unitv k s0) (unitv k N) tau g in
  Qnat k * s0 * qpow theta (Z.of_nat k - 1) * vnth 0 big == vnth 0 small /\
  veq (slice_from 1 big) (unitv k (g * I)) /\
  vnth 1 small == - vnth 0 small - g * I.
Proof. exact lump_SIR_heterogeneous_meanfield_regular_partial. Qed.

(* ---- SIR hierarchy ---- *)
(* EBCM -> super-compact pairwise, SS = N psihat'(theta) phi_S, SI = N psihat'(theta) phi_I with
   phi_S = phiS0 psihat'(theta)/psihat'(1), phi_R = phiR0 + gamma (1-theta)/tau, phi_I = theta - phi_S - phi_R:
   theta' = -tau phi_I, and the images of the EBCM field (chain rule written out, psDP = psihat'')
   are the components of _dSIR_super_compact_pairwise_ *)
Theorem C07_ebcm_to_super_compact_partial : forall t N tau g phiS0 phiR0 (ps psP psDP : Q -> Q) theta R,
  let a := psP theta in let b := psDP theta in let c := psP 1 in
  let phiS := phiS0 * a / c in
  let phiR := phiR0 + g * (1 - theta) / tau in
  let phiI := theta - phiS - phiR in
  let SS := N * a * phiS in let SI := N * a * phiI in
  let dth := vnth 0 (dEBCM [theta; R] t N tau g ps psP phiS0 phiR0) in
  let dR := vnth 1 (dEBCM [theta; R] t N tau g ps psP phiS0 phiR0) in
  let sc := dSIR_super_compact_pairwise [theta; SS; SI; R] t tau g ps psP psDP N in
  ~ tau == 0 -> ~ N == 0 -> ~ a == 0 -> ~ c == 0 ->
  dth == - tau * phiI /\
  vnth 0 sc == dth /\
  vnth 1 sc == N * (b * dth) * phiS + N * a * (phiS0 * (b * dth) / c) /\
  vnth 2 sc == N * (b * dth) * phiI + N * a * (dth - phiS0 * (b * dth) / c - (- g * dth / tau)) /\
  vnth 3 sc == dR.
Proof. exact ebcm_to_super_compact_partial. Qed.

(* compact pairwise <-> super-compact pairwise: for degree classes with the moments of
   S_k = N c_k theta^k the (SS, SI, R) equations coincide and dS_k = k S_k theta'/theta *)
Theorem C07_compact_to_super_compact_partial : forall t N tau g (ps psP psDP : Q -> Q) Sk SS SI R theta,
  ~ N == 0 -> ~ theta == 0 -> ~ psP theta == 0 ->
  dot (arange (length Sk)) Sk == N * theta * psP theta ->
  dot (vmul (arange (length Sk)) (vsubs (arange (length Sk)) 1)) Sk == N * (theta * theta) * psDP theta ->
  vsum Sk == N * ps theta ->
  let cp := dSIR_compact_pairwise (Sk ++ [SS; SI; R]) t N tau g in
  let sc := dSIR_super_compact_pairwise [theta; SS; SI; R] t tau g ps psP psDP N in
  veq (take_last 3 cp) [vnth 1 sc; vnth 2 sc; vnth 3 sc] /\
  (forall k, (k < length Sk)%nat ->
     nth k (drop_last 3 cp) 0 == Qnat k * nth k Sk 0 * vnth 0 sc / theta).
Proof. exact compact_to_super_compact_partial. Qed.

(* ---- non-vacuity ---- *)
(* a 3-regular class: the lumped right-hand side is not trivially zero *)
Example C07_nonvacuous_lump :
  ~ Qnat 3 == 0 /\ ~ 8 + 2 == 0 /\
  veq (dSIS_heterogeneous_meanfield (unitv 3 8 ++ unitv 3 2) 0 4 (1 # 2) 1)
      ([0; 0; 0; - (2 # 5)] ++ [0; 0; 0; 2 # 5]).
Proof. split; [|split]; try (intro H; vm_compute in H; discriminate). vm_compute. repeat constructor. Qed.
(* the moment hypotheses of C07_compact_to_super_compact_partial are satisfiable:
   psihat(x) = (x + x^2)/2, theta = 1/2, N = 8: S_k = (0, 2, 1) *)
Example C07_nonvacuous_moments :
  let ps := fun x : Q => (x + x * x) / 2 in let psP := fun x : Q => (1 + 2 * x) / 2 in let psDP := fun _ : Q => 1 in
  let Sk := [0; 2; 1] in
  dot (arange (length Sk)) Sk == 8 * (1 # 2) * psP (1 # 2) /\
  dot (vmul (arange (length Sk)) (vsubs (arange (length Sk)) 1)) Sk == 8 * ((1 # 2) * (1 # 2)) * psDP (1 # 2) /\
  vsum Sk == 8 * ps (1 # 2) /\ ~ psP (1 # 2) == 0.
Proof. cbv zeta. repeat split; try (vm_compute; reflexivity). intro H; vm_compute in H; discriminate. Qed.

Print Assumptions C07_lump_SIS_heterogeneous_meanfield_regular.
Print Assumptions C07_lump_SIS_compact_pairwise_regular.
Print Assumptions C07_lump_SIR_compact_pairwise_regular.
Print Assumptions C07_lump_SIR_heterogeneous_meanfield_regular_partial.
Print Assumptions C07_ebcm_to_super_compact_partial.
Print Assumptions C07_compact_to_super_compact_partial.
Print Assumptions C07_nonvacuous_lump.
Print Assumptions C07_nonvacuous_moments.


(* ====================================================================== *)
(* regular-graph reductions of the node-level and 2-D systems              *)
(* (big systems: Model/Rhs2D.v; small systems: Gen/Rhs.v; proofs: Rhs2DP.v) *)
(* ====================================================================== *)
(* Setting: `ib_regularb G nodelist idx d` / `pb_regularb G nodelist idx d` (boolean, Proofs/Rhs2DP.v): every node of
   nodelist has exactly d neighbours, each with an index inside the state vector; for the pair-based system also:
   adjacency lists duplicate-free, idx inverts nodelist on neighbours, adjacency symmetric (simple undirected
   d-regular graph).  Uniform rates tr == tau, rc == g.  Symmetric subspace: all X_i equal, all Y_i equal, and for
   the pair-based system <X_i Y_j> = p, <X_i X_j> = q on every edge (`pbSIR_uniform`, `pbSIS_uniform`).
   Each theorem has two parts: (1) the big right-hand side at a symmetric state is again symmetric (the subspace is
   invariant), with the stated common values; (2) Phi o rhs_big = rhs_small o Phi, Phi the aggregation map that the
   wrappers' outputs use (S = sum X_i, I = sum Y_i, [SI] = sum_i sum_{j ~ i} <X_i Y_j>, [SS] likewise), n = d.
   The lift to curves is ODE uniqueness (cited). *)

(* (a) individual-based  ->  homogeneous mean-field, n_over_N = d / N *)
Theorem C07_lump_SIS_individual_based_regular : forall G nodelist idx tr rc d tau g y Y t,
  ib_regularb G nodelist idx d = true -> (forall u v, tr u v == tau) -> (forall u, rc u == g) ->
  (forall k, (k < nN nodelist)%nat -> vnth k Y == y) -> ~ Qnat (nN nodelist) == 0 ->
  let D := dSIS_individual_based G nodelist idx tr rc Y t in
  let small := dSIS_homogeneous_meanfield [sumn (nN nodelist) (fun k => 1 - vnth k Y); sumn (nN nodelist) (fun k => vnth k Y)]
                                          t (Qnat d / Qnat (nN nodelist)) tau g in
  (forall k, (k < nN nodelist)%nat -> vnth k D == tau * Qnat d * (1 - y) * y - g * y) /\
  veq [sumn (nN nodelist) (fun k => - vnth k D); sumn (nN nodelist) (fun k => vnth k D)] small.
Proof. exact ibSIS_lump. Qed.
Theorem C07_lump_SIR_individual_based_regular : forall G nodelist idx tr rc d tau g x y V t,
  ib_regularb G nodelist idx d = true -> (forall u v, tr u v == tau) -> (forall u, rc u == g) ->
  (forall k, (k < nN nodelist)%nat -> vnth k V == x /\ vnth (nN nodelist + k) V == y) -> ~ Qnat (nN nodelist) == 0 ->
  let D := dSIR_individual_based G nodelist idx tr rc V t in
  let small := dSIR_homogeneous_meanfield [sumn (nN nodelist) (fun k => vnth k V); sumn (nN nodelist) (fun k => vnth (nN nodelist + k) V)]
                                          t (Qnat d / Qnat (nN nodelist)) tau g in
  (forall k, (k < nN nodelist)%nat ->
     vnth k D == - (tau * Qnat d * x * y) /\ vnth (nN nodelist + k) D == tau * Qnat d * x * y - g * y) /\
  veq [sumn (nN nodelist) (fun k => vnth k D); sumn (nN nodelist) (fun k => vnth (nN nodelist + k) D)] small.
Proof. exact ibSIR_lump. Qed.

(* (b) pair-based  ->  homogeneous pairwise, n = d.  x <> 0 (resp. 1 - y <> 0): the code replaces 1/X_i by 0 at X_i = 0 *)
Theorem C07_lump_SIR_pair_based_regular : forall G nodelist idx tr rc d tau g x y p q V t,
  pb_regularb G nodelist idx d = true -> (forall u v, tr u v == tau) -> (forall u, rc u == g) ->
  pbSIR_uniform G nodelist V x y p q -> ~ x == 0 -> ~ Qnat (nN nodelist) == 0 -> ~ Qnat d == 0 ->
  let D := dSIR_pair_based G nodelist idx tr rc V t in
  let Phi := fun W => [sumn (nN nodelist) (prX W); sumn (nN nodelist) (prY nodelist W);
                       pb_pairs G nodelist idx (prXY nodelist W); pb_pairs G nodelist idx (prXX nodelist W)] in
  pbSIR_uniform G nodelist D (- (tau * Qnat d * p)) (tau * Qnat d * p - g * y)
                (- (tau + g) * p + (Qnat d - 1) * tau * (q - p) * p * inv0 x) (- (2 * (Qnat d - 1) * tau * p * q * inv0 x)) /\
  veq (Phi D) (dSIR_homogeneous_pairwise (Phi V) t (Qnat d) tau g).
Proof. exact pbSIR_lump. Qed.
(* SIS: the homogeneous pairwise state is (S, SI, SS) with S = sum (1 - Y_i), so dPhi (D) = (- sum dY_i, [dXY], [dXX]) *)
Theorem C07_lump_SIS_pair_based_regular : forall G nodelist idx tr rc d tau g y p q V t,
  pb_regularb G nodelist idx d = true -> (forall u v, tr u v == tau) -> (forall u, rc u == g) ->
  pbSIS_uniform G nodelist V y p q -> ~ 1 - y == 0 -> ~ Qnat (nN nodelist) == 0 -> ~ Qnat d == 0 ->
  let D := dSIS_pair_based G nodelist idx tr rc V t in
  pbSIS_uniform G nodelist D (tau * Qnat d * p - g * y)
                (- (tau + g) * p + g * (1 - 2 * p - q) + (Qnat d - 1) * tau * (q - p) * p * inv0 (1 - y))
                (2 * g * p - 2 * (Qnat d - 1) * tau * p * q * inv0 (1 - y)) /\
  veq [- sumn (nN nodelist) (psY D); pb_pairs G nodelist idx (psXY nodelist D); pb_pairs G nodelist idx (psXX nodelist D)]
      (dSIS_homogeneous_pairwise [sumn (nN nodelist) (psX V); pb_pairs G nodelist idx (psXY nodelist V); pb_pairs G nodelist idx (psXX nodelist V)]
                                 t (Qnat (nN nodelist)) (Qnat d) tau g).
Proof. exact pbSIS_lump. Qed.

(* (c) heterogeneous pairwise with the single degree class Ks = [k] (what *_heterogeneous_pairwise_from_graph builds on
   a k-regular graph)  =  homogeneous pairwise with n = k, up to the order of the coordinates; together with
   C07_lump_SIS/SIR_compact_pairwise_regular above this also identifies it with compact pairwise on that class.
   k <> 0, S <> 0: no guard (kxSk[kxSk==0] = 1, tmpSk[tmpSk==0] = 1) fires. *)
Theorem C07_lump_SIS_heterogeneous_pairwise_regular : forall S SS SI N k tau gamma t,
  ~ k == 0 -> ~ S == 0 ->
  let small := dSIS_homogeneous_pairwise [S; SI; SS] t N k tau gamma in
  veq (dSIS_heterogeneous_pairwise [S; SS; SI] [N] [N * k] tau gamma [k] t) [vnth 0 small; vnth 2 small; vnth 1 small].
Proof. exact hpSIS_single_class. Qed.
Theorem C07_lump_SIR_heterogeneous_pairwise_regular : forall S I SS SI k tau gamma t,
  ~ k == 0 -> ~ S == 0 ->
  let small := dSIR_homogeneous_pairwise [S; I; SI; SS] t k tau gamma in
  veq (dSIR_heterogeneous_pairwise [S; I; SS; SI] tau gamma [k] t) [vnth 0 small; vnth 1 small; vnth 3 small; vnth 2 small].
Proof. exact hpSIR_single_class. Qed.

(* (c') the same single class against compact pairwise on the classes 0..k (only class k occupied): composition of (c) with
   C07_lump_SIS/SIR_compact_pairwise_regular.  SIR: compact pairwise carries R, heterogeneous pairwise I; with I = N - S - R
   the R-component is -(dS + dI) of the heterogeneous system *)
Theorem C07_lump_SIS_heterogeneous_to_compact_pairwise_regular : forall kk s SI SS N t tau g,
  ~ Qnat kk == 0 -> ~ s == 0 ->
  let hp := dSIS_heterogeneous_pairwise [s; SS; SI] [N] [N * Qnat kk] tau g [Qnat kk] t in
  veq (dSIS_compact_pairwise (unitv kk s ++ [SI; SS]) t (unitv kk N) (N * Qnat kk) tau g)
      (unitv kk (vnth 0 hp) ++ [vnth 2 hp; vnth 1 hp]).
Proof. exact hp_to_compact_SIS. Qed.
Theorem C07_lump_SIR_heterogeneous_to_compact_pairwise_regular : forall kk s SS SI R N t tau g,
  ~ Qnat kk == 0 -> ~ s == 0 ->
  let hp := dSIR_heterogeneous_pairwise [s; N - s - R; SS; SI] tau g [Qnat kk] t in
  veq (dSIR_compact_pairwise (unitv kk s ++ [SS; SI; R]) t N tau g)
      (unitv kk (vnth 0 hp) ++ [vnth 2 hp; vnth 3 hp; - (vnth 0 hp + vnth 1 hp)]).
Proof. exact hp_to_compact_SIR. Qed.

(* ---- non-vacuity: the triangle is 2-regular, carries symmetric states, and the field there is not zero ---- *)
Example C07_nonvacuous_regular_graph :
  pb_regularb tri_graph tri_nodes tri_idx 2 = true /\ ib_regularb tri_graph tri_nodes tri_idx 2 = true /\
  pbSIR_uniform tri_graph tri_nodes (tri_V (1 # 2) (1 # 4) (1 # 8) (1 # 4)) (1 # 2) (1 # 4) (1 # 8) (1 # 4) /\
  pbSIS_uniform tri_graph tri_nodes (tri_W (1 # 4) (1 # 8) (1 # 2)) (1 # 4) (1 # 8) (1 # 2) /\
  ~ vnth 0 (dSIR_pair_based tri_graph tri_nodes tri_idx (fun _ _ => 1) (fun _ => 1) (tri_V (1 # 2) (1 # 4) (1 # 8) (1 # 4)) 0) == 0 /\
  ~ vnth 8 (dSIR_pair_based tri_graph tri_nodes tri_idx (fun _ _ => 1) (fun _ => 1) (tri_V (1 # 2) (1 # 4) (1 # 8) (1 # 4)) 0) == 0.
Proof.
  split; [apply tri_regular|]. split; [apply tri_regular|]. split; [apply tri_uniform_SIR|]. split; [apply tri_uniform_SIS|].
  split; intro H; vm_compute in H; discriminate.
Qed.

Print Assumptions C07_lump_SIS_individual_based_regular.
Print Assumptions C07_lump_SIR_individual_based_regular.
Print Assumptions C07_lump_SIR_pair_based_regular.
Print Assumptions C07_lump_SIS_pair_based_regular.
Print Assumptions C07_lump_SIS_heterogeneous_pairwise_regular.
Print Assumptions C07_lump_SIR_heterogeneous_pairwise_regular.
Print Assumptions C07_lump_SIS_heterogeneous_to_compact_pairwise_regular.
Print Assumptions C07_lump_SIR_heterogeneous_to_compact_pairwise_regular.
Print Assumptions C07_nonvacuous_regular_graph.

(* ====================================================================== *)
(* the hand-written models ARE the code: definitions generated from the    *)
(* source on every run (Gen/Rhs2.v, translate/rhs2d2v.py, fail-closed)     *)
(* equal the models of Model/Rhs2D.v that the theorems above are about     *)
(* ====================================================================== *)
(* Domain: shapes consistent (where numpy would raise nothing is claimed).  Pair based: `pb_wfb G nodelist idx`
   (boolean) = G.order() = len(nodelist), index_of_node[nodelist[i]] = i, adjacency lists duplicate-free and inside
   nodelist -- what every caller in analytic.py establishes (index_of_node = {node: i for i, node in
   enumerate(nodelist)} over a simple graph); under it the code's accumulation `dA[index_of_node[u], ..] += ..`
   over nested neighbour loops writes every cell from exactly one (u, v) and equals the closed form of the model. *)
Theorem C07_generated_SIS_individual_based : forall Y t G nodelist idx tr rc,
  length Y = length nodelist ->
  veq (g_dSIS_individual_based Y t G nodelist idx tr rc) (dSIS_individual_based G nodelist idx tr rc Y t).
Proof. exact gen_dSIS_individual_based. Qed.
Theorem C07_generated_SIR_individual_based : forall V t G nodelist idx tr rc,
  length V = (2 * length nodelist)%nat ->
  veq (g_dSIR_individual_based V t G nodelist idx tr rc) (dSIR_individual_based G nodelist idx tr rc V t).
Proof. exact gen_dSIR_individual_based. Qed.
Theorem C07_generated_SIS_pair_based : forall G nodelist idx tr rc, pb_wfb G nodelist idx = true -> forall V t,
  veq (g_dSIS_pair_based V t G nodelist idx tr rc) (dSIS_pair_based G nodelist idx tr rc V t).
Proof. exact gen_dSIS_pair_based. Qed.
Theorem C07_generated_SIR_pair_based : forall G nodelist idx tr rc, pb_wfb G nodelist idx = true -> forall V t,
  veq (g_dSIR_pair_based V t G nodelist idx tr rc) (dSIR_pair_based G nodelist idx tr rc V t).
Proof. exact gen_dSIR_pair_based. Qed.
Theorem C07_generated_SIS_heterogeneous_pairwise : forall X t Nk NkNl tau gamma Ks,
  length Nk = length Ks ->
  veq (g_dSIS_heterogeneous_pairwise X t Nk NkNl tau gamma Ks) (dSIS_heterogeneous_pairwise X Nk NkNl tau gamma Ks t).
Proof. exact gen_dSIS_heterogeneous_pairwise. Qed.
Theorem C07_generated_SIR_heterogeneous_pairwise : forall X t tau gamma Nk Ks,
  veq (g_dSIR_heterogeneous_pairwise X t tau gamma Nk Ks) (dSIR_heterogeneous_pairwise X tau gamma Ks t).
Proof. exact gen_dSIR_heterogeneous_pairwise. Qed.
(* non-vacuity of pb_wfb: the triangle with nodelist = its nodes and idx the position *)
Example C07_generated_wf_nonvacuous : pb_wfb tri_graph tri_nodes tri_idx = true.
Proof. vm_compute. reflexivity. Qed.
Print Assumptions C07_generated_SIS_individual_based.
Print Assumptions C07_generated_SIR_individual_based.
Print Assumptions C07_generated_SIS_pair_based.
Print Assumptions C07_generated_SIR_pair_based.
Print Assumptions C07_generated_SIS_heterogeneous_pairwise.
Print Assumptions C07_generated_SIR_heterogeneous_pairwise.
Print Assumptions C07_generated_wf_nonvacuous.
