(* C18 support -- which public simulators of EoN/simulation.py can reach a loop whose
   visiting order is the hash order of a set.  Computed over Gen/HashIter.v, which
   translate/hashiter2v.py regenerates from the CURRENT source on every run; the
   classification is syntactic and conservative (rules: header of Gen/HashIter.v).
   These theorems state what the table contains now; a change of the source that adds,
   removes or moves a set-ordered loop makes this file fail to compile. *)
From Coq Require Import String List Bool Arith.
Require Import EoNV.Model.HashIter EoNV.Gen.HashIter.
Import ListNotations.
Open Scope string_scope.

(* exactly these public entry points reach a SetOrder loop *)
Theorem entries_with_set_order_loops :
  entries_with_set_iter hash_iter_table =
  [ "discrete_SIR"; "basic_discrete_SIR"; "basic_discrete_SIS";
    "percolation_based_discrete_SIR"; "get_infected_nodes";
    "estimate_directed_SIR_prob_size"; "estimate_SIR_prob_size_from_dir_perc";
    "estimate_nonMarkov_SIR_prob_size_with_timing"; "estimate_nonMarkov_SIR_prob_size" ].
Proof. vm_compute. reflexivity. Qed.

(* ... at these places: the generation loops of the discrete simulators iterate over
   the sets `infecteds` / `new_infecteds`; the component searches iterate over sets of
   source / target nodes; get_infected_nodes removes a set of recovered nodes *)
(* Places are given as (function, how many such loops it has): source line numbers would move with every edit of
   simulation.py above the loop and make this file fail on a harmless change. *)
Theorem set_order_loop_locations :
  map (fun e => (e, map fst (set_iter_where hash_iter_table e))) (entries_with_set_iter hash_iter_table) =
  [ ("discrete_SIR",
       ["discrete_SIR"; "discrete_SIR"; "discrete_SIR"; "discrete_SIR"]);
    ("basic_discrete_SIR",
       ["discrete_SIR"; "discrete_SIR"; "discrete_SIR"; "discrete_SIR"]);
    ("basic_discrete_SIS",
       ["basic_discrete_SIS"; "basic_discrete_SIS"; "basic_discrete_SIS"]);
    ("percolation_based_discrete_SIR",
       ["discrete_SIR"; "discrete_SIR"; "discrete_SIR"; "discrete_SIR"]);
    ("get_infected_nodes", ["_out_component_"; "get_infected_nodes"]);
    ("estimate_directed_SIR_prob_size", ["_out_component_"; "_in_component_"]);
    ("estimate_SIR_prob_size_from_dir_perc", ["_out_component_"; "_in_component_"]);
    ("estimate_nonMarkov_SIR_prob_size_with_timing", ["_out_component_"; "_in_component_"]);
    ("estimate_nonMarkov_SIR_prob_size", ["_out_component_"; "_in_component_"]) ].
Proof. vm_compute. reflexivity. Qed.

(* the continuous-time simulators reach no SetOrder loop: their loops run over graph
   adjacency, dict views, parameters and lists *)
Theorem event_driven_and_gillespie_have_no_set_order_loop :
  forallb (fun e => negb (has_set_iter e))
    [ "fast_SIR"; "fast_nonMarkov_SIR"; "fast_SIS"; "fast_nonMarkov_SIS";
      "Gillespie_SIR"; "Gillespie_SIS"; "Gillespie_complex_contagion";
      "Gillespie_simple_contagion"; "Gillespie_Arbitrary" ] = true.
Proof. vm_compute. reflexivity. Qed.

(* ... up to the loops the translator could not classify, which are exactly these
   (each iterates over a value produced by a user-supplied function); given by the function that contains the loop,
   not by the text of the iterated expression (a renamed local would otherwise break this file) *)
Theorem unclassified_loops :
  filter (fun p => negb (match snd p with [] => true | _ => false end))
         (map (fun e => (e, map (fun t => fst (fst t)) (other_iter_where hash_iter_table e))) (entries hash_iter_table)) =
  [ ("fast_SIR", ["_process_trans_SIR_"]);
    ("fast_nonMarkov_SIR", ["_process_trans_SIR_"]);
    ("fast_nonMarkov_SIS", ["_process_trans_SIS_nonMarkov_"]);
    ("Gillespie_complex_contagion", ["Gillespie_complex_contagion"]);
    ("Gillespie_Arbitrary", ["Gillespie_simple_contagion"]);
    ("Gillespie_simple_contagion", ["Gillespie_simple_contagion"]) ].
Proof. vm_compute. reflexivity. Qed.

(* non-vacuity: the table covers the 23 public entry points, every one of them has at
   least one loop, every kind except OtherOrder-only occurs, and the event-driven
   simulators do reach their handlers (so "no SetOrder loop" is not for lack of loops) *)
Example hash_iter_table_nonvacuous :
  length hash_iter_table = 23 /\
  forallb (fun e => Nat.leb 1 (length (sites_of_entry hash_iter_table e))) (entries hash_iter_table) = true /\
  existsb (fun s => String.eqb (site_fn s) "_process_trans_SIR_") (sites_of_entry hash_iter_table "fast_SIR") = true /\
  existsb (fun s => String.eqb (site_fn s) "_ListDict_.update_total_weight") (sites_of_entry hash_iter_table "Gillespie_SIR") = true /\
  Nat.leb 3 (length (kind_sites_in DictOrder hash_iter_table "fast_SIR")) = true /\
  Nat.leb 3 (length (kind_sites_in GraphOrder hash_iter_table "Gillespie_SIR")) = true /\
  Nat.leb 1 (length (kind_sites_in ParamOrder hash_iter_table "Gillespie_SIS")) = true /\
  Nat.leb 1 (length (kind_sites_in ListOrder hash_iter_table "Gillespie_SIS")) = true.
Proof. vm_compute. repeat split; reflexivity. Qed.

Print Assumptions entries_with_set_order_loops.
Print Assumptions set_order_loop_locations.
Print Assumptions event_driven_and_gillespie_have_no_set_order_loop.
Print Assumptions unclassified_loops.
Print Assumptions hash_iter_table_nonvacuous.
