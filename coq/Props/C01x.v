(* C01x — the law-level clause of C01 (and of C11 for fast_SIR): what is proved
   about "competing exponentials => CTMC law", and what stays cited.
   Statements only; proofs in Proofs/LawLiftA.v, LawLiftB.v, LawLiftC.v.

   HONEST SCOPE.  The sampler monad's [law] is a finite discrete semantics; a
   continuous-time statement cannot be made in it.  What is here:

   (1) PATHWISE, general (theorem): with tmax = inf, the set of nodes that
       fast_nonMarkov_SIR — hence fast_SIR, for the delays/durations it drew — ever
       infects is the out-component of I0 in the directed percolation graph
       {u -> v | delay(u,v) <= duration(u)} minus R0, i.e. literally the list
       get_infected_nodes computes from the same rules; everyone in it ends R (or
       I with an infinite duration).  Side condition [no_inf_tie]: no arc with
       delay = duration = inf (the builder keeps it, the simulation never fires
       it; see [inf_tie_is_a_real_exception]).
   (2) DISCRETE SKELETON of the law (definitions in LawLiftB.v): the embedded jump
       chain of Gillespie_SIR ([gil_chain] = the extracted model with every
       expovariate short-circuited) against directed percolation whose arcs out of
       each node are drawn by the race "recovery clock vs. transmission clocks"
       ([race]; arcs of different nodes independent, arcs of one node dependent
       through the shared duration).
       * symbolic rates, single edge (theorems): both give tau/(tau+gamma);
       * FINITE CHECKS by evaluation (Examples named *_finite_check): on the path
         of 2 and 3 nodes, the triangle, the star with 3 leaves (from the centre
         and from a leaf), a weighted triangle, and a path with an initially
         recovered node, for two rate pairs, the two final-size laws are equal as
         rational numbers, for every size k.  These are checks on those inputs,
         not a theorem about all graphs.
   (3) CITED, not proved: that the race has the law of {v | Exp(tau w_uv) <=
       Exp(gamma w_u)} for independent exponential draws (memorylessness /
       competing exponentials, continuous), and hence that fast_SIR's final-size
       and state-at-T laws are the master-equation solution (KMS section 6.3). *)
From EoNV Require Import Prelude Samp Graph EventSIR LawLiftA.
From EoNV Require Import ListDict Gillespie GillespieLaw GillespieP LawLiftB LawLiftC.

(* ---------------- (1) ---------------- *)
Theorem esir_final_set_is_out_component :
  forall g delay dur i0 r0, no_inf_tie g delay dur = true ->
  forall tb tmin fuel,
  esir_okb g delay dur i0 r0 tmin None = true -> (esir_fuel g i0 <= fuel)%nat ->
  exists sF, esir_run tb g delay dur i0 r0 tmin None fuel = Ok sF /\
    (forall v, ~ In v r0 -> (EventSIR.stat sF v <> stS <-> In v (get_infected_det g delay dur i0 r0))) /\
    (forall v, In v r0 -> EventSIR.stat sF v = stR) /\
    (forall v, In v (get_infected_det g delay dur i0 r0) -> ~ In v r0 ->
       EventSIR.stat sF v = stR \/ (EventSIR.stat sF v = stI /\ dur v = None)).
Proof. exact LawLiftA.esir_final_out_component. Qed.
Print Assumptions esir_final_set_is_out_component.

Definition tri3 : graph :=
  mkGraph [0;1;2]%N (fun u => if N.eqb u 0 then [1;2]%N else if N.eqb u 1 then [0;2]%N else [0;1]%N)
          (fun u => if N.eqb u 0 then [1;2]%N else if N.eqb u 1 then [0;2]%N else [0;1]%N)
          false (fun _ _ => 1) (fun _ => 1) false false.
(* delays 0->1 = 1, 0->2 = 3 (> duration 2: dropped), 1->2 = inf (dropped), others 1; durations 2 *)
Definition d3 (u v : node) : xtime :=
  if N.eqb u 0 && N.eqb v 2 then Some 3 else if N.eqb u 1 && N.eqb v 2 then None else Some 1.
Definition r3 (u : node) : xtime := Some 2.
Example out_component_nonvacuous :
  esir_okb tri3 d3 r3 [0%N] [] (1#2) None = true /\ no_inf_tie tri3 d3 r3 = true /\
  get_infected_det tri3 d3 r3 [0%N] [] = [0%N; 1%N] /\
  match esir_run fifo tri3 d3 r3 [0%N] [] (1#2) None (esir_fuel tri3 [0%N]) with
  | Ok s => (EventSIR.stat s 0%N, EventSIR.stat s 1%N, EventSIR.stat s 2%N) = (stR, stR, stS)
  | Err _ => False
  end.
Proof. repeat (apply conj); vm_compute; reflexivity. Qed.
Print Assumptions out_component_nonvacuous.

(* the side condition is needed: delay = duration = inf on 0 -> 1 (Markovian rules: tau = 0 and
   gamma = 0).  The builder keeps the arc (inf <= inf), so get_infected_nodes reports node 1;
   the simulation never infects it. *)
Example inf_tie_is_a_real_exception :
  let dinf : node -> node -> xtime := fun _ _ => None in
  let rinf : node -> xtime := fun _ => None in
  esir_okb tri3 dinf rinf [0%N] [] 0 None = true /\ no_inf_tie tri3 dinf rinf = false /\
  get_infected_det tri3 dinf rinf [0%N] [] = [0%N; 1%N; 2%N] /\
  match esir_run fifo tri3 dinf rinf [0%N] [] 0 None (esir_fuel tri3 [0%N]) with
  | Ok s => (EventSIR.stat s 0%N, EventSIR.stat s 1%N, EventSIR.stat s 2%N) = (stI, stS, stS)
  | Err _ => False
  end.
Proof. cbv zeta. repeat (apply conj); vm_compute; reflexivity. Qed.
Print Assumptions inf_tie_is_a_real_exception.

(* ---------------- (2) symbolic rates, single edge ---------------- *)
Theorem race_single_edge : forall g tau gamma u v,
  0 <= rrate g gamma u -> 0 <= trate g tau u v -> 0 < rrate g gamma u + trate g tau u v ->
  prob (fun K => mem v K) (law (race g tau gamma 1 u [v] [])) ==
  trate g tau u v / (rrate g gamma u + trate g tau u v).
Proof. exact LawLiftC.race_single. Qed.
Print Assumptions race_single_edge.

Theorem gillespie_single_edge_first_jump : forall tau gamma, 0 <= tau -> 0 <= gamma -> 0 < gamma + tau ->
  exists s0 : gst,
    (exists I L, init_sets path2 (st_init [0%N] []) [0%N] = Ok (I, L) /\
                 s0 = mkG (st_init [0%N] []) I L [(0, [2 - 1 - 0; 1; 0]%Z)] [] []) /\
    let trec := total_rec gamma s0 in
    let ttot := trec + total_tr tau s0 in
    ttot == gamma + tau /\
    prob (is_tr (kpair 0%N 1%N)) (law (jump_lbl trec ttot s0)) == tau / (gamma + tau) /\
    prob (is_rec (knode 0%N)) (law (jump_lbl trec ttot s0)) == gamma / (gamma + tau).
Proof. exact LawLiftC.gil_single_edge. Qed.
Print Assumptions gillespie_single_edge_first_jump.

(* ---------------- (2) FINITE CHECKS ---------------- *)
(* [laws_agree g tau gamma i0 r0] = for every k <= N, P(Gillespie jump chain ends with |r0| + k
   recovered) = P(out-component of i0 in the raced percolation graph has k nodes), and the
   percolation masses sum to 1.  Each line is one evaluation. *)
Example final_size_laws_agree_finite_check :
  laws_agree path2 2 3 [0%N] [] = true /\
  laws_agree path3 2 3 [0%N] [] = true /\ laws_agree path3 2 3 [1%N] [] = true /\
  laws_agree tri 2 3 [0%N] [] = true /\
  laws_agree star4 2 3 [0%N] [] = true /\ laws_agree star4 2 3 [1%N] [] = true /\
  laws_agree wtri 2 3 [0%N] [] = true /\ laws_agree wtri 2 3 [1%N] [] = true /\
  laws_agree path3 2 3 [0%N] [2%N] = true /\ laws_agree tri 2 3 [0%N; 1%N] [] = true.
Proof. repeat (apply conj); vm_compute; reflexivity. Qed.
Print Assumptions final_size_laws_agree_finite_check.

Example final_size_laws_agree_finite_check_2 :
  laws_agree path2 (1#2) (1#3) [0%N] [] = true /\
  laws_agree path3 (1#2) (1#3) [1%N] [] = true /\
  laws_agree tri (1#2) (1#3) [0%N] [] = true /\
  laws_agree star4 (1#2) (1#3) [0%N] [] = true /\
  laws_agree wtri (1#2) (1#3) [2%N] [] = true /\
  laws_agree tri 0 1 [0%N] [] = true.
Proof. repeat (apply conj); vm_compute; reflexivity. Qed.
Print Assumptions final_size_laws_agree_finite_check_2.

(* the values themselves, tau = 2, gamma = 3: triangle from one node *)
Example triangle_final_size_law_finite_check :
  map (fun k => Qred (gil_final_prob tri 2 3 [0%N] [] k)) (seq 0 4) = [0; 3#7; 36#175; 64#175] /\
  map (fun k => Qred (perc_final_prob tri 2 3 [0%N] [] k)) (seq 0 4) = [0; 3#7; 36#175; 64#175].
Proof. apply conj; vm_compute; reflexivity. Qed.
Print Assumptions triangle_final_size_law_finite_check.

(* the arcs out of one node are NOT independent: on the star from its centre, keeping each arc
   independently with probability tau/(tau+gamma) = 2/5 would infect all three leaves with
   probability 8/125; the chain (and the race) give 16/105 *)
Example independent_arcs_would_be_wrong_finite_check :
  Qred (gil_final_prob star4 2 3 [0%N] [] 4) = 16#105 /\
  Qred (perc_final_prob star4 2 3 [0%N] [] 4) = 16#105 /\
  ~ (16#105 == (2#5) * (2#5) * (2#5)).
Proof. apply conj; [vm_compute; reflexivity|]. apply conj; [vm_compute; reflexivity|]. intro H. vm_compute in H. discriminate H. Qed.
Print Assumptions independent_arcs_would_be_wrong_finite_check.

(* the skeleton does not depend on the constant that answers expovariate (no branch of
   Gillespie_SIR with tmax = inf looks at a time): answering 7/3 instead of 1 gives the same
   final-size law on the triangle *)
Example skeleton_independent_of_the_answer_finite_check :
  map (fun k => Qred (prob (fun o => Z.eqb (final_R o) (Z.of_nat k))
                       (law (skel (7#3) (gillespie tri SIR 2 3 (Some [0%N]) (Some []) None 0 None false 7))))) (seq 0 4)
  = [0; 3#7; 36#175; 64#175].
Proof. vm_compute. reflexivity. Qed.
Print Assumptions skeleton_independent_of_the_answer_finite_check.
