(* C18 — reproducibility from the seeds, for the event-driven SIS simulators fast_SIS and
   fast_nonMarkov_SIS.  Model: Model/EventSIS.v (the extracted one).  Proofs:
   Proofs/C18sFlag.v, C18sCalls.v (on top of Proofs/C18xSim.v: [simrelx]).

   Reading guide.  [exec m ds []] runs a sampler program on the scripted draws [ds] and
   returns (result, the list of calls made to the random source with their arguments).
   [sis_flag_rel g tmin r1 r2] (r1 with full data, r2 plain): both are the same failure, or
   r1 = Ok o1, r2 = Ok o2 with o1 = finish .. true n l and o2 = finish .. false n l for THE
   SAME logs l ([C18s_flag_relation_read]: same rows, o2 has no full-data object, o1 has
   one).  Unlike the SIR simulators neither mode can fail where the other returns.
   fast_nonMarkov_SIS's rules are functions [dur v k], [delays v w k] of the node and its
   infection ordinal k; [rule_calls txs] lists one call (target, ordinal) per entry of a
   transmission list, in its order. *)
From Coq Require Import String.
From EoNV Require Import Prelude Samp Graph EventSIS FlagIndep C18xSim C18sFlag C18sCalls C18sOrder.
From Coq Require Import Permutation.
Require EoNV.Model.HashIter EoNV.Gen.HashIter.

(* --- fast_SIS: for EVERY draw script the two modes make the same calls to the random source
   with the same arguments (the whole trace is equal) and return [finish] of the same logs *)
Theorem C18s_fast_SIS_full_data_flag_independent : forall g tau gamma tmax tmin i0 rho fuel ds,
  let r1 := exec (fast_SIS g tau gamma tmax i0 rho tmin true fuel) ds [] in
  let r2 := exec (fast_SIS g tau gamma tmax i0 rho tmin false fuel) ds [] in
  snd r1 = snd r2 /\ sis_flag_rel g tmin (fst r1) (fst r2).
Proof. exact fast_SIS_flag_indep. Qed.

(* ... read at the outputs: same trace; the modes fail together with the same error or
   return together with the same rows *)
Theorem C18s_fast_SIS_modes_agree : forall g tau gamma tmax tmin i0 rho fuel ds,
  let r1 := exec (fast_SIS g tau gamma tmax i0 rho tmin true fuel) ds [] in
  let r2 := exec (fast_SIS g tau gamma tmax i0 rho tmin false fuel) ds [] in
  snd r1 = snd r2 /\
  (forall e, fst r1 = Err e <-> fst r2 = Err e) /\
  (forall o2, fst r2 = Ok o2 -> exists o1, fst r1 = Ok o1 /\ so_rows o1 = so_rows o2 /\ so_full o2 = None /\ so_full o1 <> None) /\
  (forall o1, fst r1 = Ok o1 -> exists o2, fst r2 = Ok o2 /\ so_rows o1 = so_rows o2).
Proof. exact fast_SIS_flag_outputs. Qed.

(* determinism + flag independence in one statement: trace and arrays are functions of the
   inputs and the draw script alone *)
Theorem C18s_fast_SIS_reproducible : forall g tau gamma tmax i0 rho tmin fuel ds full1 full2,
  let r1 := exec (fast_SIS g tau gamma tmax i0 rho tmin full1 fuel) ds [] in
  let r2 := exec (fast_SIS g tau gamma tmax i0 rho tmin full2 fuel) ds [] in
  snd r1 = snd r2 /\ rows_res (fst r1) = rows_res (fst r2).
Proof. exact fast_SIS_reproducible. Qed.

(* --- fast_nonMarkov_SIS *)
Theorem C18s_fast_nonMarkov_SIS_full_data_flag_independent : forall g dur delays tmax tmin i0 rho fuel ds,
  let r1 := exec (fast_nonMarkov_SIS g dur delays tmax i0 rho tmin true fuel) ds [] in
  let r2 := exec (fast_nonMarkov_SIS g dur delays tmax i0 rho tmin false fuel) ds [] in
  snd r1 = snd r2 /\ sis_flag_rel g tmin (fst r1) (fst r2).
Proof. exact fast_nonMarkov_SIS_flag_indep. Qed.

Theorem C18s_fast_nonMarkov_SIS_reproducible : forall g dur delays tmax i0 rho tmin fuel ds full1 full2,
  let r1 := exec (fast_nonMarkov_SIS g dur delays tmax i0 rho tmin full1 fuel) ds [] in
  let r2 := exec (fast_nonMarkov_SIS g dur delays tmax i0 rho tmin full2 fuel) ds [] in
  snd r1 = snd r2 /\ rows_res (fst r1) = rows_res (fst r2).
Proof. exact fast_nonMarkov_SIS_reproducible. Qed.

(* the event loop is ONE computation shared by the two modes: the flag only selects what
   [finish] wraps around its final logs *)
Theorem C18s_fast_nonMarkov_SIS_event_loop_ignores_flag : forall g dur delays tmax tmin full fuel i0,
  nm_run g dur delays tmax tmin full fuel i0 =
  rbind (n_loop g dur delays tmax fuel (n_init g tmax tmin i0))
        (fun s => Ok (finish g tmin full (length i0) (ns_log s))).
Proof. exact nm_run_factor. Qed.

(* the user's rules are consulted ONLY at the calls listed by the run's own transmissions()
   (one call of rec_time_fxn / of the joint rule per entry, for its target, in that order):
   rule tables that agree there give literally the same run, in either mode *)
Theorem C18s_fast_nonMarkov_SIS_rules_consulted_only_at_logged_calls :
  forall g dur dur' delays delays' tmax tmin fuel i0 out fd,
  nm_run g dur delays tmax tmin true fuel i0 = Ok out -> so_full out = Some fd ->
  (forall v k, In (v, k) (rule_calls (fd_trans fd)) -> agree dur dur' delays delays' v k) ->
  forall full, nm_run g dur' delays' tmax tmin full fuel i0 = nm_run g dur delays tmax tmin full fuel i0.
Proof. exact nm_run_calls_from_transmissions. Qed.

(* the random source is touched only to draw the initial nodes *)
Theorem C18s_fast_nonMarkov_SIS_calls_to_the_random_source : forall g dur delays tmax i0 rho tmin full fuel ds,
  let tr := snd (exec (fast_nonMarkov_SIS g dur delays tmax i0 rho tmin full fuel) ds []) in
  match i0 with
  | Some _ => tr = []
  | None => tr = [] \/ exists k, tr = [CSample (map knode (gnodes g)) k]
  end.
Proof. exact fast_nonMarkov_SIS_trace. Qed.

Theorem C18s_flag_relation_read : forall g tmin r1 r2, sis_flag_rel g tmin r1 r2 ->
  match r2 with
  | Ok o2 => exists o1, r1 = Ok o1 /\ so_rows o1 = so_rows o2 /\ so_full o2 = None /\ so_full o1 <> None
  | Err e => r1 = Err e
  end.
Proof. exact sis_flag_rel_read. Qed.

(* --- iteration order.  The loops reachable from the two entry points, regenerated from the
   CURRENT source (Gen/HashIter.v): none runs over a set; the dict loops of
   _transform_to_node_history_ fill a dict that is read by key ([build_full] builds every
   node's history separately); G.neighbors = adjacency order, an input of the model ([gadj]);
   `for u in initial_infecteds` = the caller's order, an input (witnesses below) *)
Definition brief (s : HashIter.iter_site) := (HashIter.site_fn s, HashIter.site_kind s, HashIter.site_text s).
Open Scope string_scope.
(* places are (function, kind of order): the text of the iterated expression is not pinned -- a renamed local must not break this file *)
Theorem C18s_loops_reachable_from_the_SIS_simulators :
  map (fun x => fst (brief x)) (HashIter.sites_of_entry Gen.HashIter.hash_iter_table "fast_SIS") =
    [("_transform_to_node_history_", HashIter.DictOrder);
     ("_transform_to_node_history_", HashIter.DictOrder);
     ("_transform_to_node_history_", HashIter.DictOrder);
     ("_process_trans_SIS_Markov", HashIter.GraphOrder);
     ("fast_SIS", HashIter.ParamOrder)] /\
  map (fun x => fst (brief x)) (HashIter.sites_of_entry Gen.HashIter.hash_iter_table "fast_nonMarkov_SIS") =
    [("_transform_to_node_history_", HashIter.DictOrder);
     ("_transform_to_node_history_", HashIter.DictOrder);
     ("_transform_to_node_history_", HashIter.DictOrder);
     ("_find_trans_and_rec_delays_SIS_", HashIter.ParamOrder);
     ("_process_trans_SIS_nonMarkov_", HashIter.GraphOrder);
     ("_process_trans_SIS_nonMarkov_", HashIter.OtherOrder);
     ("_process_trans_SIS_nonMarkov_", HashIter.ListOrder);
     ("_process_trans_SIS_nonMarkov_", HashIter.ParamOrder);
     ("fast_nonMarkov_SIS", HashIter.ParamOrder)] /\
  HashIter.has_set_iter_in Gen.HashIter.hash_iter_table "fast_SIS" = false /\
  HashIter.has_set_iter_in Gen.HashIter.hash_iter_table "fast_nonMarkov_SIS" = false.
Proof. vm_compute. repeat split; reflexivity. Qed.
Close Scope string_scope.

(* --- `for u in initial_infecteds` in fast_nonMarkov_SIS (rule tables).  Whenever the plain
   reference run of C13 from the list i0 is inside its domain (second component true: all
   event times distinct -- computed by the run itself), the simulator started from ANY
   permutation of i0 returns the same arrays and the same node histories; transmissions() has
   the same sourced entries in the same order and differs only by a permutation (of its
   leading source-less entries).  So the order is an input only through ties and through the
   order of those leading entries -- both exhibited below. *)
Theorem C18s_fast_nonMarkov_SIS_initial_order_irrelevant_without_ties :
  forall g dur delays tmax tmin full fuel i0 i0' out, Permutation i0 i0' ->
  xlt tmin tmax = true -> ref_sis g dur delays tmax tmin full fuel i0 = Ok (out, true) ->
  exists out',
    nm_run g dur delays tmax tmin full (length i0 + fuel) i0 = Ok out /\
    nm_run g dur delays tmax tmin full (length i0 + fuel) i0' = Ok out' /\
    so_rows out' = so_rows out /\
    match so_full out, so_full out' with
    | Some fd, Some fd' => fd_hist fd' = fd_hist fd /\ srcd (fd_trans fd') = srcd (fd_trans fd) /\ Permutation (fd_trans fd') (fd_trans fd)
    | None, None => True
    | _, _ => False
    end.
Proof. exact nmsis_initial_order. Qed.

(* ... and the reference semantics itself: the permuted run is inside its domain too *)
Theorem C18s_reference_semantics_initial_order :
  forall g dur delays tmax tmin full fuel i0 i0' out, Permutation i0 i0' ->
  ref_sis g dur delays tmax tmin full fuel i0 = Ok (out, true) ->
  exists out', ref_sis g dur delays tmax tmin full fuel i0' = Ok (out', true) /\ out_perm_rel out out'.
Proof. exact ref_sis_initial_order. Qed.

(* ---------------- witnesses and non-vacuity ---------------- *)
(* `for u in initial_infecteds:` assigns the heap counters, hence the order in which the
   initial nodes are processed and which node receives which draw.  fast_SIS on the graph
   0 - 1, 2 isolated, same script, initial_infecteds [0;2] vs [2;0]: different traces (5 vs 3
   calls) and different epidemics.  The order of that container is an INPUT of the run (a
   Python set of string-named nodes iterates in PYTHONHASHSEED order: the caller's choice of
   container). *)
Definition adjq (u : node) : list node := match u with 0%N => [1%N] | 1%N => [0%N] | _ => [] end.
Definition gq : graph := mkGraph [0%N;1%N;2%N] adjq adjq false (fun _ _ => 1) (fun _ => 1) false false.
Definition rows_of (r : result simout) : list (Q * list Z) :=
  match r with Ok o => map (fun x : row => (Qred (fst x), snd x)) (so_rows o) | Err _ => [] end.
Definition trans_of (r : result simout) : list (Q * option node * node) :=
  match r with
  | Ok o => match so_full o with Some fd => map (fun x => (Qred (fst (fst x)), snd (fst x), snd x)) (fd_trans fd) | None => [] end
  | Err _ => []
  end.

Example C18s_fast_SIS_initial_infecteds_order_is_an_input :
  let a := exec (fast_SIS gq 1 1 (Some 1) (Some [0;2]%N) None 0 true 50) [3; 1#4; 2; 1; 1; 1; 1] [] in
  let b := exec (fast_SIS gq 1 1 (Some 1) (Some [2;0]%N) None 0 true 50) [3; 1#4; 2; 1; 1; 1; 1] [] in
  rows_of (fst a) = [(0, [1; 2]%Z); (1 # 4, [0; 3]%Z)] /\ rows_of (fst b) = [(0, [1; 2]%Z); (1 # 4, [2; 1]%Z)] /\
  length (snd a) = 5%nat /\ length (snd b) = 3%nat.
Proof. vm_compute. repeat split. Qed.

(* fast_nonMarkov_SIS with rule tables makes no draw, and still the order shows: the star
   0 - 1 - 2, both leaves initially infected, both transmit to the centre after 1/2 (a tie):
   the heap hands the centre's infection to the leaf listed FIRST; and in every run
   transmissions() starts with the initial nodes in the order given *)
Definition adjs (u : node) : list node := match u with 0%N => [1%N] | 1%N => [0%N;2%N] | 2%N => [1%N] | _ => [] end.
Definition gs : graph := mkGraph [0%N;1%N;2%N] adjs adjs false (fun _ _ => 1) (fun _ => 1) false false.
Definition durT (u : node) (k : nat) : Q := 2.
Definition delT (u v : node) (k : nat) : list Q := match u, v with 0%N, 1%N => [1#2] | 2%N, 1%N => [1#2] | _, _ => [] end.

Example C18s_fast_nonMarkov_SIS_initial_infecteds_order_is_an_input :
  let a := nm_run gs durT delT (Some 1) 0 true 50 [0;2]%N in
  let b := nm_run gs durT delT (Some 1) 0 true 50 [2;0]%N in
  rows_of a = rows_of b /\ rows_of a = [(0, [1; 2]%Z); (1 # 2, [0; 3]%Z)] /\
  trans_of a = [(0, None, 0%N); (0, None, 2%N); (1 # 2, Some 0%N, 1%N)] /\
  trans_of b = [(0, None, 2%N); (0, None, 0%N); (1 # 2, Some 2%N, 1%N)].
Proof. vm_compute. repeat split. Qed.

(* the hypothesis of the order theorem: false for the tie above, true when the two leaves
   transmit at different times (then the two orders give the same rows and histories) *)
Definition durU (u : node) (k : nat) : Q := match u with 0%N => 2 | 1%N => 17#8 | _ => 19#8 end.
Definition delU (u v : node) (k : nat) : list Q := match u, v with 0%N, 1%N => [1#2] | 2%N, 1%N => [3#4] | 1%N, 0%N => [5#4; 9#4] | _, _ => [] end.
Definition hist_of_run (r : result simout) : list (node * history) :=
  match r with Ok o => match so_full o with Some fd => fd_hist fd | None => [] end | Err _ => [] end.
Example C18s_initial_order_example :
  match ref_sis gs durT delT (Some 1) 0 true 50 [0;2]%N with Ok (_, ok) => ok = false | Err _ => False end /\
  match ref_sis gs durU delU (Some 3) 0 true 50 [0;2]%N with Ok (o, ok) => ok = true /\ length (so_rows o) = 6%nat | Err _ => False end /\
  Permutation [0;2]%N [2;0]%N /\
  rows_of (nm_run gs durU delU (Some 3) 0 true 52 [0;2]%N) = rows_of (nm_run gs durU delU (Some 3) 0 true 52 [2;0]%N) /\
  hist_of_run (nm_run gs durU delU (Some 3) 0 true 52 [0;2]%N) = hist_of_run (nm_run gs durU delU (Some 3) 0 true 52 [2;0]%N) /\
  trans_of (nm_run gs durU delU (Some 3) 0 true 52 [2;0]%N) = [(0, None, 2%N); (0, None, 0%N); (1 # 2, Some 0%N, 1%N); (11 # 4, Some 1%N, 0%N)].
Proof. split; [vm_compute; reflexivity|]. split; [vm_compute; split; reflexivity|]. split; [apply perm_swap|]. vm_compute. repeat split. Qed.

(* a run (tmin = 5/2) in which draws are made and both modes return *)
Example C18s_fast_SIS_flag_example :
  let a := exec (fast_SIS gq 1 1 (Some 4) (Some [0]%N) None (5#2) true 50) [3; 1#4; 2; 1; 1] [] in
  let b := exec (fast_SIS gq 1 1 (Some 4) (Some [0]%N) None (5#2) false 50) [3; 1#4; 2; 1; 1] [] in
  snd a = snd b /\ length (snd a) = 5%nat /\ rows_of (fst a) = rows_of (fst b) /\
  rows_of (fst a) = [(5 # 2, [2; 1]%Z); (11 # 4, [1; 2]%Z)].
Proof. vm_compute. repeat split. Qed.

Example C18s_rule_calls_example :
  rule_calls (trans_of (nm_run gs durT delT (Some 1) 0 true 50 [0;2]%N)) = [(0%N, 0%nat); (2%N, 0%nat); (1%N, 0%nat)] /\
  agree durT durT delT (fun u v k => match k with O => delT u v k | _ => [7] end) 1%N 0%nat.
Proof. split; [vm_compute; reflexivity|]. split; [reflexivity|]. intro w. reflexivity. Qed.

Print Assumptions C18s_fast_SIS_full_data_flag_independent.
Print Assumptions C18s_fast_SIS_modes_agree.
Print Assumptions C18s_fast_SIS_reproducible.
Print Assumptions C18s_fast_nonMarkov_SIS_full_data_flag_independent.
Print Assumptions C18s_fast_nonMarkov_SIS_reproducible.
Print Assumptions C18s_fast_nonMarkov_SIS_event_loop_ignores_flag.
Print Assumptions C18s_fast_nonMarkov_SIS_rules_consulted_only_at_logged_calls.
Print Assumptions C18s_fast_nonMarkov_SIS_calls_to_the_random_source.
Print Assumptions C18s_flag_relation_read.
Print Assumptions C18s_loops_reachable_from_the_SIS_simulators.
Print Assumptions C18s_fast_nonMarkov_SIS_initial_order_irrelevant_without_ties.
Print Assumptions C18s_reference_semantics_initial_order.
Print Assumptions C18s_initial_order_example.
Print Assumptions C18s_fast_SIS_initial_infecteds_order_is_an_input.
Print Assumptions C18s_fast_nonMarkov_SIS_initial_infecteds_order_is_an_input.
Print Assumptions C18s_fast_SIS_flag_example.
Print Assumptions C18s_rule_calls_example.
