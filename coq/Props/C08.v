(* C08 — ODE models are exact where theory says so: trees, final sizes, limits.
   Only statements; proofs are in Proofs/RhsP.v.  Every statement is about the
   GENERATED definitions of Gen/Rhs.v (translate/rhs2v.py re-emits them from
   EoN/analytic.py on every run), i.e. about what the file says now.

   What is NOT proved here and is carried by the numerical oracle of
   harness/c08.py (validation, not proof): exactness of SIR_pair_based on trees
   (cited: Sharkey et al. 2015); convergence of the curves to the fixed points
   (the t -> infinity limit); the lift from "right-hand sides agree / vanish" to
   statements about the returned curves (Picard-Lindeloef uniqueness, cited; for
   dI = -gamma I the solution I0 exp(-gamma t) is the classical scalar one);
   the tau=0 / gamma=0 clauses about the CURVES of the 2-D and node-level
   systems (their right-hand-side identities are proved in the second part
   of this file over the hand-written models of Model/Rhs2D.v, which the last
   part (theorems C08_generated_...) proves equal to the definitions regenerated from the
   source on every run, Gen/Rhs2.v), and tree exactness beyond the single edge. *)
From EoNV Require Import Prelude Graph Vec VecP Aux Rhs RhsP Rhs2D Rhs2DP Rhs2 Rhs2GenP.

(* ---------------- tau = 0 ---------------- *)
(* Reading of "I(t) = I(0) exp(-gamma t) with S constant": for the SIR models
   dS = 0 and dI = -gamma I; for the SIS models recovered nodes return to S, so
   it is S + I that is constant: dI = -gamma I and dS = +gamma I. *)
Theorem C08_tau0_SIS_homogeneous_meanfield : forall t g S I c,
  veq (dSIS_homogeneous_meanfield [S; I] t c 0 g) [g * I; - (g * I)].
Proof. exact tau0_SIS_homogeneous_meanfield. Qed.

Theorem C08_tau0_SIR_homogeneous_meanfield : forall t g S I c,
  veq (dSIR_homogeneous_meanfield [S; I] t c 0 g) [0; - (g * I)].
Proof. exact tau0_SIR_homogeneous_meanfield. Qed.

(* state (S, SI, SS); I = N - S: dS = gamma I *)
Theorem C08_tau0_SIS_homogeneous_pairwise : forall t g S SI SS N n,
  vnth 0 (dSIS_homogeneous_pairwise [S; SI; SS] t N n 0 g) == g * (N - S).
Proof. exact tau0_SIS_homogeneous_pairwise. Qed.

Theorem C08_tau0_SIR_homogeneous_pairwise : forall t g S I SI SS n,
  vnth 0 (dSIR_homogeneous_pairwise [S; I; SI; SS] t n 0 g) == 0 /\
  vnth 1 (dSIR_homogeneous_pairwise [S; I; SI; SS] t n 0 g) == - (g * I).
Proof. exact tau0_SIR_homogeneous_pairwise. Qed.

Theorem C08_tau0_SIS_super_compact_pairwise : forall t g I SS SI II N k1 k2 k3,
  vnth 0 (dSIS_super_compact_pairwise [I; SS; SI; II] t 0 g N k1 k2 k3) == - (g * I).
Proof. exact tau0_SIS_super_compact_pairwise. Qed.

(* state (theta, SS, SI, R): dtheta = 0 so S = N psihat(theta) is constant; dR = gamma I *)
Theorem C08_tau0_SIR_super_compact_pairwise : forall t g theta SS SI R N (ps psP psDP : Q -> Q),
  vnth 0 (dSIR_super_compact_pairwise [theta; SS; SI; R] t 0 g ps psP psDP N) == 0 /\
  vnth 3 (dSIR_super_compact_pairwise [theta; SS; SI; R] t 0 g ps psP psDP N) == g * (N - N * ps theta - R).
Proof. exact tau0_SIR_super_compact_pairwise. Qed.

(* EBCM starts at theta = 1 (X0 = [1, R0]); with tau = 0 that is a rest point of
   dtheta = gamma (1 - theta), S = N psihat(1) stays constant, dR = gamma I *)
Theorem C08_tau0_EBCM_theta : forall t g theta R N (ps psP : Q -> Q) phiS0 phiR0,
  vnth 0 (dEBCM [theta; R] t N 0 g ps psP phiS0 phiR0) == g * (1 - theta).
Proof. exact tau0_EBCM_theta. Qed.
Theorem C08_tau0_EBCM : forall t g R N (ps psP : Q -> Q) phiS0 phiR0,
  vnth 0 (dEBCM [1; R] t N 0 g ps psP phiS0 phiR0) == 0 /\
  vnth 1 (dEBCM [1; R] t N 0 g ps psP phiS0 phiR0) == g * (N - N * ps 1 - R).
Proof. exact tau0_EBCM. Qed.

(* state Sk ++ [SI; SS]; Ik = Nk - Sk: dSk = gamma Ik for every degree class *)
Theorem C08_tau0_SIS_compact_pairwise : forall t g Sk SI SS Nk twoM,
  length Nk = length Sk ->
  veq (drop_last 2 (dSIS_compact_pairwise (Sk ++ [SI; SS]) t Nk twoM 0 g)) (smul g (vsub Nk Sk)).
Proof. exact tau0_SIS_compact_pairwise. Qed.

(* state Sk ++ [SS; SI; R]: every dSk = 0; dR = gamma I, I = N - sum Sk - R *)
Theorem C08_tau0_SIR_compact_pairwise : forall t g Sk SS SI R N,
  let d := dSIR_compact_pairwise (Sk ++ [SS; SI; R]) t N 0 g in
  allz (drop_last 3 d) /\ length (drop_last 3 d) = length Sk /\
  vnth 2 (take_last 3 d) == g * (N - vsum Sk - R).
Proof. exact tau0_SIR_compact_pairwise. Qed.

(* state S ++ I (kcount classes each) *)
Theorem C08_tau0_SIS_heterogeneous_meanfield : forall t g S I,
  length I = length S ->
  let d := dSIS_heterogeneous_meanfield (S ++ I) t (length S) 0 g in
  veq (slice_to (length S) d) (smul g I) /\ veq (slice_from (length S) d) (vneg (smul g I)).
Proof. exact tau0_SIS_heterogeneous_meanfield. Qed.

(* state [theta] ++ Rk: dtheta = 0 (Sk = S0 theta^k constant), dRk = gamma Ik *)
Theorem C08_tau0_SIR_heterogeneous_meanfield : forall t g theta Rk S0 Nk,
  let d := dSIR_heterogeneous_meanfield ([theta] ++ Rk) t S0 Nk 0 g in
  vnth 0 d == 0 /\
  slice_from 1 d = smul g (vsub (vsub Nk (vmul S0 (spow_arange theta (length Rk)))) Rk).
Proof. exact tau0_SIR_heterogeneous_meanfield. Qed.

(* state Skappa ++ [R; SI]: S = sum Skappa is constant (classes exchange mass), dR = gamma I *)
Theorem C08_tau0_SIR_compact_effective_degree : forall t g Sk R SI N,
  let d := dSIR_compact_effective_degree (Sk ++ [R; SI]) t N 0 g in
  vsum (drop_last 2 d) == 0 /\ length (drop_last 2 d) = length Sk /\
  vnth 0 (take_last 2 d) == g * (N - R - vsum Sk).
Proof. exact tau0_SIR_compact_effective_degree. Qed.

(* ---------------- gamma = 0 ---------------- *)
Theorem C08_gamma0_homogeneous_meanfield : forall t tau S I c,
  veq (dSIS_homogeneous_meanfield [S; I] t c tau 0) (dSIR_homogeneous_meanfield [S; I] t c tau 0).
Proof. exact gamma0_homogeneous_meanfield. Qed.

(* SIS coordinates (S, SI, SS) against SIR coordinates 0, 2, 3 of (S, I, SI, SS) *)
Theorem C08_gamma0_homogeneous_pairwise : forall t tau S I SI SS N n,
  let a := dSIS_homogeneous_pairwise [S; SI; SS] t N n tau 0 in
  let b := dSIR_homogeneous_pairwise [S; I; SI; SS] t n tau 0 in
  vnth 0 a == vnth 0 b /\ vnth 1 a == vnth 2 b /\ vnth 2 a == vnth 3 b.
Proof. exact gamma0_homogeneous_pairwise. Qed.

(* SIS state Sk ++ [SI; SS], SIR state Sk ++ [SS; SI; R]: dSk, dSI, dSS coincide *)
Theorem C08_gamma0_compact_pairwise : forall t tau Sk SI SS R Nk twoM N,
  length Nk = length Sk ->
  let a := dSIS_compact_pairwise (Sk ++ [SI; SS]) t Nk twoM tau 0 in
  let b := dSIR_compact_pairwise (Sk ++ [SS; SI; R]) t N tau 0 in
  veq (drop_last 2 a) (drop_last 3 b) /\
  vnth 0 (take_last 2 a) == vnth 1 (take_last 3 b) /\
  vnth 1 (take_last 2 a) == vnth 0 (take_last 3 b).
Proof. exact gamma0_compact_pairwise. Qed.

(* heterogeneous mean-field: the SIR system is written in (theta, Rk) with S_k = S0_k theta^k.
   Full statement: for gamma = 0 the S-subsystems of the SIS and SIR versions coincide.
   Proved (_partial): with no recovered nodes (Rk = 0, preserved when gamma = 0) the SIS right-hand
   side for S_k equals k S0_k theta^(k-1) theta', the chain-rule image of the SIR right-hand side
   for theta (that d/dt S0_k theta^k is this expression is the chain rule, taken as given). *)
Theorem C08_gamma0_heterogeneous_meanfield_partial : forall t tau theta S0 Nk n,
  ~ theta == 0 -> length S0 = n -> length Nk = n ->
  let Sk := vmul S0 (spow_arange theta n) in
  let Ik := vsub Nk Sk in
  let sis := dSIS_heterogeneous_meanfield (Sk ++ Ik) t n tau 0 in
  let sir := dSIR_heterogeneous_meanfield ([theta] ++ zeros n) t S0 Nk tau 0 in
  forall k, (k < n)%nat ->
    nth k (slice_to n sis) 0 == Qnat k * nth k S0 0 * qpow theta (Z.of_nat k - 1) * vnth 0 sir.
Proof. exact gamma0_heterogeneous_meanfield_partial. Qed.

(* ---------------- final sizes ---------------- *)
(* for tau + gamma > 0: dtheta/dt = 0 in _dEBCM_  <->  theta = F(theta), F the map iterated by Attack_rate_cts_time *)
Theorem C08_attack_cts_fixed_point : forall t N tau g phiS0 phiR0 (ps psP : Q -> Q) theta R,
  ~ g + tau == 0 -> ~ psP 1 == 0 ->
  (vnth 0 (dEBCM [theta; R] t N tau g ps psP phiS0 phiR0) == 0 <->
   theta == Attack_rate_cts_time_step g tau phiR0 phiS0 psP ps theta).
Proof. exact attack_cts_fixed_point. Qed.

Theorem C08_attack_cts_dtheta : forall t N tau g phiS0 phiR0 (ps psP : Q -> Q) theta R,
  ~ g + tau == 0 -> ~ psP 1 == 0 ->
  vnth 0 (dEBCM [theta; R] t N tau g ps psP phiS0 phiR0) ==
  (g + tau) * (Attack_rate_cts_time_step g tau phiR0 phiS0 psP ps theta - theta).
Proof. exact attack_cts_dtheta. Qed.

(* where also dR/dt = 0 (I = 0), the value Attack_rate_cts_time returns is R/N *)
Theorem C08_attack_cts_ret_is_final_R : forall t N tau g phiS0 phiR0 (ps psP : Q -> Q) theta R,
  ~ g == 0 -> ~ N == 0 ->
  vnth 1 (dEBCM [theta; R] t N tau g ps psP phiS0 phiR0) == 0 ->
  Attack_rate_cts_time_ret g tau phiR0 phiS0 psP ps theta == R / N.
Proof. exact attack_cts_ret_is_final_R. Qed.
(* C08_attack_cts_limit_partial: that EBCM's (theta(t), R(t)) CONVERGES to this rest point, and
   that the iteration of Attack_rate_cts_time converges to the same fixed point (uniqueness in
   [0,1) by convexity of psihat'), is not proved; the oracle compares the numbers. *)

(* the theta-sequence of EBCM_discrete is the iteration of Attack_rate_discrete; S = N psihat(theta) *)
Theorem C08_ebcm_discrete_theta : forall N p phiS0 phiR0 R0 (ps psP : Q -> Q) n,
  st_theta (EBCM_discrete_loop R0 N ps p phiR0 phiS0 psP n) =
    iter n (Attack_rate_discrete_step p phiR0 phiS0 psP ps) (Attack_rate_discrete_init p phiR0 phiS0 psP ps) /\
  st_S (EBCM_discrete_loop R0 N ps p phiR0 phiS0 psP n) =
    N * ps (iter n (Attack_rate_discrete_step p phiR0 phiS0 psP ps) (Attack_rate_discrete_init p phiR0 phiS0 psP ps)).
Proof. exact ebcm_discrete_theta. Qed.

(* Attack_rate_discrete(number_its = n) = 1 - S(tmin + n)/N, exactly, for every n *)
Theorem C08_attack_discrete_exact : forall N p phiS0 phiR0 R0 (ps psP : Q -> Q) n,
  ~ N == 0 ->
  Attack_rate_discrete_loop p phiR0 phiS0 psP ps n == 1 - st_S (EBCM_discrete_loop R0 N ps p phiR0 phiS0 psP n) / N.
Proof. exact attack_discrete_exact. Qed.

(* R(t+1) = R(t) + I(t), and S + I + R = N in every row *)
Theorem C08_ebcm_discrete_R_step : forall N p phiS0 phiR0 R0 (ps psP : Q -> Q) n,
  st_R (EBCM_discrete_loop R0 N ps p phiR0 phiS0 psP (S n)) =
  st_R (EBCM_discrete_loop R0 N ps p phiR0 phiS0 psP n) + st_I (EBCM_discrete_loop R0 N ps p phiR0 phiS0 psP n).
Proof. exact ebcm_discrete_R_step. Qed.
Theorem C08_ebcm_discrete_conserves : forall N p phiS0 phiR0 R0 (ps psP : Q -> Q) n,
  st_S (EBCM_discrete_loop R0 N ps p phiR0 phiS0 psP n) + st_I (EBCM_discrete_loop R0 N ps p phiR0 phiS0 psP n)
  + st_R (EBCM_discrete_loop R0 N ps p phiR0 phiS0 psP n) == N.
Proof. exact ebcm_discrete_conserves. Qed.

(* ---------------- non-vacuity ---------------- *)
(* the hypotheses are satisfiable and the right-hand sides are not trivially zero *)
Example C08_nonvacuous_compact_pairwise :
  veq (dSIR_compact_pairwise ([1; 2; 3] ++ [4; 2; 1]) 0 10 (1 # 2) 1) [0; - (1 # 4); - (3 # 4); - (3 # 4); - (45 # 16); 3].
Proof. vm_compute. repeat constructor. Qed.
Example C08_nonvacuous_attack_cts :
  ~ 1 + (1 # 2) == 0 /\ ~ (fun x : Q => 1 + 2 * x) 1 == 0 /\
  ~ vnth 0 (dEBCM [1 # 2; 1] 0 10 (1 # 2) 1 (fun x => x + x * x) (fun x => 1 + 2 * x) (9 # 10) 0) == 0.
Proof. repeat split; intro H; vm_compute in H; discriminate. Qed.
Example C08_nonvacuous_ebcm_discrete :
  st_R (EBCM_discrete_loop 0 10 (fun x => (9 # 10) * x * x) (1 # 2) 0 (9 # 10) (fun x => (9 # 5) * x) 2) == 1 + (8775 # 10000).
Proof. vm_compute. reflexivity. Qed.

Print Assumptions C08_tau0_SIS_homogeneous_meanfield.
Print Assumptions C08_tau0_SIR_homogeneous_meanfield.
Print Assumptions C08_tau0_SIS_homogeneous_pairwise.
Print Assumptions C08_tau0_SIR_homogeneous_pairwise.
Print Assumptions C08_tau0_SIS_super_compact_pairwise.
Print Assumptions C08_tau0_SIR_super_compact_pairwise.
Print Assumptions C08_tau0_EBCM_theta.
Print Assumptions C08_tau0_EBCM.
Print Assumptions C08_tau0_SIS_compact_pairwise.
Print Assumptions C08_tau0_SIR_compact_pairwise.
Print Assumptions C08_tau0_SIS_heterogeneous_meanfield.
Print Assumptions C08_tau0_SIR_heterogeneous_meanfield.
Print Assumptions C08_tau0_SIR_compact_effective_degree.
Print Assumptions C08_gamma0_homogeneous_meanfield.
Print Assumptions C08_gamma0_homogeneous_pairwise.
Print Assumptions C08_gamma0_compact_pairwise.
Print Assumptions C08_gamma0_heterogeneous_meanfield_partial.
Print Assumptions C08_attack_cts_fixed_point.
Print Assumptions C08_attack_cts_dtheta.
Print Assumptions C08_attack_cts_ret_is_final_R.
Print Assumptions C08_ebcm_discrete_theta.
Print Assumptions C08_attack_discrete_exact.
Print Assumptions C08_ebcm_discrete_R_step.
Print Assumptions C08_ebcm_discrete_conserves.
Print Assumptions C08_nonvacuous_compact_pairwise.
Print Assumptions C08_nonvacuous_attack_cts.
Print Assumptions C08_nonvacuous_ebcm_discrete.


(* ====================================================================== *)
(* 2-D and node-level systems (Model/Rhs2D.v, hand-written; = Gen/Rhs2.v   *)
(* by the C08_generated_.. theorems below; proofs in Proofs/Rhs2DP.v)      *)
(* ====================================================================== *)
(* ---------------- tau = 0 ---------------- *)
(* node level: "tau = 0" is trans_rate_fxn == 0; componentwise dX_i = 0, dY_i = - gamma_i Y_i *)
Theorem C08_tau0_SIS_individual_based : forall G nodelist idx tr rc Y i,
  (forall u v, tr u v == 0) -> ibSIS_dY G nodelist idx tr rc Y i == - rc (node_at nodelist i) * vnth i Y.
Proof. exact ibSIS_tau0. Qed.
Theorem C08_tau0_SIR_individual_based : forall G nodelist idx tr rc V i,
  (forall u v, tr u v == 0) ->
  ibSIR_dX G nodelist idx tr V i == 0 /\
  ibSIR_dY G nodelist idx tr rc V i == - rc (node_at nodelist i) * vnth (nN nodelist + i) V.
Proof. exact ibSIR_tau0. Qed.
Theorem C08_tau0_SIS_pair_based : forall G nodelist idx tr rc V i,
  (forall u v, tr u v == 0) -> pbSIS_dY G nodelist idx tr rc V i == - rc (node_at nodelist i) * psY V i.
Proof. exact pbSIS_tau0. Qed.
Theorem C08_tau0_SIR_pair_based : forall G nodelist idx tr rc V i,
  (forall u v, tr u v == 0) ->
  pbSIR_dX G nodelist idx tr V i == 0 /\
  pbSIR_dY G nodelist idx tr rc V i == - rc (node_at nodelist i) * prY nodelist V i.
Proof. exact pbSIR_tau0. Qed.
(* heterogeneous pairwise: SIS state (Sk, SkSl, SkIl), I_k = N_k - S_k: dS_k = gamma I_k; SIR: dS_k = 0, dI_k = - gamma I_k *)
Theorem C08_tau0_SIS_heterogeneous_pairwise : forall X Nk gamma Ks i,
  hs_dSk X Nk 0 gamma Ks i == gamma * hs_Ik X Nk i.
Proof. exact hpSIS_tau0. Qed.
Theorem C08_tau0_SIR_heterogeneous_pairwise : forall X gamma Ks i,
  hr_dSk X 0 Ks i == 0 /\ hr_dIk X 0 gamma Ks i == - gamma * hr_Ik X Ks i.
Proof. exact hpSIR_tau0. Qed.
(* effective degree: the cells S_{s,i} do move when tau = 0 (neighbours recover), the totals obey S' = 0 (SIR) /
   S' = + gamma I (SIS) and I' = - gamma I.  SIS needs the state to vanish on the cells from which the code's
   zero-padded shifts lose mass (boundary0: last row i >= 1, last column s >= 1; true on the model's feasible
   region S_{s,i} = 0 for s + i > kmax); SIR needs nothing. *)
Theorem C08_tau0_SIS_effective_degree : forall r c, (1 <= r)%nat -> (1 <= c)%nat -> forall X gamma,
  boundary0 r c (es_S X c) -> boundary0 r c (es_I X r c) ->
  sumn2 r c (es_dS X r c 0 gamma) == gamma * sumn2 r c (es_I X r c) /\
  sumn2 r c (es_dI X r c 0 gamma) == - gamma * sumn2 r c (es_I X r c).
Proof. exact edSIS_tau0. Qed.
Theorem C08_tau0_SIR_effective_degree : forall r c, (1 <= r)%nat -> (1 <= c)%nat -> forall X N gamma,
  sumn2 r c (er_dS X r c 0 gamma) == 0 /\
  - sumn2 r c (er_dS X r c 0 gamma) - er_dR X N r c gamma == - gamma * (N - sumn2 r c (er_S X c) - er_R X r c).
Proof. exact edSIR_tau0. Qed.

(* ---------------- gamma = 0 ---------------- *)
(* individual based: at X = 1 - Y the SIS field is the Y-part of the SIR field and dX = -dY *)
Theorem C08_gamma0_individual_based : forall G nodelist idx tr rc Y i,
  (forall u, rc u == 0) -> (i < nN nodelist)%nat ->
  let V := tab (nN nodelist) (fun k => 1 - vnth k Y) ++ Y in
  ibSIS_dY G nodelist idx tr rc Y i == ibSIR_dY G nodelist idx tr rc V i /\
  ibSIR_dX G nodelist idx tr V i == - ibSIS_dY G nodelist idx tr rc Y i.
Proof. exact ib_gamma0. Qed.
(* pair based: SIS state W = Y ++ XY ++ XX, SIR state (1 - Y) ++ W: all four blocks agree *)
Theorem C08_gamma0_pair_based : forall G nodelist idx tr rc W i j,
  (forall u, rc u == 0) -> (i < nN nodelist)%nat -> (j < nN nodelist)%nat ->
  let V := tab (nN nodelist) (fun k => 1 - vnth k W) ++ W in
  pbSIR_dY G nodelist idx tr rc V i == pbSIS_dY G nodelist idx tr rc W i /\
  pbSIR_dX G nodelist idx tr V i == - pbSIS_dY G nodelist idx tr rc W i /\
  pbSIR_dXY G nodelist idx tr rc V i j == pbSIS_dXY G nodelist idx tr rc W i j /\
  pbSIR_dXX G nodelist idx tr V i j == pbSIS_dXX G nodelist idx tr rc W i j.
Proof. exact pb_gamma0. Qed.
(* heterogeneous pairwise: SIS state Sk ++ M, SIR state Sk ++ Ik ++ M (M = SkSl ++ SkIl).  "Where true": the two
   functions guard their denominators differently (kxSk[kxSk==0]=1 vs tmpKs[..]=1, tmpSk[..]=1), so the identity is
   stated where no guard fires, k <> 0 and [S_k] <> 0 for every class *)
Theorem C08_gamma0_heterogeneous_pairwise : forall Sk Ik M Nk NkNl tau Ks i j,
  length Sk = length Ks -> length Ik = length Ks ->
  (forall l, (l < length Ks)%nat -> ~ vnth l Ks == 0 /\ ~ vnth l Sk == 0) ->
  (i < length Ks)%nat -> (j < length Ks)%nat ->
  let Xs := Sk ++ M in let Xr := Sk ++ Ik ++ M in
  hs_dSk Xs Nk tau 0 Ks i == hr_dSk Xr tau Ks i /\
  hs_dSkSl Xs tau 0 Ks i j == hr_dSkSl Xr tau Ks i j /\
  hs_dSkIl Xs NkNl tau 0 Ks i j == hr_dSkIl Xr tau 0 Ks i j.
Proof. exact hp_gamma0. Qed.
(* effective degree: the S-blocks coincide cell by cell *)
Theorem C08_gamma0_effective_degree : forall r c, (1 <= r)%nat -> (1 <= c)%nat -> forall Ssi Isi R tau s i,
  length Ssi = (r * c)%nat -> (s < r)%nat -> (i < c)%nat ->
  es_dS (Ssi ++ Isi) r c tau 0 s i == er_dS (Ssi ++ [R]) r c tau 0 s i.
Proof. exact ed_gamma0. Qed.

(* ---------------- trees: the single edge ---------------- *)
(* FULL STATEMENT (cited, Sharkey et al. 2015; validated numerically on every tree up to the size bound):
   on every tree, from every pure initial condition, SIR_pair_based returns the expected S, I, R of the exact
   3^N-state Markov chain.  Proved: the case of one edge, as an identity between right-hand sides, for EVERY
   probability vector p over the 9 states (a fortiori the states reachable from a pure initial condition), with
   direction-dependent transmission rates and node-dependent recovery rates: the marginals of p move under the
   master equation exactly as the pair-based system prescribes, and the closure sums are empty.  Missing for the
   general statement: the cut-vertex conditional-independence argument and ODE uniqueness. *)
Theorem C08_pair_based_tree_exact_partial : forall t01 t10 g0 g1 pSS pSI pSR pIS pII pIR pRS pRI pRR t,
  let p := [pSS; pSI; pSR; pIS; pII; pIR; pRS; pRI; pRR] in
  veq (dSIR_pair_based edge_graph [0%N; 1%N] edge_idx (edge_tr t01 t10) (edge_rc g0 g1) (marginals1 p) t)
      (marginals1 (master1 t01 t10 g0 g1 p)).
Proof. exact pair_based_single_edge_exact. Qed.
Theorem C08_single_edge_no_closure : forall t01 t10 Xi XY XX i j,
  (i < 2)%nat -> (j < 2)%nat -> is_edge edge_graph [0%N; 1%N] i j = true ->
  triples_in edge_graph [0%N; 1%N] edge_idx (edge_tr t01 t10) Xi XY XX i j == 0 /\
  triples_out edge_graph [0%N; 1%N] edge_idx (edge_tr t01 t10) Xi XY XX i j == 0.
Proof. exact single_edge_no_closure. Qed.

(* ---- non-vacuity ---- *)
(* a pure initial condition (node 0 infected, node 1 susceptible): the two sides are not trivially zero *)
Example C08_nonvacuous_single_edge :
  dSIR_pair_based edge_graph [0%N; 1%N] edge_idx (edge_tr 2 3) (edge_rc 1 1) (marginals1 [0; 0; 0; 1; 0; 0; 0; 0; 0]) 0
  = [0; -3; -1; 3; 0; 0; -4; 0; 0; 0; 0; 0].
Proof. vm_compute. reflexivity. Qed.
(* a state on the feasible region of the effective-degree model (kmax = 1) with non-zero totals *)
Example C08_nonvacuous_effective_degree :
  let X := [3; 2; 1; 0; 1; 1; 2; 0] in
  boundary0 2 2 (es_S X 2) /\ boundary0 2 2 (es_I X 2 2) /\ ~ sumn2 2 2 (es_I X 2 2) == 0.
Proof.
  cbv zeta. split; [|split].
  - split; intros k Hk; assert (k = 1%nat) by lia; subst; reflexivity.
  - split; intros k Hk; assert (k = 1%nat) by lia; subst; reflexivity.
  - intro H. vm_compute in H. discriminate.
Qed.
(* the guard-free region of C08_gamma0_heterogeneous_pairwise is inhabited *)
Example C08_nonvacuous_heterogeneous_pairwise :
  let Ks := [2; 3] in let Sk := [5; 7] in
  forall l, (l < length Ks)%nat -> ~ vnth l Ks == 0 /\ ~ vnth l Sk == 0.
Proof. cbv zeta. intros l Hl. cbn [length] in Hl. destruct l as [|[|l]]; try lia; split; intro H; vm_compute in H; discriminate. Qed.

Print Assumptions C08_tau0_SIS_individual_based.
Print Assumptions C08_tau0_SIR_individual_based.
Print Assumptions C08_tau0_SIS_pair_based.
Print Assumptions C08_tau0_SIR_pair_based.
Print Assumptions C08_tau0_SIS_heterogeneous_pairwise.
Print Assumptions C08_tau0_SIR_heterogeneous_pairwise.
Print Assumptions C08_tau0_SIS_effective_degree.
Print Assumptions C08_tau0_SIR_effective_degree.
Print Assumptions C08_gamma0_individual_based.
Print Assumptions C08_gamma0_pair_based.
Print Assumptions C08_gamma0_heterogeneous_pairwise.
Print Assumptions C08_gamma0_effective_degree.
Print Assumptions C08_pair_based_tree_exact_partial.
Print Assumptions C08_single_edge_no_closure.
Print Assumptions C08_nonvacuous_single_edge.
Print Assumptions C08_nonvacuous_effective_degree.
Print Assumptions C08_nonvacuous_heterogeneous_pairwise.

(* ====================================================================== *)
(* the hand-written models ARE the code: definitions generated from the    *)
(* source on every run (Gen/Rhs2.v, translate/rhs2d2v.py, fail-closed)     *)
(* equal the models of Model/Rhs2D.v that the theorems above are about     *)
(* ====================================================================== *)
(* Domain: shapes consistent (where numpy would raise nothing is claimed).  Pair based: `pb_wfb G nodelist idx`
   (boolean) = G.order() = len(nodelist), index_of_node[nodelist[i]] = i, adjacency lists duplicate-free and inside
   nodelist -- what every caller in analytic.py establishes (index_of_node = {node: i for i, node in
   enumerate(nodelist)} over a simple graph); under it the code's accumulation `dA[index_of_node[u], ..] += ..`
   over nested neighbour loops writes every cell from exactly one (u, v) and equals the closed form of the model. *)
Theorem C08_generated_SIS_individual_based : forall Y t G nodelist idx tr rc,
  length Y = length nodelist ->
  veq (g_dSIS_individual_based Y t G nodelist idx tr rc) (dSIS_individual_based G nodelist idx tr rc Y t).
Proof. exact gen_dSIS_individual_based. Qed.
Theorem C08_generated_SIR_individual_based : forall V t G nodelist idx tr rc,
  length V = (2 * length nodelist)%nat ->
  veq (g_dSIR_individual_based V t G nodelist idx tr rc) (dSIR_individual_based G nodelist idx tr rc V t).
Proof. exact gen_dSIR_individual_based. Qed.
Theorem C08_generated_SIS_pair_based : forall G nodelist idx tr rc, pb_wfb G nodelist idx = true -> forall V t,
  veq (g_dSIS_pair_based V t G nodelist idx tr rc) (dSIS_pair_based G nodelist idx tr rc V t).
Proof. exact gen_dSIS_pair_based. Qed.
Theorem C08_generated_SIR_pair_based : forall G nodelist idx tr rc, pb_wfb G nodelist idx = true -> forall V t,
  veq (g_dSIR_pair_based V t G nodelist idx tr rc) (dSIR_pair_based G nodelist idx tr rc V t).
Proof. exact gen_dSIR_pair_based. Qed.
Theorem C08_generated_SIS_heterogeneous_pairwise : forall X t Nk NkNl tau gamma Ks,
  length Nk = length Ks ->
  veq (g_dSIS_heterogeneous_pairwise X t Nk NkNl tau gamma Ks) (dSIS_heterogeneous_pairwise X Nk NkNl tau gamma Ks t).
Proof. exact gen_dSIS_heterogeneous_pairwise. Qed.
Theorem C08_generated_SIR_heterogeneous_pairwise : forall X t tau gamma Nk Ks,
  veq (g_dSIR_heterogeneous_pairwise X t tau gamma Nk Ks) (dSIR_heterogeneous_pairwise X tau gamma Ks t).
Proof. exact gen_dSIR_heterogeneous_pairwise. Qed.
Theorem C08_generated_SIS_effective_degree : forall X t r c tau gamma,
  veq (g_dSIS_effective_degree X t (r, c) tau gamma) (dSIS_effective_degree X r c tau gamma t).
Proof. exact gen_dSIS_effective_degree. Qed.
Theorem C08_generated_SIR_effective_degree : forall X t N r c tau gamma,
  length X = (r * c + 1)%nat ->
  veq (g_dSIR_effective_degree X t N (r, c) tau gamma) (dSIR_effective_degree X N r c tau gamma t).
Proof. exact gen_dSIR_effective_degree. Qed.
(* non-vacuity of pb_wfb: the triangle with nodelist = its nodes and idx the position *)
Example C08_generated_wf_nonvacuous : pb_wfb tri_graph tri_nodes tri_idx = true.
Proof. vm_compute. reflexivity. Qed.
Print Assumptions C08_generated_SIS_individual_based.
Print Assumptions C08_generated_SIR_individual_based.
Print Assumptions C08_generated_SIS_pair_based.
Print Assumptions C08_generated_SIR_pair_based.
Print Assumptions C08_generated_SIS_heterogeneous_pairwise.
Print Assumptions C08_generated_SIR_heterogeneous_pairwise.
Print Assumptions C08_generated_SIS_effective_degree.
Print Assumptions C08_generated_SIR_effective_degree.
Print Assumptions C08_generated_wf_nonvacuous.
