(* C04 — trajectories are well-formed: conserved counts, ordered time, one event a
   step.  Delivered simulator by simulator; this file: Gillespie_SIR and
   Gillespie_SIS (the theorems are generic in the kind).  [traj] is the
   chronological reading of the returned rows:
     traj_init : the first row is at tmin and is the census of a status map
     traj_snoc : each later row is at a time >= the previous one and < tmax, one
                 legal move (S->I, I->R / I->S) away, and again a census.       *)
From EoNV Require Import Prelude Samp Graph ListDict ListDictP Gillespie KldP GillespieInv SampP GillespieP GillespieLaw GillespieEx.

Section C04.
Variable g : graph.
Hypothesis Hg : wfg g.
Hypothesis Hnd : NoDup (gnodes g).
Hypothesis Hadj : forall u v, In v (gadj g u) -> In v (gnodes g).
Variable kind : model_kind.
Variables tau gamma tmin : Q.
Variable tmax : xtime.
Variable full : bool.

(* every run, every draw script: the returned rows form a well-formed trajectory *)
Theorem C04_gillespie_rows_well_formed :
  forall i0 r0 fuel ds out tr, wf_init g kind i0 r0 ->
    exec (gillespie g kind tau gamma (Some i0) r0 None tmin tmax full fuel) ds [] = (Ok out, tr) ->
    traj g kind tmin tmax (so_rows out).
Proof. exact (gillespie_exec_traj g Hg Hnd kind tau gamma tmin tmax full Hadj). Qed.

(* ... and the run never ends in a Python-level failure *)
Theorem C04_gillespie_never_crashes :
  forall i0 r0 fuel ds e tr, wf_init g kind i0 r0 ->
    exec (gillespie g kind tau gamma (Some i0) r0 None tmin tmax full fuel) ds [] = (Err e, tr) ->
    e = OutOfDraws \/ e = OutOfFuel.
Proof. exact (gillespie_exec_no_crash g Hg Hnd kind tau gamma tmin tmax full Hadj). Qed.

(* what [traj] says, clause by clause *)
Theorem C04_first_time_is_tmin :
  forall l, traj g kind tmin tmax l -> exists r l', l = r :: l' /\ fst r == tmin.
Proof. exact (traj_first g kind tmin tmax). Qed.

Theorem C04_consecutive_rows :
  forall l, traj g kind tmin tmax l -> forall l1 a b l2, l = l1 ++ a :: b :: l2 ->
    fst a <= fst b /\ xlt (fst b) tmax = true /\ move kind (snd a) (snd b).
Proof. exact (traj_adjacent g kind tmin tmax). Qed.

Theorem C04_counts_nonnegative_and_sum_to_N :
  forall l, traj g kind tmin tmax l -> forall r, In r l ->
    Forall (fun x => (0 <= x)%Z) (snd r) /\ sumZ (snd r) = order g /\
    length (snd r) = match kind with SIR => 3%nat | SIS => 2%nat end.
Proof.
  intros l H r Hin. apply (census_counts g kind). exact (traj_census g kind tmin tmax l H r Hin).
Qed.

(* a legal move of an SIR run never increases S nor decreases R *)
Theorem C04_SIR_monotone :
  forall c c', move SIR c c' -> (cnt c' 0 <= cnt c 0)%Z /\ (cnt c 2 <= cnt c' 2)%Z.
Proof.
  intros c c' [E|E]; subst c'; cbn [cnt nth]; lia.
Qed.

(* unbounded horizon and positive recovery rates: the final state has no infected node *)
Theorem C04_unbounded_run_ends_without_infection :
  0 <= tau -> forall i0 r0 fuel ds out tr, wf_init g kind i0 r0 -> tmax = None ->
    0 < gamma -> (forall u, 0 < iw g u) ->
    exec (gillespie g kind tau gamma (Some i0) r0 None tmin tmax full fuel) ds [] = (Ok out, tr) ->
    exists s, out = finish g kind tmin full s /\ (forall u, stat s u <> stI) /\ cnt (hd_counts (rows s)) 1 = 0%Z.
Proof.
  intros Htau i0 r0 fuel ds out tr Hwf Htm Hgam Hiw H. apply exec_reach in H.
  destruct (gillespie_reach g Hg Hnd kind tau gamma tmin tmax full Hadj i0 r0 fuel Hwf) as [Hr _].
  destruct (Hr out H) as [s [HG [E Hstop]]]. exists s. split; [exact E|].
  exact (final_no_infected g kind tau gamma tmin tmax Htau s HG Hstop Htm Hgam Hiw).
Qed.

End C04.

Example C04_hypotheses_satisfiable :
  wfg ex_graph /\ NoDup (gnodes ex_graph) /\ (forall u v, In v (gadj ex_graph u) -> In v (gnodes ex_graph)) /\
  wf_init ex_graph SIR [0%N] (Some [3%N]) /\ wf_init ex_graph SIS [1%N; 2%N] None /\ (forall u, 0 < iw ex_graph u).
Proof. exact (conj ex_wfg (conj ex_nodup (conj ex_adj_in (conj ex_wf_init_SIR (conj ex_wf_init_SIS ex_iw_pos))))). Qed.

Print Assumptions C04_gillespie_rows_well_formed.
Print Assumptions C04_gillespie_never_crashes.
Print Assumptions C04_first_time_is_tmin.
Print Assumptions C04_consecutive_rows.
Print Assumptions C04_counts_nonnegative_and_sum_to_N.
Print Assumptions C04_SIR_monotone.
Print Assumptions C04_unbounded_run_ends_without_infection.
Print Assumptions C04_hypotheses_satisfiable.
