(* C18 — reproducibility from the seeds, for the event-driven SIR simulator
   (fast_nonMarkov_SIR, fast_SIR on both of its paths), Gillespie_simple_contagion and
   Gillespie_complex_contagion.  Models: Model/EventSIR.v, EventSIRConst.v, Simple.v,
   Complex.v (the extracted ones).  Proofs: Proofs/C18x*.v.

   Reading guide.  A simulator model is a sampler program; [exec m ds []] runs it on the
   scripted draws [ds] and returns (result, the list of calls made to the random source
   with their arguments).  "Same draws" = the two traces are EQUAL for every script.
   [flag_rel r1 r2] (r1 with full data, r2 plain): r2 = Err e -> r1 = Err e; r2 = Ok ->
   r1 is Ok with the same rows (and the same log of calls of the user's functions), or r1
   failed while the full-data object was being built AFTER the last draw (event-driven SIR:
   ValueErr, an infinite time in a node history -- excluded inside the domain of C11 by
   [C18x_esir_flag_tables_both_return]; generic simulators: KeyErr / IndexErr raised by
   Simulation_Investigation's constructor when return_statuses does not cover the statuses
   met -- reachable, [C18x_simple_full_data_can_fail_after_the_last_draw]). *)
From EoNV Require Import Prelude Samp Graph ListDict Gillespie EventSIR EventSIRConst Simple Complex FlagIndep.
From EoNV Require Import C18xSim C18xEsir C18xSimple C18xComplex C18xEsirOrder C18xSimpleOrder.
From Coq Require Import Permutation.

(* --- a model is a FUNCTION of (ordered inputs, draw script): by construction ([exec] is a
   Coq function and the models take no other argument -- no clock, no hash seed, no hidden
   state); stated for the record, it is all that "same seeds => same output" can mean here *)
Theorem C18x_same_script_same_output : forall A (m : samp A) ds r1 r2,
  exec m ds [] = r1 -> exec m ds [] = r2 -> r1 = r2.
Proof. intros A m ds r1 r2 H1 H2. rewrite <- H1. exact H2. Qed.

(* --- the general lemma: programs that make the same calls with the same arguments, whose
   continuations stay related and whose leaves are related AS RESULTS, make the same trace
   on every script and return related results *)
Theorem C18x_same_calls_same_draws : forall A B (R : result A -> result B -> Prop) m1 m2,
  err_refl R -> simrelx R m1 m2 ->
  forall ds tr, snd (exec m1 ds tr) = snd (exec m2 ds tr) /\ R (fst (exec m1 ds tr)) (fst (exec m2 ds tr)).
Proof. exact simrelx_exec. Qed.

(* --- return_full_data: fast_nonMarkov_SIR with ANY provider of delays (user tables; fast_SIR's
   per-edge expovariate path is [markov_provider]), any tie policy, any arguments incl. rho *)
Theorem C18x_esir_full_data_flag_independent : forall tb g prov i0 r0 rho tmin tmax fuel ds,
  let r1 := exec (fast_nonmarkov tb g prov i0 r0 rho tmin tmax true fuel) ds [] in
  let r2 := exec (fast_nonmarkov tb g prov i0 r0 rho tmin tmax false fuel) ds [] in
  snd r1 = snd r2 /\ flag_rel (fst r1) (fst r2).
Proof. exact esir_flag_indep. Qed.

Theorem C18x_fast_SIR_edge_path_flag_independent : forall g tau gamma i0 r0 rho tmin tmax fuel ds,
  let r1 := exec (fast_sir_edge g tau gamma i0 r0 rho tmin tmax true fuel) ds [] in
  let r2 := exec (fast_sir_edge g tau gamma i0 r0 rho tmin tmax false fuel) ds [] in
  snd r1 = snd r2 /\ flag_rel (fst r1) (fst r2).
Proof. intros g tau gamma. exact (esir_flag_indep fifo g (markov_provider g tau gamma)). Qed.

(* fast_SIR, constant-tau path: expovariate, np.random.binomial, random.sample *)
Theorem C18x_fast_SIR_const_path_flag_independent : forall g tau gamma i0 r0 rho tmin tmax fuel ds,
  let r1 := bexec (fast_sir_const g tau gamma i0 r0 rho tmin tmax true fuel) ds [] in
  let r2 := bexec (fast_sir_const g tau gamma i0 r0 rho tmin tmax false fuel) ds [] in
  snd r1 = snd r2 /\ flag_rel (fst r1) (fst r2).
Proof. exact fast_sir_const_flag_indep. Qed.

(* inside the domain of C11 (table rules) both modes return: same rows, same rule-call log *)
Theorem C18x_esir_flag_tables_both_return : forall tb g delay dur i0 r0 tmin tmax fuel ds,
  esir_okb g delay dur i0 (match r0 with Some l => l | None => [] end) tmin tmax = true ->
  (esir_fuel g i0 <= fuel)%nat ->
  exists o1 o2 cs,
    fst (exec (fast_nonmarkov tb g (det_provider delay dur) (Some i0) r0 None tmin tmax true fuel) ds []) = Ok (o1, cs) /\
    fst (exec (fast_nonmarkov tb g (det_provider delay dur) (Some i0) r0 None tmin tmax false fuel) ds []) = Ok (o2, cs) /\
    so_rows o1 = so_rows o2 /\ so_full o2 = None /\ so_full o1 <> None.
Proof. exact esir_flag_indep_tables. Qed.

Theorem C18x_simple_full_data_flag_independent : forall g sortable spont induced ic rstat tmin tmax fuel ds,
  let r1 := exec (simple g sortable spont induced ic rstat tmin tmax true fuel) ds [] in
  let r2 := exec (simple g sortable spont induced ic rstat tmin tmax false fuel) ds [] in
  snd r1 = snd r2 /\ sflag_rel (fst r1) (fst r2).
Proof. exact simple_flag_indep. Qed.

(* complex contagion: the result carries the log of every call of rate_function /
   transition_choice / get_influence_set with the status snapshot it saw: equal in both modes *)
Theorem C18x_complex_full_data_flag_independent : forall g rate choice infl rstats tmin tmax ic fuel ds,
  let r1 := exec (complex g rate choice infl rstats tmin tmax true ic fuel) ds [] in
  let r2 := exec (complex g rate choice infl rstats tmin tmax false ic fuel) ds [] in
  snd r1 = snd r2 /\ cflag_rel (fst r1) (fst r2).
Proof. exact complex_flag_indep. Qed.

(* --- iteration order of the caller's containers.
   `for node in initial_recovereds:` : irrelevant (trace AND result equal, every script) *)
Theorem C18x_esir_initial_recovereds_order_irrelevant : forall tb g prov i0 r0 r0' rho tmin tmax full fuel ds,
  Permutation r0 r0' ->
  exec (fast_nonmarkov tb g prov i0 (Some r0) rho tmin tmax full fuel) ds [] =
  exec (fast_nonmarkov tb g prov i0 (Some r0') rho tmin tmax full fuel) ds [].
Proof. exact esir_r0_order_indep. Qed.

Theorem C18x_fast_SIR_const_initial_recovereds_order_irrelevant : forall g tau gamma i0 r0 r0' rho tmin tmax full fuel ds,
  Permutation r0 r0' ->
  bexec (fast_sir_const g tau gamma i0 (Some r0) rho tmin tmax full fuel) ds [] =
  bexec (fast_sir_const g tau gamma i0 (Some r0') rho tmin tmax full fuel) ds [].
Proof. exact fast_sir_const_r0_order_indep. Qed.

(* `sorted(spontaneous_transition_graph.edges())`: with sortable statuses the simulator is
   the same program whatever order the transition graphs list their (distinct) edges in *)
Theorem C18x_simple_transition_order_irrelevant_when_sortable :
  forall g spont spont' induced induced' ic rstat tmin tmax full fuel,
  Permutation spont spont' -> Permutation induced induced' ->
  NoDup (map trans_key spont) -> NoDup (map trans_key induced) ->
  simple g true spont induced ic rstat tmin tmax full fuel = simple g true spont' induced' ic rstat tmin tmax full fuel.
Proof. exact simple_transition_order_indep. Qed.

(* ---------------- witnesses and non-vacuity ---------------- *)
(* `for u in initial_infecteds:` assigns the heap counters: with random delays the ORDER of
   the initial nodes decides which node receives which draw.  Path 0 - 1 and an isolated
   node 2, fast_SIR (weighted-path model), same script, initial_infecteds [0;2] vs [2;0]:
   different traces and different epidemics.  The order of that container is an input of
   the run (a Python set of string-named nodes iterates in PYTHONHASHSEED order: the
   caller's choice of container, see the report). *)
Definition gp : graph :=
  mkGraph [0;1;2]%N (fun u => if N.eqb u 0 then [1]%N else if N.eqb u 1 then [0]%N else [])
          (fun u => if N.eqb u 0 then [1]%N else if N.eqb u 1 then [0]%N else [])
          false (fun _ _ => 1) (fun _ => 1) false true.
Definition final_row (r : result (simout * list (node * option node)) * list call) : option (list Z) :=
  match fst r with Ok (o, _) => Some (snd (last (so_rows o) (0, []))) | Err _ => None end.

Example C18x_esir_initial_infecteds_order_is_an_input :
  let a := exec (fast_sir_edge gp 1 1 (Some [0;2]%N) None None 0 None false 20) [3;1;2;1;1;1] [] in
  let b := exec (fast_sir_edge gp 1 1 (Some [2;0]%N) None None 0 None false 20) [3;1;2;1;1;1] [] in
  final_row a = Some [0;0;3]%Z /\ final_row b = Some [1;0;2]%Z /\ length (snd a) = 4%nat /\ length (snd b) = 3%nat.
Proof. vm_compute. repeat split. Qed.

(* unsortable statuses: the code keeps the transition graph's own edge order (and warns);
   one node, two spontaneous transitions 0->1 and 0->2 of equal rate, same script *)
Definition sp2 : list trans := [mkTr [0%N] [1%N] 1 WNone; mkTr [0%N] [2%N] 1 WNone].
Definition g1 : graph := mkGraph [0%N] (fun _ => []) (fun _ => []) false (fun _ _ => 1) (fun _ => 1) false false.
Definition rows_of (r : result simout * list call) : list (list Z) :=
  match fst r with Ok o => map snd (so_rows o) | Err _ => [] end.

Example C18x_simple_unsortable_order_is_an_input :
  rows_of (exec (simple g1 false sp2 [] (fun _ => 0%N) [0;1;2]%N 0 (Some 1) false 5) [1#2; 1#4; 0; 5] []) = [[1;0;0]; [0;1;0]]%Z /\
  rows_of (exec (simple g1 false (rev sp2) [] (fun _ => 0%N) [0;1;2]%N 0 (Some 1) false 5) [1#2; 1#4; 0; 5] []) = [[1;0;0]; [0;0;1]]%Z /\
  rows_of (exec (simple g1 true (rev sp2) [] (fun _ => 0%N) [0;1;2]%N 0 (Some 1) false 5) [1#2; 1#4; 0; 5] []) = [[1;0;0]; [0;1;0]]%Z /\
  NoDup (map trans_key sp2) /\ Permutation sp2 (rev sp2).
Proof.
  split; [vm_compute; reflexivity|]. split; [vm_compute; reflexivity|]. split; [vm_compute; reflexivity|]. split.
  - repeat constructor; cbn; intuition discriminate.
  - apply perm_swap.
Qed.

(* the escape of [sflag_rel] is real: return_statuses = [0] does not cover status 1, the
   plain mode returns, the full-data mode raises KeyError in Simulation_Investigation --
   after the same three calls to the random source *)
Example C18x_simple_full_data_can_fail_after_the_last_draw :
  let a := exec (simple g1 true sp2 [] (fun _ => 0%N) [0%N] 0 (Some 1) true 5) [1#2; 1#4; 0; 5] [] in
  let b := exec (simple g1 true sp2 [] (fun _ => 0%N) [0%N] 0 (Some 1) false 5) [1#2; 1#4; 0; 5] [] in
  fst a = Err KeyErr /\ rows_of b = [[1]; [0]]%Z /\ snd a = snd b /\ length (snd a) = 3%nat.
Proof. vm_compute. repeat split. Qed.

(* a run in which both modes return and draws are made *)
Example C18x_esir_flag_example :
  let a := exec (fast_sir_edge gp 1 1 (Some [0]%N) (Some [2]%N) None 0 None true 20) [3;1;2;1] [] in
  let b := exec (fast_sir_edge gp 1 1 (Some [0]%N) (Some [2]%N) None 0 None false 20) [3;1;2;1] [] in
  snd a = snd b /\ length (snd a) = 3%nat /\ final_row a = Some [0;0;3]%Z /\ final_row b = Some [0;0;3]%Z.
Proof. vm_compute. repeat split. Qed.

Print Assumptions C18x_same_script_same_output.
Print Assumptions C18x_same_calls_same_draws.
Print Assumptions C18x_esir_full_data_flag_independent.
Print Assumptions C18x_fast_SIR_edge_path_flag_independent.
Print Assumptions C18x_fast_SIR_const_path_flag_independent.
Print Assumptions C18x_esir_flag_tables_both_return.
Print Assumptions C18x_simple_full_data_flag_independent.
Print Assumptions C18x_complex_full_data_flag_independent.
Print Assumptions C18x_esir_initial_recovereds_order_irrelevant.
Print Assumptions C18x_fast_SIR_const_initial_recovereds_order_irrelevant.
Print Assumptions C18x_simple_transition_order_irrelevant_when_sortable.
Print Assumptions C18x_esir_initial_infecteds_order_is_an_input.
Print Assumptions C18x_simple_unsortable_order_is_an_input.
Print Assumptions C18x_simple_full_data_can_fail_after_the_last_draw.
Print Assumptions C18x_esir_flag_example.
