(* C07 (SIR hierarchy and preferential mixing) -- statements only; proofs in Proofs/C07xPoly.v, C07xHier.v, C07xIC.v,
   C07xPref.v, C07xMf.v, C07xCed.v, C07xCedIC.v, C07xEd.v, C07xEdIC.v.  Joins the obligations of property C07 (harness/c07x.py, called from harness/c07.py).

   Form of every equivalence: for the two models "small" (state x) and "big" (state X) and a change of variables
   Phi : x |-> X whose components are POLYNOMIALS in theta (coefficient lists, Model/Pgf.v),
        rhs_big (Phi x)  =  DPhi(x) . rhs_small x                       for every state x of the small system,
   where DPhi(x) . v = (formal derivative of every component)(theta) * v_theta (`pm_push`).  This says (i) the image
   of Phi is an invariant manifold of the big system (its vector field there is tangent to the manifold) and (ii) the
   field induced on it is the small system's.  No chain rule is assumed: C07x_formal_derivative_is_derivative proves,
   once and for every polynomial map, that pm_push is the derivative of pm_eval (first-order Taylor expansion with a
   polynomial remainder), and C07x_derivative_laws that it obeys the sum, scalar, Leibniz and power rules.
   rhs_small / rhs_big are the definitions GENERATED from EoN/analytic.py (Gen/Rhs.v) for EBCM, SIR super-compact
   pairwise, SIR compact pairwise, SIR compact effective degree, EBCM_discrete; the preferential-mixing routines
   (dict-based code) are hand-written models in Model/Pgf.v tied by point evaluation on every run.
   What stays cited: the lift from corresponding vector fields + corresponding initial points to coinciding curves
   (Picard-Lindeloef uniqueness), for the continuous-time models.  The discrete-time pair is an exact recurrence and
   is proved for every number of steps.  The (s,i) effective degree model is the hand-written Model/Rhs2D.v definition
   (C07x_ebcm_to_effective_degree) and the definition generated from the source (C07x_ebcm_to_effective_degree_generated).
   Every wrapper of the hierarchy is shown to start at the manifold point Phi(theta = 1, R = 0) on the rho path. *)
From EoNV Require Import Prelude Graph Vec VecP Aux AuxP IC Wrappers ICP Pgf C07xPoly C07xHier C07xIC C07xPref C07xMf C07xCed C07xCedIC C07xEd C07xEdIC C07xReg C07xCurves Rhs Rhs2D Rhs2DP Rhs2.

(* ---------- the formal derivative is the derivative ---------- *)
Theorem C07x_formal_derivative_is_derivative : forall (F : pmap) x h,
  veq (pm_eval F (x + h))
      (vadd (vadd (pm_eval F x) (pm_push F x h)) (smul (h * h) (map (fun p => pdq2 p x (x + h)) F))).
Proof. exact pm_taylor1. Qed.
Theorem C07x_derivative_laws : forall p q a n x,
  peval (padd p q) x == peval p x + peval q x /\ peval (pscale a p) x == a * peval p x /\
  peval (pmul p q) x == peval p x * peval q x /\ peval (ppow p n) x == qpow (peval p x) (Z.of_nat n) /\
  D (padd p q) x == D p x + D q x /\ D (pscale a p) x == a * D p x /\
  D (pmul p q) x == D p x * peval q x + peval p x * D q x /\
  D (ppow p (S n)) x == Qnat (S n) * peval (ppow p n) x * D p x.
Proof. exact derivative_laws. Qed.

(* ---------- SIR hierarchy ---------- *)
(* psihat(x) = sum c_k x^k.  ps, psP, psDP are the function arguments of the code; they only have to agree with the
   polynomial and its formal derivatives at the points where the code evaluates them (theta and 1). *)

(* super-compact pairwise (theta, SS, SI, R) -> compact pairwise (S_k = N c_k theta^k, SS, SI, R): a 4-dimensional
   invariant manifold of the compact pairwise system, for ALL SS, SI, R *)
Theorem C07x_super_compact_to_compact : forall c t N tau g (ps psP psDP : Q -> Q) theta SS SI R,
  ps theta == peval c theta -> psP theta == D c theta -> psDP theta == D (pderiv c) theta ->
  ~ N == 0 -> ~ theta == 0 -> ~ D c theta == 0 ->
  let sc := dSIR_super_compact_pairwise [theta; SS; SI; R] t tau g ps psP psDP N in
  veq (dSIR_compact_pairwise (Psi_cp c N theta SS SI R) t N tau g)
      (DPsi_cp c N theta (vnth 0 sc) (vnth 1 sc) (vnth 2 sc) (vnth 3 sc)).
Proof. exact super_compact_to_compact. Qed.

(* EBCM (theta, R) -> super-compact pairwise: SS = N psihat'(theta) phi_S, SI = N psihat'(theta) phi_I with
   phi_S = phiS0 psihat'(theta)/psihat'(1), phi_R = phiR0 + gamma(1-theta)/tau, phi_I = theta - phi_S - phi_R *)
Theorem C07x_ebcm_to_super_compact : forall c t N tau g phiS0 phiR0 (ps psP psDP : Q -> Q) theta R,
  ps theta == peval c theta -> psP theta == D c theta -> psP 1 == D c 1 -> psDP theta == D (pderiv c) theta ->
  ~ tau == 0 -> ~ N == 0 -> ~ D c theta == 0 -> ~ D c 1 == 0 ->
  let e := dEBCM [theta; R] t N tau g ps psP phiS0 phiR0 in
  veq (dSIR_super_compact_pairwise (Phi_sc c N tau g phiS0 phiR0 theta R) t tau g ps psP psDP N)
      (DPhi_sc c N tau g phiS0 phiR0 theta (vnth 0 e) (vnth 1 e)).
Proof. exact ebcm_to_super_compact. Qed.

(* EBCM (theta, R) -> compact pairwise *)
Theorem C07x_ebcm_to_compact : forall c t N tau g phiS0 phiR0 (ps psP : Q -> Q) theta R,
  ps theta == peval c theta -> psP theta == D c theta -> psP 1 == D c 1 ->
  ~ tau == 0 -> ~ N == 0 -> ~ theta == 0 -> ~ D c theta == 0 -> ~ D c 1 == 0 ->
  let e := dEBCM [theta; R] t N tau g ps psP phiS0 phiR0 in
  veq (dSIR_compact_pairwise (Phi_cp c N tau g phiS0 phiR0 theta R) t N tau g)
      (DPhi_cp c N tau g phiS0 phiR0 theta (vnth 0 e) (vnth 1 e)).
Proof. exact ebcm_to_compact. Qed.

(* the returned series agree on the manifold: S = sum_k S_k = N psihat(theta), R = R, theta = theta
   (EBCM and super-compact pairwise both return S = N psihat(theta), I = N - S - R) *)
Theorem C07x_outputs_agree : forall c N tau g phiS0 phiR0 theta R,
  vsum (drop_last 3 (Phi_cp c N tau g phiS0 phiR0 theta R)) == N * peval c theta /\
  vnth 2 (take_last 3 (Phi_cp c N tau g phiS0 phiR0 theta R)) == R /\
  vnth 0 (Phi_sc c N tau g phiS0 phiR0 theta R) == theta /\ vnth 3 (Phi_sc c N tau g phiS0 phiR0 theta R) == R.
Proof. exact outputs_agree. Qed.

(* EBCM (theta, R) -> compact effective degree (S_kappa, R, SI):  S_kappa = N sum_k c_k C(k,kappa) u^kappa v^(k-kappa) with
   u = theta - phi_R (a neighbour not yet recovered), v = phi_R; SI = N psihat'(theta) phi_I.  Every S_kappa is a polynomial in
   theta (Pgf.ced_sum); the proof goes through the binomial moments sum_kappa S_kappa = N psihat(theta),
   sum kappa S_kappa = N u psihat'(theta), sum kappa(kappa-1) S_kappa = N u^2 psihat''(theta) and the absorption identity
   (kappa+1) C(k,kappa+1) = (k-kappa) C(k,kappa) for the scipy.ndimage.shift term.  u <> 0: the code divides by sum kappa S_kappa *)
Theorem C07x_ebcm_to_compact_effective_degree : forall c t N tau g phiS0 phiR0 (ps psP : Q -> Q) theta R,
  ps theta == peval c theta -> psP theta == D c theta -> psP 1 == D c 1 ->
  ~ tau == 0 -> ~ N == 0 -> ~ peval (u_p tau g phiR0) theta == 0 -> ~ D c theta == 0 -> ~ D c 1 == 0 ->
  let e := dEBCM [theta; R] t N tau g ps psP phiS0 phiR0 in
  veq (dSIR_compact_effective_degree (Phi_ced c N tau g phiS0 phiR0 theta R) t N tau g)
      (DPhi_ced c N tau g phiS0 phiR0 theta (vnth 0 e) (vnth 1 e)).
Proof. exact ebcm_to_ced. Qed.

(* EBCM (theta, R) -> effective degree (S_{s,i}, R), shape (K, K), K = number of degree classes:
   S_{s,i} = N sum_k c_k C(k,s) C(k-s,i) phiS^s phiI^i phiR^(k-s-i) (trinomial; every entry a polynomial in theta, Pgf.ed_sum).
   Proof: trinomial moments sum S = N psihat, sum s S = N phiS psihat', sum i s S = N phiS phiI psihat'' (from the binomial
   moments, twice), absorption identities for the two shifted entries, boundary entries vanish on the manifold.
   The only non-degeneracy hypotheses are the divisors of the code: phiS <> 0 and psihat'(theta) <> 0 (sum s S_{s,i} = N psihat' phiS),
   psihat'(1) <> 0 (EBCM), N <> 0, and tau <> 0 (phi_R = phiR0 + gamma (1-theta)/tau). *)
Theorem C07x_ebcm_to_effective_degree : forall c t N tau g phiS0 phiR0 (ps psP : Q -> Q) theta R,
  ps theta == peval c theta -> psP theta == D c theta -> psP 1 == D c 1 ->
  ~ tau == 0 -> ~ N == 0 -> ~ peval (phiS_p c phiS0) theta == 0 -> ~ D c theta == 0 -> ~ D c 1 == 0 ->
  let e := dEBCM [theta; R] t N tau g ps psP phiS0 phiR0 in
  veq (dSIR_effective_degree (Phi_ed c N tau g phiS0 phiR0 theta R) N (length c) (length c) tau g t)
      (DPhi_ed c N tau g phiS0 phiR0 theta (vnth 0 e) (vnth 1 e)).
Proof. exact ebcm_to_ed. Qed.
Theorem C07x_ebcm_to_effective_degree_generated : forall c t N tau g phiS0 phiR0 (ps psP : Q -> Q) theta R,
  ps theta == peval c theta -> psP theta == D c theta -> psP 1 == D c 1 ->
  ~ tau == 0 -> ~ N == 0 -> ~ peval (phiS_p c phiS0) theta == 0 -> ~ D c theta == 0 -> ~ D c 1 == 0 ->
  let e := dEBCM [theta; R] t N tau g ps psP phiS0 phiR0 in
  veq (g_dSIR_effective_degree (Phi_ed c N tau g phiS0 phiR0 theta R) t N (length c, length c) tau g)
      (DPhi_ed c N tau g phiS0 phiR0 theta (vnth 0 e) (vnth 1 e)).
Proof. exact ebcm_to_ed_generated. Qed.

(* returned series of the two effective degree models on their manifolds: S = sum of the S block = N psihat(theta), R = R *)
Theorem C07x_effective_degree_outputs_agree : forall c N tau g phiS0 phiR0 theta R,
  (vsum (drop_last 2 (Phi_ced c N tau g phiS0 phiR0 theta R)) == N * peval c theta /\
   vnth 0 (take_last 2 (Phi_ced c N tau g phiS0 phiR0 theta R)) == R) /\
  (vsum (drop_last 1 (Phi_ed c N tau g phiS0 phiR0 theta R)) == N * peval c theta /\
   vnth 0 (take_last 1 (Phi_ed c N tau g phiS0 phiR0 theta R)) == R).
Proof. exact ed_outputs_both. Qed.

(* ---------- the wrappers, rho path: closures and initial points ---------- *)
(* psihat, psihatPrime, psihatDPrime as written in EBCM_from_graph / SIR_super_compact_pairwise_from_graph are the
   polynomial with coefficients (1-rho) P_k and its first and second formal derivatives *)
Theorem C07x_wrapper_closures_are_polynomials : forall g rho x, wf_ugraph g = true ->
  fg_psihat g rho x == peval (fg_coeffs g rho) x /\
  (~ x == 0 -> fg_psihatPrime g rho x == D (fg_coeffs g rho) x /\ fg_psihatDPrime g rho x == D (pderiv (fg_coeffs g rho)) x).
Proof. exact wrapper_closures_are_polynomials. Qed.
(* EBCM_from_graph(G, rho=..) = EBCM(N, psihat, ..) whose solver starts at [1; 0] (Wrappers.EBCM: sv [1; R0]) *)
Theorem C07x_EBCM_from_graph_rho : forall g rho_opt full sv,
  EBCM_from_graph g (mkReq None None rho_opt) full sv = Ok (EBCM (gN g) (fg_psihat g (rho_or_default g rho_opt)) 0 full sv).
Proof. exact EBCM_fg_rho. Qed.
(* SIR_super_compact_pairwise_from_graph starts at Phi_sc(theta = 1, R = 0) *)
Theorem C07x_super_compact_from_graph_on_manifold : forall g rho_opt tau gam,
  let r := rho_or_default g rho_opt in let c := fg_coeffs g r in
  wf_ugraph g = true -> ~ D c 1 == 0 ->
  exists SS0 SI0 R0, (forall full sv,
    SIR_super_compact_pairwise_from_graph g (mkReq None None rho_opt) full sv
      = Ok (SIR_super_compact_pairwise R0 SS0 SI0 (gN g) (fg_psihat g r) full sv)) /\
    veq [1; SS0; SI0; R0] (Phi_sc c (gN g) tau gam (fg_phiS0 r) fg_phiR0 1 0).
Proof. exact super_compact_fg_rho. Qed.
(* SIR_compact_pairwise_from_graph starts at Phi_cp(theta = 1, R = 0), with N = G.order() *)
Theorem C07x_compact_from_graph_on_manifold : forall g rho_opt tau gam,
  let r := rho_or_default g rho_opt in let c := fg_coeffs g r in
  wf_ugraph g = true -> ~ D c 1 == 0 ->
  exists Sk0 I0 R0 SS0 SI0, (forall full sv,
    SIR_compact_pairwise_from_graph g (mkReq None None rho_opt) full sv = Ok (SIR_compact_pairwise Sk0 I0 R0 SS0 SI0 full sv)) /\
    veq (Sk0 ++ [SS0; SI0; R0]) (Phi_cp c (gN g) tau gam (fg_phiS0 r) fg_phiR0 1 0) /\
    I0 + R0 + vsum Sk0 == gN g.
Proof. exact compact_fg_rho. Qed.
(* SIR_compact_effective_degree_from_graph starts at Phi_ced(theta = 1, R = 0), with N = G.order() *)
Theorem C07x_compact_effective_degree_from_graph_on_manifold : forall g rho_opt tau gam,
  let r := rho_or_default g rho_opt in let c := fg_coeffs g r in
  wf_ugraph g = true -> ~ D c 1 == 0 ->
  exists Skappa0 I0 R0 SI0, (forall full sv,
    SIR_compact_effective_degree_from_graph g (mkReq None None rho_opt) full sv = Ok (SIR_compact_effective_degree Skappa0 I0 R0 SI0 full sv)) /\
    veq (Skappa0 ++ [R0; SI0]) (Phi_ced c (gN g) tau gam (fg_phiS0 r) fg_phiR0 1 0) /\
    vsum Skappa0 + I0 + R0 == gN g.
Proof. exact ced_fg_rho. Qed.
(* SIR_effective_degree_from_graph starts at Phi_ed(theta = 1, R = 0): its table (1-rho) N_{s+i} C(s+i,i) rho^i (1-rho)^s *)
Theorem C07x_effective_degree_from_graph_on_manifold : forall g rho_opt tau gam,
  let r := rho_or_default g rho_opt in let c := fg_coeffs g r in
  wf_ugraph g = true -> ~ D c 1 == 0 ->
  exists Ssi0 I0 R0, (forall full sv,
    SIR_effective_degree_from_graph g (mkReq None None rho_opt) full sv = Ok (SIR_effective_degree Ssi0 I0 R0 full sv)) /\
    veq (flatten Ssi0 ++ [R0]) (Phi_ed c (gN g) tau gam (fg_phiS0 r) fg_phiR0 1 0) /\
    msum Ssi0 + I0 + R0 == gN g.
Proof. exact ed_fg_rho. Qed.
(* the hierarchy identities with exactly the closures and constants the wrappers pass *)
Theorem C07x_hierarchy_from_graph : forall g rho_opt t tau gam theta R,
  wf_ugraph g = true ->
  let r := rho_or_default g rho_opt in let c := fg_coeffs g r in let N := gN g in
  ~ tau == 0 -> ~ theta == 0 -> ~ D c theta == 0 -> ~ D c 1 == 0 ->
  let e := dEBCM [theta; R] t N tau gam (fg_psihat g r) (fg_psihatPrime g r) (fg_phiS0 r) fg_phiR0 in
  veq (dSIR_compact_pairwise (Phi_cp c N tau gam (fg_phiS0 r) fg_phiR0 theta R) t N tau gam)
      (DPhi_cp c N tau gam (fg_phiS0 r) fg_phiR0 theta (vnth 0 e) (vnth 1 e)) /\
  veq (dSIR_super_compact_pairwise (Phi_sc c N tau gam (fg_phiS0 r) fg_phiR0 theta R) t tau gam
         (fg_psihat g r) (fg_psihatPrime g r) (fg_psihatDPrime g r) N)
      (DPhi_sc c N tau gam (fg_phiS0 r) fg_phiR0 theta (vnth 0 e) (vnth 1 e)).
Proof. exact hierarchy_from_graph. Qed.

(* the effective degree pair with the wrappers' closures (effective degree: the definition generated from the source) *)
Theorem C07x_effective_degree_from_graph : forall g rho_opt t tau gam theta R,
  wf_ugraph g = true ->
  let r := rho_or_default g rho_opt in let c := fg_coeffs g r in let N := gN g in
  ~ tau == 0 -> ~ theta == 0 -> ~ D c theta == 0 -> ~ D c 1 == 0 ->
  ~ peval (phiS_p c (fg_phiS0 r)) theta == 0 -> ~ peval (u_p tau gam fg_phiR0) theta == 0 ->
  let e := dEBCM [theta; R] t N tau gam (fg_psihat g r) (fg_psihatPrime g r) (fg_phiS0 r) fg_phiR0 in
  veq (dSIR_compact_effective_degree (Phi_ced c N tau gam (fg_phiS0 r) fg_phiR0 theta R) t N tau gam)
      (DPhi_ced c N tau gam (fg_phiS0 r) fg_phiR0 theta (vnth 0 e) (vnth 1 e)) /\
  veq (g_dSIR_effective_degree (Phi_ed c N tau gam (fg_phiS0 r) fg_phiR0 theta R) t N (length c, length c) tau gam)
      (DPhi_ed c N tau gam (fg_phiS0 r) fg_phiR0 theta (vnth 0 e) (vnth 1 e)).
Proof. exact effective_degree_from_graph. Qed.

(* ---------- preferential mixing, uncorrelated: P(k'|k) = k' P(k') / <k> ---------- *)
(* continuous time: _dEBCM_pref_mix_ on {theta_k = theta, phiR_k = gamma(1-theta)/tau, R/N} is the push-forward of _dEBCM_
   with psihat = (1-rho) psi, psihat' = (1-rho) psi', phiS0 = 1-rho, phiR0 = 0 (what EBCM_uniform_introduction passes) *)
Theorem C07x_prefmix_uncorrelated_cts : forall (Pk : pkdict) rho tau g N t theta R,
  ~ tau == 0 -> ~ N == 0 -> ~ 1 - rho == 0 -> ~ pk_mean Pk == 0 ->
  let e := dEBCM [theta; R] t N tau g (fun x => (1 - rho) * pk_psi Pk x) (fun x => (1 - rho) * pk_psiP Pk x) (1 - rho) 0 in
  veq (dEBCM_pref_mix (Phi_pm Pk N tau g theta R) t rho tau g Pk (uncorrelated Pk))
      (DPhi_pm Pk N tau g (vnth 0 e) (vnth 1 e)).
Proof. exact prefmix_uncorrelated_cts. Qed.
(* Phi_pm is a polynomial (affine) map of theta and DPhi_pm its formal derivative; the initial point [0,1,0,1,0,..] is Phi_pm(1,0) *)
Theorem C07x_prefmix_embedding : forall Pk N tau g theta R,
  veq (Phi_pm Pk N tau g theta R) ((R / N) :: pm_eval (pm_p Pk tau g) theta) /\
  forall dth dR, veq (DPhi_pm Pk N tau g dth dR) ((dR / N) :: pm_push (pm_p Pk tau g) theta dth).
Proof. exact Phi_pm_poly. Qed.
(* EBCM_pref_mix starts at Phi_pm(1, 0) (IC = [0, 1, 0, 1, 0, ..]) and on the subspace returns EBCM's S = N psihat(theta) and R *)
Theorem C07x_prefmix_initial_point_and_outputs : forall Pk N rho tau g theta R,
  veq (pm_IC Pk) (Phi_pm Pk N tau g 1 0) /\
  (~ N == 0 -> pm_out_S Pk N rho (Phi_pm Pk N tau g theta R) == N * ((1 - rho) * pk_psi Pk theta) /\
               pm_out_R N (Phi_pm Pk N tau g theta R) == R).
Proof. exact prefmix_initial_point_and_outputs. Qed.
(* discrete time: EBCM_pref_mix_discrete and EBCM_discrete (as EBCM_discrete_uniform_introduction calls it: R0 = 0,
   phiR0 = 0, phiS0 = 1-rho) run in lock-step for EVERY number of steps: same theta (all classes), R, S, I *)
Theorem C07x_prefmix_uncorrelated_discrete : forall (Pk : pkdict) rho p N,
  ~ p == 0 -> ~ 1 - rho == 0 -> ~ pk_mean Pk == 0 -> dsum Pk (fun _ q => q) == 1 -> forall n,
  pmd_rel Pk rho p (pmd_loop N rho p Pk (uncorrelated Pk) n)
          (EBCM_discrete_loop 0 N (fun x => (1 - rho) * pk_psi Pk x) p 0 (1 - rho) (fun x => (1 - rho) * pk_psiP Pk x) n).
Proof. exact prefmix_uncorrelated_discrete. Qed.
(* the same with the relation written out: after n passes R, S, I and every theta_k of EBCM_pref_mix_discrete equal EBCM_discrete's
   (EBCM_discrete_loop returns (theta, R, S, I)) *)
Theorem C07x_prefmix_discrete_outputs : forall (Pk : pkdict) rho p N,
  ~ p == 0 -> ~ 1 - rho == 0 -> ~ pk_mean Pk == 0 -> dsum Pk (fun _ q => q) == 1 -> forall n,
  let st := pmd_loop N rho p Pk (uncorrelated Pk) n in
  let e := EBCM_discrete_loop 0 N (fun x => (1 - rho) * pk_psi Pk x) p 0 (1 - rho) (fun x => (1 - rho) * pk_psiP Pk x) n in
  pd_R st == snd (fst (fst e)) /\ pd_S st == snd (fst e) /\ pd_I st == snd e /\
  forall k, In k (map fst Pk) -> plookup k (pd_theta st) == fst (fst (fst e)).
Proof. exact prefmix_discrete_outputs. Qed.
(* psi, psi' of a dict are a polynomial and its formal derivative *)
Theorem C07x_dict_pgf_is_polynomial : forall d x, NoDup (map fst d) ->
  pk_psi d x == peval (pk_coeffs d) x /\ (~ x == 0 -> pk_psiP d x == D (pk_coeffs d) x).
Proof. exact dict_pgf_is_polynomial. Qed.

(* ---------- regular graphs: heterogeneous mean-field SIR -> homogeneous mean-field SIR, chain rule no longer assumed ---------- *)
(* supersedes C07_lump_SIR_heterogeneous_meanfield_regular_partial: (theta, r) |-> (S, I) = (s0 theta^k, N - s0 theta^k - r);
   the push-forward of the big field uses the formal derivative of the polynomial s0 x^k *)
Theorem C07x_lump_SIR_heterogeneous_meanfield_regular : forall t tau g k theta r s0 N,
  ~ Qnat k == 0 -> ~ N == 0 -> ~ theta == 0 ->
  let Sp := pmono s0 k in
  let S := peval Sp theta in
  let I := N - S - r in
  let small := dSIR_homogeneous_meanfield [S; I] t (Qnat k / N) tau g in
  let big := dSIR_heterogeneous_meanfield ([theta] ++ unitv k r) t (unitv k s0) (unitv k N) tau g in
  D Sp theta * vnth 0 big == vnth 0 small /\
  - (D Sp theta * vnth 0 big) - g * I == vnth 1 small /\
  veq (slice_from 1 big) (unitv k (g * I)).
Proof. exact lump_SIR_heterogeneous_meanfield_regular. Qed.
Example C07x_nonvacuous_lump_SIR_hmf :
  ~ Qnat 3 == 0 /\ ~ vnth 0 (dSIR_heterogeneous_meanfield ([1 # 2] ++ unitv 3 1) 0 (unitv 3 9) (unitv 3 10) (1 # 2) 1) == 0.
Proof. split; intro H; vm_compute in H; discriminate. Qed.

(* ---------- the returned series, with the cited lift as an explicit hypothesis ---------- *)
(* Solvers are abstract (Wrappers.solver: initial vector -> time index -> state).  (theta_t, R_t) is what the EBCM solver returns from
   [1; 0].  Hypothesis (what Picard-Lindeloef uniqueness yields from the vector-field and initial-point theorems above): started at
   any vector equal to Phi(1, 0), the big model's solver returns Phi(theta_t, R_t).  Conclusion: the S, I, R series RETURNED by the
   big wrapper and by EBCM_from_graph are equal at every time index -- which vector each wrapper hands to its solver, how it slices
   the rows into S, I, R and which N it uses are all proved. *)
Theorem C07x_returned_series_compact_pairwise : forall g rho_opt tau gam, wf_ugraph g = true ->
  let r := rho_or_default g rho_opt in let rq := mkReq None None rho_opt in let N := gN g in let c := fg_coeffs g r in
  ~ D c 1 == 0 -> forall sv_e : solver,
  let th := fun t => vnth 0 (sv_e [1; 0] t) in let Rr := fun t => vnth 1 (sv_e [1; 0] t) in
  let Se := fun t => N * fg_psihat g r (th t) in let Ie := fun t => N - Se t - Rr t in
  forall sv : solver,
  (forall X0, veq X0 (Phi_cp c N tau gam (fg_phiS0 r) fg_phiR0 1 0) -> forall t, veq (sv X0 t) (Phi_cp c N tau gam (fg_phiS0 r) fg_phiR0 (th t) (Rr t))) ->
  EBCM_from_graph g rq false sv_e = Ok [(nS, Sc Se); (nI, Sc Ie); (nR, Sc Rr)] /\
  exists S I R, SIR_compact_pairwise_from_graph g rq false sv = Ok [(nS, Sc S); (nI, Sc I); (nR, Sc R)] /\
    forall t, S t == Se t /\ I t == Ie t /\ R t == Rr t.
Proof. exact returned_series_compact_pairwise. Qed.
Theorem C07x_returned_series_super_compact_pairwise : forall g rho_opt tau gam, wf_ugraph g = true ->
  let r := rho_or_default g rho_opt in let rq := mkReq None None rho_opt in let N := gN g in let c := fg_coeffs g r in
  ~ D c 1 == 0 -> forall sv_e : solver,
  let th := fun t => vnth 0 (sv_e [1; 0] t) in let Rr := fun t => vnth 1 (sv_e [1; 0] t) in
  let Se := fun t => N * fg_psihat g r (th t) in let Ie := fun t => N - Se t - Rr t in
  forall sv : solver,
  (forall X0, veq X0 (Phi_sc c N tau gam (fg_phiS0 r) fg_phiR0 1 0) -> forall t, veq (sv X0 t) (Phi_sc c N tau gam (fg_phiS0 r) fg_phiR0 (th t) (Rr t))) ->
  EBCM_from_graph g rq false sv_e = Ok [(nS, Sc Se); (nI, Sc Ie); (nR, Sc Rr)] /\
  exists S I R, SIR_super_compact_pairwise_from_graph g rq false sv = Ok [(nS, Sc S); (nI, Sc I); (nR, Sc R)] /\
    forall t, S t == Se t /\ I t == Ie t /\ R t == Rr t.
Proof. exact returned_series_super_compact_pairwise. Qed.
Theorem C07x_returned_series_compact_effective_degree : forall g rho_opt tau gam, wf_ugraph g = true ->
  let r := rho_or_default g rho_opt in let rq := mkReq None None rho_opt in let N := gN g in let c := fg_coeffs g r in
  ~ D c 1 == 0 -> forall sv_e : solver,
  let th := fun t => vnth 0 (sv_e [1; 0] t) in let Rr := fun t => vnth 1 (sv_e [1; 0] t) in
  let Se := fun t => N * fg_psihat g r (th t) in let Ie := fun t => N - Se t - Rr t in
  forall sv : solver,
  (forall X0, veq X0 (Phi_ced c N tau gam (fg_phiS0 r) fg_phiR0 1 0) -> forall t, veq (sv X0 t) (Phi_ced c N tau gam (fg_phiS0 r) fg_phiR0 (th t) (Rr t))) ->
  EBCM_from_graph g rq false sv_e = Ok [(nS, Sc Se); (nI, Sc Ie); (nR, Sc Rr)] /\
  exists S I R, SIR_compact_effective_degree_from_graph g rq false sv = Ok [(nS, Sc S); (nI, Sc I); (nR, Sc R)] /\
    forall t, S t == Se t /\ I t == Ie t /\ R t == Rr t.
Proof. exact returned_series_compact_effective_degree. Qed.
Theorem C07x_returned_series_effective_degree : forall g rho_opt tau gam, wf_ugraph g = true ->
  let r := rho_or_default g rho_opt in let rq := mkReq None None rho_opt in let N := gN g in let c := fg_coeffs g r in
  ~ D c 1 == 0 -> forall sv_e : solver,
  let th := fun t => vnth 0 (sv_e [1; 0] t) in let Rr := fun t => vnth 1 (sv_e [1; 0] t) in
  let Se := fun t => N * fg_psihat g r (th t) in let Ie := fun t => N - Se t - Rr t in
  forall sv : solver,
  (forall X0, veq X0 (Phi_ed c N tau gam (fg_phiS0 r) fg_phiR0 1 0) -> forall t, veq (sv X0 t) (Phi_ed c N tau gam (fg_phiS0 r) fg_phiR0 (th t) (Rr t))) ->
  EBCM_from_graph g rq false sv_e = Ok [(nS, Sc Se); (nI, Sc Ie); (nR, Sc Rr)] /\
  exists S I R, SIR_effective_degree_from_graph g rq false sv = Ok [(nS, Sc S); (nI, Sc I); (nR, Sc R)] /\
    forall t, S t == Se t /\ I t == Ie t /\ R t == Rr t.
Proof. exact returned_series_effective_degree. Qed.

(* the lift hypothesis is satisfiable: the constant solvers (rows = initial vector) satisfy it, for every Phi *)
Example C07x_lift_nonvacuous : forall (Phi : Q -> Q -> vec) X0, veq X0 (Phi 1 0) -> forall t,
  veq (const_solver X0 t) (Phi (vnth 0 (const_solver [1; 0] t)) (vnth 1 (const_solver [1; 0] t))).
Proof. exact (fun Phi X0 H t => H). Qed.

(* ---------- regular graphs, rho path: the wrappers start at corresponding points of the symmetric subspace ---------- *)
(* regularb g k: every node has degree k.  r = rho (or 1/N), N = G.order().  The correspondences are the changes of variables of
   C07_lump_SIR/SIS_compact_pairwise_regular (Props/C07.v), C07_lump_SIS_heterogeneous_meanfield_regular and
   C07x_lump_SIR_heterogeneous_meanfield_regular at (theta, r) = (1, 0); also: the homogeneous pairwise wrappers' EoNError guard
   does not fire, n = k, and the N / Nk / twoM arguments agree. *)
Theorem C07x_SIR_pairwise_regular_initial_points : forall g k rho_opt,
  wf_ugraph g = true -> regularb g k = true ->
  let r := rho_or_default g rho_opt in let rq := mkReq None None rho_opt in let N := gN g in
  0 <= r -> r <= 1 ->
  let s := (1 - r) * N in let SS := (1 - r) * ((1 - r) * N * Qnat k) in let SI := r * ((1 - r) * N * Qnat k) in
  exists Sk0 I0 R0 SS0 SI0 S0' I0' SI0' SS0' n,
    (forall full sv, SIR_compact_pairwise_from_graph g rq full sv = Ok (SIR_compact_pairwise Sk0 I0 R0 SS0 SI0 full sv)) /\
    (forall full sv, SIR_homogeneous_pairwise_from_graph g rq full sv = SIR_homogeneous_pairwise S0' I0' 0 SI0' SS0' n full sv) /\
    Qltb (n * (S0' + I0' + 0)) (SS0' + 2 * SI0') = false /\
    veq (Sk0 ++ [SS0; SI0; R0]) (unitv k s ++ [SS; SI; 0]) /\
    veq [S0'; I0'; SI0'; SS0'] [s; N - s - 0; SI; SS] /\ n == Qnat k /\ I0 + R0 + vsum Sk0 == N.
Proof. exact SIR_pairwise_regular_ic. Qed.
Theorem C07x_SIS_pairwise_regular_initial_points : forall g k rho_opt,
  wf_ugraph g = true -> regularb g k = true ->
  let r := rho_or_default g rho_opt in let rq := mkReq None None rho_opt in let N := gN g in
  0 <= r -> r <= 1 ->
  let s := (1 - r) * N in let SS := (1 - r) * N * Qnat k * (1 - r) in let SI := (1 - r) * N * Qnat k * r in
  exists Sk0 Ik0 SI0 SS0 II0 S0' I0' SI0' SS0' n,
    (forall full sv, SIS_compact_pairwise_from_graph g rq full sv = Ok (SIS_compact_pairwise Sk0 Ik0 SI0 SS0 II0 full sv)) /\
    (forall full sv, SIS_homogeneous_pairwise_from_graph g rq full sv = SIS_homogeneous_pairwise S0' I0' SI0' SS0' n full sv) /\
    Qltb (n * (S0' + I0')) (SS0' + SI0' * 2) = false /\
    veq (Sk0 ++ [SI0; SS0]) (unitv k s ++ [SI; SS]) /\ veq (vadd Sk0 Ik0) (unitv k N) /\ SS0 + II0 + 2 * SI0 == N * Qnat k /\
    veq [S0'; SI0'; SS0'] [s; SI; SS] /\ S0' + I0' == N /\ n == Qnat k.
Proof. exact SIS_pairwise_regular_ic. Qed.
Theorem C07x_SIS_meanfield_regular_initial_points : forall g k rho_opt,
  wf_ugraph g = true -> regularb g k = true ->
  let r := rho_or_default g rho_opt in let rq := mkReq None None rho_opt in let N := gN g in
  0 <= r -> r <= 1 ->
  exists Sk0 Ik0 S0' I0',
    (forall full sv, SIS_heterogeneous_meanfield_from_graph g rq full sv = SIS_heterogeneous_meanfield Sk0 Ik0 full sv) /\
    (forall sv, SIS_homogeneous_meanfield_from_graph g rq sv = Ok (SIS_homogeneous_meanfield S0' I0' sv)) /\
    veq (Sk0 ++ Ik0) (unitv k ((1 - r) * N) ++ unitv k (r * N)) /\ veq [S0'; I0'] [(1 - r) * N; r * N].
Proof. exact SIS_meanfield_regular_ic. Qed.
Theorem C07x_SIR_meanfield_regular_initial_points : forall g k rho_opt,
  wf_ugraph g = true -> regularb g k = true ->
  let r := rho_or_default g rho_opt in let rq := mkReq None None rho_opt in let N := gN g in
  0 <= r -> r <= 1 ->
  exists Sk0 Ik0 Rk0 S0' I0',
    (forall full sv, SIR_heterogeneous_meanfield_from_graph g rq full sv = SIR_heterogeneous_meanfield Sk0 Ik0 Rk0 full sv) /\
    (forall sv, SIR_homogeneous_meanfield_from_graph g rq sv = Ok (SIR_homogeneous_meanfield S0' I0' 0 sv)) /\
    veq (1 :: Rk0) ([1] ++ unitv k 0) /\ veq Sk0 (unitv k ((1 - r) * N)) /\ veq (vadd (vadd Sk0 Ik0) Rk0) (unitv k N) /\
    veq [S0'; I0'] [(1 - r) * N * qpow 1 (Z.of_nat k); N - (1 - r) * N * qpow 1 (Z.of_nat k) - 0].
Proof. exact SIR_meanfield_regular_ic. Qed.
(* the triangle is a well-formed 2-regular graph *)
Example C07x_nonvacuous_regular : wf_ugraph tri_graph = true /\ regularb tri_graph 2 = true.
Proof. split; vm_compute; reflexivity. Qed.

(* ---------- non-vacuity ---------- *)
(* P = (0, 1/4, 1/2, 1/4), rho = 1/10, N = 100, tau = 1/2, gamma = 1, theta = 1/2, R = 3: the hypotheses hold and the
   compact pairwise field on the manifold is not zero *)
(* ex_c = (9/10) * (0, 1/4, 1/2, 1/4)  (Proofs/C07xIC.v) *)
Example C07x_nonvacuous_hierarchy :
  ~ D ex_c (1 # 2) == 0 /\ ~ D ex_c 1 == 0 /\
  (let e := dEBCM [1 # 2; 3] 0 100 (1 # 2) 1 (peval ex_c) (peval (pderiv ex_c)) (9 # 10) 0 in
   ~ vnth 0 e == 0 /\
   veq (dSIR_compact_pairwise (Phi_cp ex_c 100 (1 # 2) 1 (9 # 10) 0 (1 # 2) 3) 0 100 (1 # 2) 1)
       (DPhi_cp ex_c 100 (1 # 2) 1 (9 # 10) 0 (1 # 2) (vnth 0 e) (vnth 1 e)) /\
   ~ vnth 1 (dSIR_compact_pairwise (Phi_cp ex_c 100 (1 # 2) 1 (9 # 10) 0 (1 # 2) 3) 0 100 (1 # 2) 1) == 0).
Proof.
  split; [intro H; vm_compute in H; discriminate|]. split; [intro H; vm_compute in H; discriminate|].
  cbv zeta. split; [intro H; vm_compute in H; discriminate|]. split; [|intro H; vm_compute in H; discriminate].
  apply veqb_sound. vm_compute. reflexivity.
Qed.
Example C07x_nonvacuous_ced :
  ~ peval (u_p (1 # 2) 1 0) (3 # 4) == 0 /\
  (let e := dEBCM [3 # 4; 3] 0 100 (1 # 2) 1 (peval ex_c) (peval (pderiv ex_c)) (9 # 10) 0 in
   veq (dSIR_compact_effective_degree (Phi_ced ex_c 100 (1 # 2) 1 (9 # 10) 0 (3 # 4) 3) 0 100 (1 # 2) 1)
       (DPhi_ced ex_c 100 (1 # 2) 1 (9 # 10) 0 (3 # 4) (vnth 0 e) (vnth 1 e)) /\
   ~ vnth 1 (dSIR_compact_effective_degree (Phi_ced ex_c 100 (1 # 2) 1 (9 # 10) 0 (3 # 4) 3) 0 100 (1 # 2) 1) == 0).
Proof.
  split; [intro H; vm_compute in H; discriminate|]. cbv zeta. split; [|intro H; vm_compute in H; discriminate].
  apply veqb_sound. vm_compute. reflexivity.
Qed.
(* three degree classes P = (0, 1/2, 1/2), phiS0 = 3/4, tau = 1, gamma = 1/2, theta = 7/8 (phiS = 11/16, phiI = 1/8, phiR = 1/16):
   the hypotheses of the effective degree theorem hold and the field is not zero *)
Example C07x_nonvacuous_ed :
  let c3 := [0; 1 # 2; 1 # 2] in
  ~ peval (phiS_p c3 (3 # 4)) (7 # 8) == 0 /\ ~ D c3 (7 # 8) == 0 /\ ~ D c3 1 == 0 /\
  0 < peval (phiI_p c3 1 (1 # 2) (3 # 4) 0) (7 # 8) /\
  (let e := dEBCM [7 # 8; 3] 0 16 1 (1 # 2) (peval c3) (peval (pderiv c3)) (3 # 4) 0 in
   veq (dSIR_effective_degree (Phi_ed c3 16 1 (1 # 2) (3 # 4) 0 (7 # 8) 3) 16 3 3 1 (1 # 2) 0)
       (DPhi_ed c3 16 1 (1 # 2) (3 # 4) 0 (7 # 8) (vnth 0 e) (vnth 1 e)) /\
   ~ vnth 4 (dSIR_effective_degree (Phi_ed c3 16 1 (1 # 2) (3 # 4) 0 (7 # 8) 3) 16 3 3 1 (1 # 2) 0) == 0).
Proof.
  cbv zeta. do 3 (split; [intro H; vm_compute in H; discriminate|]). split; [vm_compute; reflexivity|].
  split; [|intro H; vm_compute in H; discriminate].
  apply veqb_sound. vm_compute. reflexivity.
Qed.
(* the path 0-1-2 (degrees 1,2,1), rho = 1/4: a wf graph with psihat'(1) <> 0, so the initial-point theorems apply *)
Example C07x_nonvacuous_graph :
  wf_ugraph path3 = true /\ ~ D (fg_coeffs path3 (1 # 4)) 1 == 0 /\
  match row0_entry eSIRcp path3 (mkReq None None (Some (1 # 4))) true with
  | Ok [(nSk, VV sk); (nI, VS i0); (nR, VS r0); (nSS, VS ss); (nSI, VS si)] =>
      veq (sk ++ [ss; si; r0]) (Phi_cp (fg_coeffs path3 (1 # 4)) 3 (1 # 2) 1 (3 # 4) 0 1 0) /\
      veq (sk ++ [ss; si; r0]) [0; 3 # 2; 3 # 4; 9 # 4; 3 # 4; 0]
  | _ => False
  end.
Proof.
  split; [vm_compute; reflexivity|]. split; [intro H; vm_compute in H; discriminate|]. vm_compute. split; apply veqb_sound; vm_compute; reflexivity.
Qed.
(* degrees {1: 1/2, 3: 1/2}: the uncorrelated matrix, one step of both discrete models *)
(* ex_Pk = {1: 1/2, 3: 1/2}  (Proofs/C07xPref.v) *)
Example C07x_nonvacuous_prefmix :
  ~ pk_mean ex_Pk == 0 /\ dsum ex_Pk (fun _ q => q) == 1 /\
  (let '(th, r2, s2, i2) := EBCM_discrete_loop 0 100 (fun x => (9 # 10) * pk_psi ex_Pk x) (1 # 2) 0 (9 # 10) (fun x => (9 # 10) * pk_psiP ex_Pk x) 2 in
   veq (pmd_view (pmd_loop 100 (1 # 10) (1 # 2) ex_Pk (uncorrelated ex_Pk) 2)) [r2; s2; i2; th; th] /\ ~ th == 1 /\ ~ r2 == 0) /\
  ~ vnth 1 (dEBCM_pref_mix (Phi_pm ex_Pk 100 (1 # 2) 1 (1 # 2) 3) 0 (1 # 10) (1 # 2) 1 ex_Pk (uncorrelated ex_Pk)) == 0.
Proof.
  split; [intro H; vm_compute in H; discriminate|]. split; [vm_compute; reflexivity|].
  split; [|intro H; vm_compute in H; discriminate].
  vm_compute. split; [apply veqb_sound; vm_compute; reflexivity|]. split; intro H; discriminate.
Qed.

Print Assumptions C07x_formal_derivative_is_derivative.
Print Assumptions C07x_derivative_laws.
Print Assumptions C07x_super_compact_to_compact.
Print Assumptions C07x_ebcm_to_super_compact.
Print Assumptions C07x_ebcm_to_compact.
Print Assumptions C07x_outputs_agree.
Print Assumptions C07x_ebcm_to_compact_effective_degree.
Print Assumptions C07x_compact_effective_degree_from_graph_on_manifold.
Print Assumptions C07x_nonvacuous_ced.
Print Assumptions C07x_effective_degree_outputs_agree.
Print Assumptions C07x_effective_degree_from_graph_on_manifold.
Print Assumptions C07x_ebcm_to_effective_degree.
Print Assumptions C07x_ebcm_to_effective_degree_generated.
Print Assumptions C07x_nonvacuous_ed.
Print Assumptions C07x_wrapper_closures_are_polynomials.
Print Assumptions C07x_EBCM_from_graph_rho.
Print Assumptions C07x_super_compact_from_graph_on_manifold.
Print Assumptions C07x_compact_from_graph_on_manifold.
Print Assumptions C07x_hierarchy_from_graph.
Print Assumptions C07x_prefmix_uncorrelated_cts.
Print Assumptions C07x_prefmix_embedding.
Print Assumptions C07x_prefmix_initial_point_and_outputs.
Print Assumptions C07x_effective_degree_from_graph.
Print Assumptions C07x_prefmix_uncorrelated_discrete.
Print Assumptions C07x_prefmix_discrete_outputs.
Print Assumptions C07x_dict_pgf_is_polynomial.
Print Assumptions C07x_lump_SIR_heterogeneous_meanfield_regular.
Print Assumptions C07x_nonvacuous_lump_SIR_hmf.
Print Assumptions C07x_returned_series_compact_pairwise.
Print Assumptions C07x_returned_series_super_compact_pairwise.
Print Assumptions C07x_returned_series_compact_effective_degree.
Print Assumptions C07x_returned_series_effective_degree.
Print Assumptions C07x_lift_nonvacuous.
Print Assumptions C07x_SIR_pairwise_regular_initial_points.
Print Assumptions C07x_SIS_pairwise_regular_initial_points.
Print Assumptions C07x_SIS_meanfield_regular_initial_points.
Print Assumptions C07x_SIR_meanfield_regular_initial_points.
Print Assumptions C07x_nonvacuous_regular.
Print Assumptions C07x_nonvacuous_hierarchy.
Print Assumptions C07x_nonvacuous_graph.
Print Assumptions C07x_nonvacuous_prefmix.
