From Coq Require Import List NArith String.
Require Import EoNV.Model.Effects.
Require Import EoNV.Gen.Effects.
Import ListNotations.
Open Scope string_scope.
Definition one (n : string) := filter (fun fd => String.eqb (fn_name fd) n) eon_program.
Eval vm_compute in (report eon_program (one "fast_nonMarkov_SIR")).
Eval vm_compute in (dead_report eon_program (one "fast_nonMarkov_SIR")).
Eval vm_compute in (report eon_program (one "fast_SIS")).
Eval vm_compute in (dead_report eon_program (one "fast_SIS")).
Eval vm_compute in (report eon_program (one "_dSIR_effective_degree_")).
Eval vm_compute in (dead_report eon_program (one "_dSIR_effective_degree_")).
Eval vm_compute in (report eon_program (one "_process_trans_SIS_nonMarkov_")).
Eval vm_compute in (dead_report eon_program (one "_process_trans_SIS_nonMarkov_")).
Eval vm_compute in (report eon_program (one "EBCM_discrete")).
Eval vm_compute in (dead_report eon_program (one "EBCM_discrete")).
Eval vm_compute in (report eon_program (one "Attack_rate_discrete_from_graph")).
Eval vm_compute in (dead_report eon_program (one "Attack_rate_discrete_from_graph")).
Eval vm_compute in (report eon_program (one "SIS_effective_degree")).
Eval vm_compute in (dead_report eon_program (one "SIS_effective_degree")).
Eval vm_compute in (report eon_program (one "SIR_heterogeneous_meanfield")).
Eval vm_compute in (dead_report eon_program (one "SIR_heterogeneous_meanfield")).
Eval vm_compute in (report eon_program (one "_dSIR_compact_pairwise_")).
Eval vm_compute in (dead_report eon_program (one "_dSIR_compact_pairwise_")).
Eval vm_compute in (report eon_program (one "SIR_super_compact_pairwise_from_graph")).
Eval vm_compute in (dead_report eon_program (one "SIR_super_compact_pairwise_from_graph")).
Eval vm_compute in (report eon_program (one "_count_edge_types_")).
Eval vm_compute in (dead_report eon_program (one "_count_edge_types_")).
Eval vm_compute in (report eon_program (one "_dSIR_homogeneous_pairwise_")).
Eval vm_compute in (dead_report eon_program (one "_dSIR_homogeneous_pairwise_")).
Eval vm_compute in (report eon_program (one "get_Pnk")).
Eval vm_compute in (dead_report eon_program (one "get_Pnk")).
Eval vm_compute in (report eon_program (one "_dSIS_individual_based_")).
Eval vm_compute in (dead_report eon_program (one "_dSIS_individual_based_")).
Eval vm_compute in (report eon_program (one "SIS_pair_based_pure_IC")).
Eval vm_compute in (dead_report eon_program (one "SIS_pair_based_pure_IC")).
Eval vm_compute in (report eon_program (one "_dSIS_homogeneous_meanfield_")).
Eval vm_compute in (dead_report eon_program (one "_dSIS_homogeneous_meanfield_")).
Eval vm_compute in (report eon_program (one "_my_odeint_")).
Eval vm_compute in (dead_report eon_program (one "_my_odeint_")).
Eval vm_compute in (report eon_program (one "_out_component_")).
Eval vm_compute in (dead_report eon_program (one "_out_component_")).
Eval vm_compute in (report eon_program (one "EBCM_uniform_introduction")).
Eval vm_compute in (dead_report eon_program (one "EBCM_uniform_introduction")).
Eval vm_compute in (report eon_program (one "EBCM_pref_mix_discrete_from_graph")).
Eval vm_compute in (dead_report eon_program (one "EBCM_pref_mix_discrete_from_graph")).
Eval vm_compute in (report eon_program (one "estimate_directed_SIR_prob_size")).
Eval vm_compute in (dead_report eon_program (one "estimate_directed_SIR_prob_size")).
Eval vm_compute in (report eon_program (one "_edge_exists_")).
Eval vm_compute in (dead_report eon_program (one "_edge_exists_")).
