From Coq Require Import List NArith String.
Require Import EoNV.Model.Effects.
Require Import EoNV.Gen.Effects.
Import ListNotations.
Open Scope string_scope.
Definition one (n : string) := filter (fun fd => String.eqb (fn_name fd) n) eon_program.
Eval vm_compute in (report eon_program (one "fast_nonMarkov_SIR")).
Eval vm_compute in (dead_report eon_program (one "fast_nonMarkov_SIR")).
Eval vm_compute in (report eon_program (one "_get_NkNl_and_IC_as_arrays_")).
Eval vm_compute in (dead_report eon_program (one "_get_NkNl_and_IC_as_arrays_")).
Eval vm_compute in (report eon_program (one "_dSIR_effective_degree_")).
Eval vm_compute in (dead_report eon_program (one "_dSIR_effective_degree_")).
Eval vm_compute in (report eon_program (one "EBCM_discrete_from_graph")).
Eval vm_compute in (dead_report eon_program (one "EBCM_discrete_from_graph")).
Eval vm_compute in (report eon_program (one "SIS_heterogeneous_pairwise")).
Eval vm_compute in (dead_report eon_program (one "SIS_heterogeneous_pairwise")).
Eval vm_compute in (report eon_program (one "SIR_individual_based")).
Eval vm_compute in (dead_report eon_program (one "SIR_individual_based")).
Eval vm_compute in (report eon_program (one "SIS_compact_pairwise_from_graph")).
Eval vm_compute in (dead_report eon_program (one "SIS_compact_pairwise_from_graph")).
Eval vm_compute in (report eon_program (one "SIR_heterogeneous_meanfield")).
Eval vm_compute in (dead_report eon_program (one "SIR_heterogeneous_meanfield")).
Eval vm_compute in (report eon_program (one "_dSIR_compact_pairwise_")).
Eval vm_compute in (dead_report eon_program (one "_dSIR_compact_pairwise_")).
Eval vm_compute in (report eon_program (one "SIR_heterogeneous_pairwise_from_graph")).
Eval vm_compute in (dead_report eon_program (one "SIR_heterogeneous_pairwise_from_graph")).
Eval vm_compute in (report eon_program (one "SIR_compact_effective_degree")).
Eval vm_compute in (dead_report eon_program (one "SIR_compact_effective_degree")).
Eval vm_compute in (report eon_program (one "EBCM")).
Eval vm_compute in (dead_report eon_program (one "EBCM")).
Eval vm_compute in (report eon_program (one "SIR_compact_pairwise_from_graph")).
Eval vm_compute in (dead_report eon_program (one "SIR_compact_pairwise_from_graph")).
Eval vm_compute in (report eon_program (one "_dSIR_heterogeneous_meanfield_")).
Eval vm_compute in (dead_report eon_program (one "_dSIR_heterogeneous_meanfield_")).
Eval vm_compute in (report eon_program (one "_initialize_node_status_")).
Eval vm_compute in (dead_report eon_program (one "_initialize_node_status_")).
Eval vm_compute in (report eon_program (one "estimate_SIR_prob_size_from_dir_perc")).
Eval vm_compute in (dead_report eon_program (one "estimate_SIR_prob_size_from_dir_perc")).
Eval vm_compute in (report eon_program (one "get_PGFPrime")).
Eval vm_compute in (dead_report eon_program (one "get_PGFPrime")).
Eval vm_compute in (report eon_program (one "_out_component_")).
Eval vm_compute in (dead_report eon_program (one "_out_component_")).
Eval vm_compute in (report eon_program (one "directed_percolate_network")).
Eval vm_compute in (dead_report eon_program (one "directed_percolate_network")).
Eval vm_compute in (report eon_program (one "EBCM_pref_mix_discrete_from_graph")).
Eval vm_compute in (dead_report eon_program (one "EBCM_pref_mix_discrete_from_graph")).
Eval vm_compute in (report eon_program (one "estimate_directed_SIR_prob_size")).
Eval vm_compute in (dead_report eon_program (one "estimate_directed_SIR_prob_size")).
Eval vm_compute in (report eon_program (one "_edge_exists_")).
Eval vm_compute in (dead_report eon_program (one "_edge_exists_")).
