(* the C19 obligation over the generated program, assembled from the chunks
   Gen/EffectsOblig0..5.v (each closed by vm_compute) *)
From Coq Require Import List.
Require Import EoNV.Model.Effects EoNV.Proofs.EffectsP.
Require Import EoNV.Gen.Effects.
Require EoNV.Gen.EffectsOblig0 EoNV.Gen.EffectsOblig1 EoNV.Gen.EffectsOblig2
        EoNV.Gen.EffectsOblig3 EoNV.Gen.EffectsOblig4 EoNV.Gen.EffectsOblig5.
Lemma all_entry_points_ok : forallb (ok_entry eon_program) (entry_points eon_program) = true.
Proof.
  apply chunks_cover6.
  - exact EoNV.Gen.EffectsOblig0.oblig_0.
  - exact EoNV.Gen.EffectsOblig1.oblig_1.
  - exact EoNV.Gen.EffectsOblig2.oblig_2.
  - exact EoNV.Gen.EffectsOblig3.oblig_3.
  - exact EoNV.Gen.EffectsOblig4.oblig_4.
  - exact EoNV.Gen.EffectsOblig5.oblig_5.
Qed.
