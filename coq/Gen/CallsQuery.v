(* Evaluated by harness/calls_lib.py with coqc; one line per generated site:
   <site id>|ok or BAD|reason;reason;...  *)
From Coq Require Import String List Ascii.
Require Import EoNV.Model.Calls EoNV.Gen.Calls.
Import ListNotations.
Open Scope string_scope.
Definition nl : string := String (ascii_of_nat 10) EmptyString.
Definition line (s : site) : string :=
  "SITE|" ++ site_id s ++ "|" ++ (if site_ok s then "ok" else "BAD") ++ "|" ++
  String.concat ";" (map reason_str (site_check s)) ++ nl.
Compute (String.concat "" (map line sites)).
