From Coq Require Import List NArith String.
Require Import EoNV.Model.Effects.
Require Import EoNV.Gen.Effects.
Import ListNotations.
Open Scope string_scope.
Definition one (n : string) := filter (fun fd => String.eqb (fn_name fd) n) eon_program.
Eval vm_compute in (report eon_program (one "Gillespie_SIS")).
Eval vm_compute in (dead_report eon_program (one "Gillespie_SIS")).
Eval vm_compute in (report eon_program (one "fast_SIS")).
Eval vm_compute in (dead_report eon_program (one "fast_SIS")).
Eval vm_compute in (report eon_program (one "SIS_effective_degree_from_graph")).
Eval vm_compute in (dead_report eon_program (one "SIS_effective_degree_from_graph")).
Eval vm_compute in (report eon_program (one "SIR_heterogeneous_pairwise")).
Eval vm_compute in (dead_report eon_program (one "SIR_heterogeneous_pairwise")).
Eval vm_compute in (report eon_program (one "_dEBCM_pref_mix_")).
Eval vm_compute in (dead_report eon_program (one "_dEBCM_pref_mix_")).
Eval vm_compute in (report eon_program (one "_get_Nk_and_IC_as_arrays_")).
Eval vm_compute in (dead_report eon_program (one "_get_Nk_and_IC_as_arrays_")).
Eval vm_compute in (report eon_program (one "_dSIS_super_compact_pairwise_")).
Eval vm_compute in (dead_report eon_program (one "_dSIS_super_compact_pairwise_")).
Eval vm_compute in (report eon_program (one "_find_next_trans_SIS_Markov")).
Eval vm_compute in (dead_report eon_program (one "_find_next_trans_SIS_Markov")).
Eval vm_compute in (report eon_program (one "SIS_individual_based")).
Eval vm_compute in (dead_report eon_program (one "SIS_individual_based")).
Eval vm_compute in (report eon_program (one "SIR_super_compact_pairwise_from_graph")).
Eval vm_compute in (dead_report eon_program (one "SIR_super_compact_pairwise_from_graph")).
Eval vm_compute in (report eon_program (one "_count_edge_types_")).
Eval vm_compute in (dead_report eon_program (one "_count_edge_types_")).
Eval vm_compute in (report eon_program (one "_dSIR_homogeneous_pairwise_")).
Eval vm_compute in (dead_report eon_program (one "_dSIR_homogeneous_pairwise_")).
Eval vm_compute in (report eon_program (one "nonMarkov_directed_percolate_network_with_timing")).
Eval vm_compute in (dead_report eon_program (one "nonMarkov_directed_percolate_network_with_timing")).
Eval vm_compute in (report eon_program (one "SIR_homogeneous_meanfield")).
Eval vm_compute in (dead_report eon_program (one "SIR_homogeneous_meanfield")).
Eval vm_compute in (report eon_program (one "SIS_pair_based_pure_IC")).
Eval vm_compute in (dead_report eon_program (one "SIS_pair_based_pure_IC")).
Eval vm_compute in (report eon_program (one "_my_odeint_")).
Eval vm_compute in (dead_report eon_program (one "_my_odeint_")).
Eval vm_compute in (report eon_program (one "get_PGFDPrime")).
Eval vm_compute in (dead_report eon_program (one "get_PGFDPrime")).
Eval vm_compute in (report eon_program (one "_in_component_")).
Eval vm_compute in (dead_report eon_program (one "_in_component_")).
Eval vm_compute in (report eon_program (one "EBCM_uniform_introduction")).
Eval vm_compute in (dead_report eon_program (one "EBCM_uniform_introduction")).
Eval vm_compute in (report eon_program (one "_truncated_exponential_")).
Eval vm_compute in (dead_report eon_program (one "_truncated_exponential_")).
Eval vm_compute in (report eon_program (one "Gillespie_Arbitrary")).
Eval vm_compute in (dead_report eon_program (one "Gillespie_Arbitrary")).
Eval vm_compute in (report eon_program (one "__citation__")).
Eval vm_compute in (dead_report eon_program (one "__citation__")).
