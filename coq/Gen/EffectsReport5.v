From Coq Require Import List NArith String.
Require Import EoNV.Model.Effects.
Require Import EoNV.Gen.Effects.
Import ListNotations.
Open Scope string_scope.
Definition one (n : string) := filter (fun fd => String.eqb (fn_name fd) n) eon_program.
Eval vm_compute in (report eon_program (one "_dSIR_pair_based_")).
Eval vm_compute in (dead_report eon_program (one "_dSIR_pair_based_")).
Eval vm_compute in (report eon_program (one "SIR_pair_based")).
Eval vm_compute in (dead_report eon_program (one "SIR_pair_based")).
Eval vm_compute in (report eon_program (one "SIS_effective_degree_from_graph")).
Eval vm_compute in (dead_report eon_program (one "SIS_effective_degree_from_graph")).
Eval vm_compute in (report eon_program (one "SIR_compact_effective_degree_from_graph")).
Eval vm_compute in (dead_report eon_program (one "SIR_compact_effective_degree_from_graph")).
Eval vm_compute in (report eon_program (one "_dEBCM_pref_mix_")).
Eval vm_compute in (dead_report eon_program (one "_dEBCM_pref_mix_")).
Eval vm_compute in (report eon_program (one "_process_trans_SIS_Markov")).
Eval vm_compute in (dead_report eon_program (one "_process_trans_SIS_Markov")).
Eval vm_compute in (report eon_program (one "_get_Nk_and_IC_as_arrays_")).
Eval vm_compute in (dead_report eon_program (one "_get_Nk_and_IC_as_arrays_")).
Eval vm_compute in (report eon_program (one "_dSIS_compact_pairwise_")).
Eval vm_compute in (dead_report eon_program (one "_dSIS_compact_pairwise_")).
Eval vm_compute in (report eon_program (one "Attack_rate_discrete")).
Eval vm_compute in (dead_report eon_program (one "Attack_rate_discrete")).
Eval vm_compute in (report eon_program (one "SIR_compact_pairwise")).
Eval vm_compute in (dead_report eon_program (one "SIR_compact_pairwise")).
Eval vm_compute in (report eon_program (one "_dSIS_homogeneous_pairwise_")).
Eval vm_compute in (dead_report eon_program (one "_dSIS_homogeneous_pairwise_")).
Eval vm_compute in (report eon_program (one "SIS_super_compact_pairwise")).
Eval vm_compute in (dead_report eon_program (one "SIS_super_compact_pairwise")).
Eval vm_compute in (report eon_program (one "_dEBCM_")).
Eval vm_compute in (dead_report eon_program (one "_dEBCM_")).
Eval vm_compute in (report eon_program (one "SIR_homogeneous_meanfield")).
Eval vm_compute in (dead_report eon_program (one "SIR_homogeneous_meanfield")).
Eval vm_compute in (report eon_program (one "_dSIR_homogeneous_meanfield_")).
Eval vm_compute in (dead_report eon_program (one "_dSIR_homogeneous_meanfield_")).
Eval vm_compute in (report eon_program (one "estimate_R0")).
Eval vm_compute in (dead_report eon_program (one "estimate_R0")).
Eval vm_compute in (report eon_program (one "nonMarkov_directed_percolate_network")).
Eval vm_compute in (dead_report eon_program (one "nonMarkov_directed_percolate_network")).
Eval vm_compute in (report eon_program (one "_in_component_")).
Eval vm_compute in (dead_report eon_program (one "_in_component_")).
Eval vm_compute in (report eon_program (one "EBCM_pref_mix_from_graph")).
Eval vm_compute in (dead_report eon_program (one "EBCM_pref_mix_from_graph")).
Eval vm_compute in (report eon_program (one "_truncated_exponential_")).
Eval vm_compute in (dead_report eon_program (one "_truncated_exponential_")).
Eval vm_compute in (report eon_program (one "Gillespie_Arbitrary")).
Eval vm_compute in (dead_report eon_program (one "Gillespie_Arbitrary")).
Eval vm_compute in (report eon_program (one "__citation__")).
Eval vm_compute in (dead_report eon_program (one "__citation__")).
