From Coq Require Import List NArith String.
Require Import EoNV.Model.Effects.
Require Import EoNV.Gen.Effects.
Import ListNotations.
Open Scope string_scope.
Definition one (n : string) := filter (fun fd => String.eqb (fn_name fd) n) eon_program.
Eval vm_compute in (report eon_program (one "Gillespie_simple_contagion")).
Eval vm_compute in (dead_report eon_program (one "Gillespie_simple_contagion")).
Eval vm_compute in (report eon_program (one "_dSIR_pair_based_")).
Eval vm_compute in (dead_report eon_program (one "_dSIR_pair_based_")).
Eval vm_compute in (report eon_program (one "SIR_pair_based")).
Eval vm_compute in (dead_report eon_program (one "SIR_pair_based")).
Eval vm_compute in (report eon_program (one "SIR_effective_degree_from_graph")).
Eval vm_compute in (dead_report eon_program (one "SIR_effective_degree_from_graph")).
Eval vm_compute in (report eon_program (one "_process_trans_SIS_nonMarkov_")).
Eval vm_compute in (dead_report eon_program (one "_process_trans_SIS_nonMarkov_")).
Eval vm_compute in (report eon_program (one "_dSIS_heterogeneous_pairwise_")).
Eval vm_compute in (dead_report eon_program (one "_dSIS_heterogeneous_pairwise_")).
Eval vm_compute in (report eon_program (one "_process_trans_SIS_Markov")).
Eval vm_compute in (dead_report eon_program (one "_process_trans_SIS_Markov")).
Eval vm_compute in (report eon_program (one "SIS_effective_degree")).
Eval vm_compute in (dead_report eon_program (one "SIS_effective_degree")).
Eval vm_compute in (report eon_program (one "_dSIS_compact_pairwise_")).
Eval vm_compute in (dead_report eon_program (one "_dSIS_compact_pairwise_")).
Eval vm_compute in (report eon_program (one "_dSIR_super_compact_pairwise_")).
Eval vm_compute in (dead_report eon_program (one "_dSIR_super_compact_pairwise_")).
Eval vm_compute in (report eon_program (one "SIR_compact_pairwise")).
Eval vm_compute in (dead_report eon_program (one "SIR_compact_pairwise")).
Eval vm_compute in (report eon_program (one "_dSIS_homogeneous_pairwise_")).
Eval vm_compute in (dead_report eon_program (one "_dSIS_homogeneous_pairwise_")).
Eval vm_compute in (report eon_program (one "SIS_super_compact_pairwise")).
Eval vm_compute in (dead_report eon_program (one "SIS_super_compact_pairwise")).
Eval vm_compute in (report eon_program (one "_dEBCM_")).
Eval vm_compute in (dead_report eon_program (one "_dEBCM_")).
Eval vm_compute in (report eon_program (one "_trans_and_rec_time_Markovian_const_trans_")).
Eval vm_compute in (dead_report eon_program (one "_trans_and_rec_time_Markovian_const_trans_")).
Eval vm_compute in (report eon_program (one "SIS_individual_based_pure_IC")).
Eval vm_compute in (dead_report eon_program (one "SIS_individual_based_pure_IC")).
Eval vm_compute in (report eon_program (one "estimate_R0")).
Eval vm_compute in (dead_report eon_program (one "estimate_R0")).
Eval vm_compute in (report eon_program (one "nonMarkov_directed_percolate_network")).
Eval vm_compute in (dead_report eon_program (one "nonMarkov_directed_percolate_network")).
Eval vm_compute in (report eon_program (one "SIS_heterogeneous_meanfield_from_graph")).
Eval vm_compute in (dead_report eon_program (one "SIS_heterogeneous_meanfield_from_graph")).
Eval vm_compute in (report eon_program (one "EBCM_pref_mix_from_graph")).
Eval vm_compute in (dead_report eon_program (one "EBCM_pref_mix_from_graph")).
Eval vm_compute in (report eon_program (one "percolation_based_discrete_SIR")).
Eval vm_compute in (dead_report eon_program (one "percolation_based_discrete_SIR")).
Eval vm_compute in (report eon_program (one "estimate_nonMarkov_SIR_prob_size_with_timing")).
Eval vm_compute in (dead_report eon_program (one "estimate_nonMarkov_SIR_prob_size_with_timing")).
