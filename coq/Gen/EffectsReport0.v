From Coq Require Import List NArith String.
Require Import EoNV.Model.Effects.
Require Import EoNV.Gen.Effects.
Import ListNotations.
Open Scope string_scope.
Definition one (n : string) := filter (fun fd => String.eqb (fn_name fd) n) eon_program.
Eval vm_compute in (report eon_program (one "Gillespie_simple_contagion")).
Eval vm_compute in (dead_report eon_program (one "Gillespie_simple_contagion")).
Eval vm_compute in (report eon_program (one "discrete_SIR")).
Eval vm_compute in (dead_report eon_program (one "discrete_SIR")).
Eval vm_compute in (report eon_program (one "_get_NkNl_and_IC_as_arrays_")).
Eval vm_compute in (dead_report eon_program (one "_get_NkNl_and_IC_as_arrays_")).
Eval vm_compute in (report eon_program (one "SIR_effective_degree_from_graph")).
Eval vm_compute in (dead_report eon_program (one "SIR_effective_degree_from_graph")).
Eval vm_compute in (report eon_program (one "_dSIR_heterogeneous_pairwise_")).
Eval vm_compute in (dead_report eon_program (one "_dSIR_heterogeneous_pairwise_")).
Eval vm_compute in (report eon_program (one "EBCM_pref_mix")).
Eval vm_compute in (dead_report eon_program (one "EBCM_pref_mix")).
Eval vm_compute in (report eon_program (one "SIR_homogeneous_pairwise_from_graph")).
Eval vm_compute in (dead_report eon_program (one "SIR_homogeneous_pairwise_from_graph")).
Eval vm_compute in (report eon_program (one "SIS_compact_pairwise_from_graph")).
Eval vm_compute in (dead_report eon_program (one "SIS_compact_pairwise_from_graph")).
Eval vm_compute in (report eon_program (one "SIS_compact_pairwise")).
Eval vm_compute in (dead_report eon_program (one "SIS_compact_pairwise")).
Eval vm_compute in (report eon_program (one "_dSIR_individual_based_")).
Eval vm_compute in (dead_report eon_program (one "_dSIR_individual_based_")).
Eval vm_compute in (report eon_program (one "_dSIR_compact_effective_degree_")).
Eval vm_compute in (dead_report eon_program (one "_dSIR_compact_effective_degree_")).
Eval vm_compute in (report eon_program (one "SIS_heterogeneous_pairwise_from_graph")).
Eval vm_compute in (dead_report eon_program (one "SIS_heterogeneous_pairwise_from_graph")).
Eval vm_compute in (report eon_program (one "SIR_individual_based_pure_IC")).
Eval vm_compute in (dead_report eon_program (one "SIR_individual_based_pure_IC")).
Eval vm_compute in (report eon_program (one "nonMarkov_directed_percolate_network_with_timing")).
Eval vm_compute in (dead_report eon_program (one "nonMarkov_directed_percolate_network_with_timing")).
Eval vm_compute in (report eon_program (one "_trans_and_rec_time_Markovian_const_trans_")).
Eval vm_compute in (dead_report eon_program (one "_trans_and_rec_time_Markovian_const_trans_")).
Eval vm_compute in (report eon_program (one "SIS_individual_based_pure_IC")).
Eval vm_compute in (dead_report eon_program (one "SIS_individual_based_pure_IC")).
Eval vm_compute in (report eon_program (one "estimate_SIR_prob_size_from_dir_perc")).
Eval vm_compute in (dead_report eon_program (one "estimate_SIR_prob_size_from_dir_perc")).
Eval vm_compute in (report eon_program (one "SIS_homogeneous_meanfield_from_graph")).
Eval vm_compute in (dead_report eon_program (one "SIS_homogeneous_meanfield_from_graph")).
Eval vm_compute in (report eon_program (one "_find_trans_and_rec_delays_SIR_")).
Eval vm_compute in (dead_report eon_program (one "_find_trans_and_rec_delays_SIR_")).
Eval vm_compute in (report eon_program (one "percolate_network")).
Eval vm_compute in (dead_report eon_program (one "percolate_network")).
Eval vm_compute in (report eon_program (one "percolation_based_discrete_SIR")).
Eval vm_compute in (dead_report eon_program (one "percolation_based_discrete_SIR")).
Eval vm_compute in (report eon_program (one "estimate_nonMarkov_SIR_prob_size_with_timing")).
Eval vm_compute in (dead_report eon_program (one "estimate_nonMarkov_SIR_prob_size_with_timing")).
