From Coq Require Import List NArith String.
Require Import EoNV.Model.Effects.
Require Import EoNV.Gen.Effects.
Import ListNotations.
Open Scope string_scope.
Definition one (n : string) := filter (fun fd => String.eqb (fn_name fd) n) eon_program.
Eval vm_compute in (report eon_program (one "_dSIS_effective_degree_")).
Eval vm_compute in (dead_report eon_program (one "_dSIS_effective_degree_")).
Eval vm_compute in (report eon_program (one "EBCM_pref_mix_discrete")).
Eval vm_compute in (dead_report eon_program (one "EBCM_pref_mix_discrete")).
Eval vm_compute in (report eon_program (one "SIS_pair_based")).
Eval vm_compute in (dead_report eon_program (one "SIS_pair_based")).
Eval vm_compute in (report eon_program (one "EBCM_from_graph")).
Eval vm_compute in (dead_report eon_program (one "EBCM_from_graph")).
Eval vm_compute in (report eon_program (one "Attack_rate_cts_time_from_graph")).
Eval vm_compute in (dead_report eon_program (one "Attack_rate_cts_time_from_graph")).
Eval vm_compute in (report eon_program (one "EBCM_discrete")).
Eval vm_compute in (dead_report eon_program (one "EBCM_discrete")).
Eval vm_compute in (report eon_program (one "Attack_rate_cts_time")).
Eval vm_compute in (dead_report eon_program (one "Attack_rate_cts_time")).
Eval vm_compute in (report eon_program (one "SIR_effective_degree")).
Eval vm_compute in (dead_report eon_program (one "SIR_effective_degree")).
Eval vm_compute in (report eon_program (one "Epi_Prob_non_Markovian")).
Eval vm_compute in (dead_report eon_program (one "Epi_Prob_non_Markovian")).
Eval vm_compute in (report eon_program (one "SIS_heterogeneous_meanfield")).
Eval vm_compute in (dead_report eon_program (one "SIS_heterogeneous_meanfield")).
Eval vm_compute in (report eon_program (one "SIS_homogeneous_pairwise")).
Eval vm_compute in (dead_report eon_program (one "SIS_homogeneous_pairwise")).
Eval vm_compute in (report eon_program (one "SIS_heterogeneous_pairwise_from_graph")).
Eval vm_compute in (dead_report eon_program (one "SIS_heterogeneous_pairwise_from_graph")).
Eval vm_compute in (report eon_program (one "SIR_individual_based_pure_IC")).
Eval vm_compute in (dead_report eon_program (one "SIR_individual_based_pure_IC")).
Eval vm_compute in (report eon_program (one "fast_SIR")).
Eval vm_compute in (dead_report eon_program (one "fast_SIR")).
Eval vm_compute in (report eon_program (one "Epi_Prob_discrete")).
Eval vm_compute in (dead_report eon_program (one "Epi_Prob_discrete")).
Eval vm_compute in (report eon_program (one "SIR_homogeneous_meanfield_from_graph")).
Eval vm_compute in (dead_report eon_program (one "SIR_homogeneous_meanfield_from_graph")).
Eval vm_compute in (report eon_program (one "get_Pk")).
Eval vm_compute in (dead_report eon_program (one "get_Pk")).
Eval vm_compute in (report eon_program (one "SIR_heterogeneous_meanfield_from_graph")).
Eval vm_compute in (dead_report eon_program (one "SIR_heterogeneous_meanfield_from_graph")).
Eval vm_compute in (report eon_program (one "_find_trans_and_rec_delays_SIS_")).
Eval vm_compute in (dead_report eon_program (one "_find_trans_and_rec_delays_SIS_")).
Eval vm_compute in (report eon_program (one "_process_rec_SIS_")).
Eval vm_compute in (dead_report eon_program (one "_process_rec_SIS_")).
Eval vm_compute in (report eon_program (one "SIS_compact_effective_degree_from_graph")).
Eval vm_compute in (dead_report eon_program (one "SIS_compact_effective_degree_from_graph")).
Eval vm_compute in (report eon_program (one "Attack_rate_non_Markovian")).
Eval vm_compute in (dead_report eon_program (one "Attack_rate_non_Markovian")).
