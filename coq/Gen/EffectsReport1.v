From Coq Require Import List NArith String.
Require Import EoNV.Model.Effects.
Require Import EoNV.Gen.Effects.
Import ListNotations.
Open Scope string_scope.
Definition one (n : string) := filter (fun fd => String.eqb (fn_name fd) n) eon_program.
Eval vm_compute in (report eon_program (one "Gillespie_SIR")).
Eval vm_compute in (dead_report eon_program (one "Gillespie_SIR")).
Eval vm_compute in (report eon_program (one "discrete_SIR")).
Eval vm_compute in (dead_report eon_program (one "discrete_SIR")).
Eval vm_compute in (report eon_program (one "Gillespie_complex_contagion")).
Eval vm_compute in (dead_report eon_program (one "Gillespie_complex_contagion")).
Eval vm_compute in (report eon_program (one "SIR_compact_effective_degree_from_graph")).
Eval vm_compute in (dead_report eon_program (one "SIR_compact_effective_degree_from_graph")).
Eval vm_compute in (report eon_program (one "_dSIR_heterogeneous_pairwise_")).
Eval vm_compute in (dead_report eon_program (one "_dSIR_heterogeneous_pairwise_")).
Eval vm_compute in (report eon_program (one "EBCM_pref_mix")).
Eval vm_compute in (dead_report eon_program (one "EBCM_pref_mix")).
Eval vm_compute in (report eon_program (one "SIR_homogeneous_pairwise_from_graph")).
Eval vm_compute in (dead_report eon_program (one "SIR_homogeneous_pairwise_from_graph")).
Eval vm_compute in (report eon_program (one "_process_trans_SIR_")).
Eval vm_compute in (dead_report eon_program (one "_process_trans_SIR_")).
Eval vm_compute in (report eon_program (one "SIS_compact_pairwise")).
Eval vm_compute in (dead_report eon_program (one "SIS_compact_pairwise")).
Eval vm_compute in (report eon_program (one "_dSIR_individual_based_")).
Eval vm_compute in (dead_report eon_program (one "_dSIR_individual_based_")).
Eval vm_compute in (report eon_program (one "_dSIR_compact_effective_degree_")).
Eval vm_compute in (dead_report eon_program (one "_dSIR_compact_effective_degree_")).
Eval vm_compute in (report eon_program (one "SIR_super_compact_pairwise")).
Eval vm_compute in (dead_report eon_program (one "SIR_super_compact_pairwise")).
Eval vm_compute in (report eon_program (one "get_infected_nodes")).
Eval vm_compute in (dead_report eon_program (one "get_infected_nodes")).
Eval vm_compute in (report eon_program (one "_dSIS_heterogeneous_meanfield_")).
Eval vm_compute in (dead_report eon_program (one "_dSIS_heterogeneous_meanfield_")).
Eval vm_compute in (report eon_program (one "SIS_homogeneous_meanfield")).
Eval vm_compute in (dead_report eon_program (one "SIS_homogeneous_meanfield")).
Eval vm_compute in (report eon_program (one "_dSIR_homogeneous_meanfield_")).
Eval vm_compute in (dead_report eon_program (one "_dSIR_homogeneous_meanfield_")).
Eval vm_compute in (report eon_program (one "_dSIS_homogeneous_meanfield_")).
Eval vm_compute in (dead_report eon_program (one "_dSIS_homogeneous_meanfield_")).
Eval vm_compute in (report eon_program (one "SIS_homogeneous_meanfield_from_graph")).
Eval vm_compute in (dead_report eon_program (one "SIS_homogeneous_meanfield_from_graph")).
Eval vm_compute in (report eon_program (one "_find_trans_and_rec_delays_SIR_")).
Eval vm_compute in (dead_report eon_program (one "_find_trans_and_rec_delays_SIR_")).
Eval vm_compute in (report eon_program (one "_process_rec_SIR_")).
Eval vm_compute in (dead_report eon_program (one "_process_rec_SIR_")).
Eval vm_compute in (report eon_program (one "basic_discrete_SIR")).
Eval vm_compute in (dead_report eon_program (one "basic_discrete_SIR")).
Eval vm_compute in (report eon_program (one "estimate_nonMarkov_SIR_prob_size")).
Eval vm_compute in (dead_report eon_program (one "estimate_nonMarkov_SIR_prob_size")).
