From Coq Require Import List NArith String.
Require Import EoNV.Model.Effects.
Require Import EoNV.Gen.Effects.
Import ListNotations.
Open Scope string_scope.
Definition one (n : string) := filter (fun fd => String.eqb (fn_name fd) n) eon_program.
Eval vm_compute in (report eon_program (one "Gillespie_SIR")).
Eval vm_compute in (dead_report eon_program (one "Gillespie_SIR")).
Eval vm_compute in (report eon_program (one "Gillespie_SIS")).
Eval vm_compute in (dead_report eon_program (one "Gillespie_SIS")).
Eval vm_compute in (report eon_program (one "Gillespie_complex_contagion")).
Eval vm_compute in (dead_report eon_program (one "Gillespie_complex_contagion")).
Eval vm_compute in (report eon_program (one "_transform_to_node_history_")).
Eval vm_compute in (dead_report eon_program (one "_transform_to_node_history_")).
Eval vm_compute in (report eon_program (one "EBCM_discrete_from_graph")).
Eval vm_compute in (dead_report eon_program (one "EBCM_discrete_from_graph")).
Eval vm_compute in (report eon_program (one "_SIR_pair_based_initialize_edge_data")).
Eval vm_compute in (dead_report eon_program (one "_SIR_pair_based_initialize_edge_data")).
Eval vm_compute in (report eon_program (one "Attack_rate_cts_time")).
Eval vm_compute in (dead_report eon_program (one "Attack_rate_cts_time")).
Eval vm_compute in (report eon_program (one "_process_trans_SIR_")).
Eval vm_compute in (dead_report eon_program (one "_process_trans_SIR_")).
Eval vm_compute in (report eon_program (one "_find_next_trans_SIS_Markov")).
Eval vm_compute in (dead_report eon_program (one "_find_next_trans_SIS_Markov")).
Eval vm_compute in (report eon_program (one "SIR_heterogeneous_pairwise_from_graph")).
Eval vm_compute in (dead_report eon_program (one "SIR_heterogeneous_pairwise_from_graph")).
Eval vm_compute in (report eon_program (one "SIS_homogeneous_pairwise")).
Eval vm_compute in (dead_report eon_program (one "SIS_homogeneous_pairwise")).
Eval vm_compute in (report eon_program (one "SIR_super_compact_pairwise")).
Eval vm_compute in (dead_report eon_program (one "SIR_super_compact_pairwise")).
Eval vm_compute in (report eon_program (one "SIR_pair_based_pure_IC")).
Eval vm_compute in (dead_report eon_program (one "SIR_pair_based_pure_IC")).
Eval vm_compute in (report eon_program (one "get_infected_nodes")).
Eval vm_compute in (dead_report eon_program (one "get_infected_nodes")).
Eval vm_compute in (report eon_program (one "SIS_homogeneous_meanfield")).
Eval vm_compute in (dead_report eon_program (one "SIS_homogeneous_meanfield")).
Eval vm_compute in (report eon_program (one "SIR_homogeneous_meanfield_from_graph")).
Eval vm_compute in (dead_report eon_program (one "SIR_homogeneous_meanfield_from_graph")).
Eval vm_compute in (report eon_program (one "get_PGF")).
Eval vm_compute in (dead_report eon_program (one "get_PGF")).
Eval vm_compute in (report eon_program (one "SIR_heterogeneous_meanfield_from_graph")).
Eval vm_compute in (dead_report eon_program (one "SIR_heterogeneous_meanfield_from_graph")).
Eval vm_compute in (report eon_program (one "_find_trans_and_rec_delays_SIS_")).
Eval vm_compute in (dead_report eon_program (one "_find_trans_and_rec_delays_SIS_")).
Eval vm_compute in (report eon_program (one "_process_rec_SIR_")).
Eval vm_compute in (dead_report eon_program (one "_process_rec_SIR_")).
Eval vm_compute in (report eon_program (one "basic_discrete_SIR")).
Eval vm_compute in (dead_report eon_program (one "basic_discrete_SIR")).
Eval vm_compute in (report eon_program (one "estimate_nonMarkov_SIR_prob_size")).
Eval vm_compute in (dead_report eon_program (one "estimate_nonMarkov_SIR_prob_size")).
