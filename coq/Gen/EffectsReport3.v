From Coq Require Import List NArith String.
Require Import EoNV.Model.Effects.
Require Import EoNV.Gen.Effects.
Import ListNotations.
Open Scope string_scope.
Definition one (n : string) := filter (fun fd => String.eqb (fn_name fd) n) eon_program.
Eval vm_compute in (report eon_program (one "_dSIS_pair_based_")).
Eval vm_compute in (dead_report eon_program (one "_dSIS_pair_based_")).
Eval vm_compute in (report eon_program (one "fast_nonMarkov_SIS")).
Eval vm_compute in (dead_report eon_program (one "fast_nonMarkov_SIS")).
Eval vm_compute in (report eon_program (one "basic_discrete_SIS")).
Eval vm_compute in (dead_report eon_program (one "basic_discrete_SIS")).
Eval vm_compute in (report eon_program (one "SIR_heterogeneous_pairwise")).
Eval vm_compute in (dead_report eon_program (one "SIR_heterogeneous_pairwise")).
Eval vm_compute in (report eon_program (one "_dSIS_heterogeneous_pairwise_")).
Eval vm_compute in (dead_report eon_program (one "_dSIS_heterogeneous_pairwise_")).
Eval vm_compute in (report eon_program (one "SIR_individual_based")).
Eval vm_compute in (dead_report eon_program (one "SIR_individual_based")).
Eval vm_compute in (report eon_program (one "_dSIS_super_compact_pairwise_")).
Eval vm_compute in (dead_report eon_program (one "_dSIS_super_compact_pairwise_")).
Eval vm_compute in (report eon_program (one "SIS_super_compact_pairwise_from_graph")).
Eval vm_compute in (dead_report eon_program (one "SIS_super_compact_pairwise_from_graph")).
Eval vm_compute in (report eon_program (one "SIS_heterogeneous_meanfield")).
Eval vm_compute in (dead_report eon_program (one "SIS_heterogeneous_meanfield")).
Eval vm_compute in (report eon_program (one "SIS_individual_based")).
Eval vm_compute in (dead_report eon_program (one "SIS_individual_based")).
Eval vm_compute in (report eon_program (one "SIR_compact_effective_degree")).
Eval vm_compute in (dead_report eon_program (one "SIR_compact_effective_degree")).
Eval vm_compute in (report eon_program (one "EBCM")).
Eval vm_compute in (dead_report eon_program (one "EBCM")).
Eval vm_compute in (report eon_program (one "SIR_compact_pairwise_from_graph")).
Eval vm_compute in (dead_report eon_program (one "SIR_compact_pairwise_from_graph")).
Eval vm_compute in (report eon_program (one "_dSIR_heterogeneous_meanfield_")).
Eval vm_compute in (dead_report eon_program (one "_dSIR_heterogeneous_meanfield_")).
Eval vm_compute in (report eon_program (one "_get_rate_functions_")).
Eval vm_compute in (dead_report eon_program (one "_get_rate_functions_")).
Eval vm_compute in (report eon_program (one "_SIR_pair_based_initialize_node_data")).
Eval vm_compute in (dead_report eon_program (one "_SIR_pair_based_initialize_node_data")).
Eval vm_compute in (report eon_program (one "get_PGFDPrime")).
Eval vm_compute in (dead_report eon_program (one "get_PGFDPrime")).
Eval vm_compute in (report eon_program (one "SIS_heterogeneous_meanfield_from_graph")).
Eval vm_compute in (dead_report eon_program (one "SIS_heterogeneous_meanfield_from_graph")).
Eval vm_compute in (report eon_program (one "directed_percolate_network")).
Eval vm_compute in (dead_report eon_program (one "directed_percolate_network")).
Eval vm_compute in (report eon_program (one "EBCM_discrete_uniform_introduction")).
Eval vm_compute in (dead_report eon_program (one "EBCM_discrete_uniform_introduction")).
Eval vm_compute in (report eon_program (one "SIS_compact_effective_degree")).
Eval vm_compute in (dead_report eon_program (one "SIS_compact_effective_degree")).
Eval vm_compute in (report eon_program (one "_simple_test_transmission_")).
Eval vm_compute in (dead_report eon_program (one "_simple_test_transmission_")).
