From Coq Require Import List NArith String.
Require Import EoNV.Model.Effects.
Require Import EoNV.Gen.Effects.
Import ListNotations.
Open Scope string_scope.
Definition one (n : string) := filter (fun fd => String.eqb (fn_name fd) n) eon_program.
Eval vm_compute in (report eon_program (one "_dSIS_pair_based_")).
Eval vm_compute in (dead_report eon_program (one "_dSIS_pair_based_")).
Eval vm_compute in (report eon_program (one "fast_nonMarkov_SIS")).
Eval vm_compute in (dead_report eon_program (one "fast_nonMarkov_SIS")).
Eval vm_compute in (report eon_program (one "basic_discrete_SIS")).
Eval vm_compute in (dead_report eon_program (one "basic_discrete_SIS")).
Eval vm_compute in (report eon_program (one "_transform_to_node_history_")).
Eval vm_compute in (dead_report eon_program (one "_transform_to_node_history_")).
Eval vm_compute in (report eon_program (one "Attack_rate_discrete_from_graph")).
Eval vm_compute in (dead_report eon_program (one "Attack_rate_discrete_from_graph")).
Eval vm_compute in (report eon_program (one "_SIR_pair_based_initialize_edge_data")).
Eval vm_compute in (dead_report eon_program (one "_SIR_pair_based_initialize_edge_data")).
Eval vm_compute in (report eon_program (one "SIS_homogeneous_pairwise_from_graph")).
Eval vm_compute in (dead_report eon_program (one "SIS_homogeneous_pairwise_from_graph")).
Eval vm_compute in (report eon_program (one "SIS_super_compact_pairwise_from_graph")).
Eval vm_compute in (dead_report eon_program (one "SIS_super_compact_pairwise_from_graph")).
Eval vm_compute in (report eon_program (one "Attack_rate_discrete")).
Eval vm_compute in (dead_report eon_program (one "Attack_rate_discrete")).
Eval vm_compute in (report eon_program (one "get_Pnk")).
Eval vm_compute in (dead_report eon_program (one "get_Pnk")).
Eval vm_compute in (report eon_program (one "SIR_homogeneous_pairwise")).
Eval vm_compute in (dead_report eon_program (one "SIR_homogeneous_pairwise")).
Eval vm_compute in (report eon_program (one "Epi_Prob_cts_time")).
Eval vm_compute in (dead_report eon_program (one "Epi_Prob_cts_time")).
Eval vm_compute in (report eon_program (one "SIR_pair_based_pure_IC")).
Eval vm_compute in (dead_report eon_program (one "SIR_pair_based_pure_IC")).
Eval vm_compute in (report eon_program (one "_dSIS_individual_based_")).
Eval vm_compute in (dead_report eon_program (one "_dSIS_individual_based_")).
Eval vm_compute in (report eon_program (one "_get_rate_functions_")).
Eval vm_compute in (dead_report eon_program (one "_get_rate_functions_")).
Eval vm_compute in (report eon_program (one "_SIR_pair_based_initialize_node_data")).
Eval vm_compute in (dead_report eon_program (one "_SIR_pair_based_initialize_node_data")).
Eval vm_compute in (report eon_program (one "get_PGF")).
Eval vm_compute in (dead_report eon_program (one "get_PGF")).
Eval vm_compute in (report eon_program (one "estimate_SIR_prob_size")).
Eval vm_compute in (dead_report eon_program (one "estimate_SIR_prob_size")).
Eval vm_compute in (report eon_program (one "percolate_network")).
Eval vm_compute in (dead_report eon_program (one "percolate_network")).
Eval vm_compute in (report eon_program (one "EBCM_discrete_uniform_introduction")).
Eval vm_compute in (dead_report eon_program (one "EBCM_discrete_uniform_introduction")).
Eval vm_compute in (report eon_program (one "SIS_compact_effective_degree")).
Eval vm_compute in (dead_report eon_program (one "SIS_compact_effective_degree")).
Eval vm_compute in (report eon_program (one "_simple_test_transmission_")).
Eval vm_compute in (dead_report eon_program (one "_simple_test_transmission_")).
