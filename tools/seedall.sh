#!/bin/bash
# usage: tools/seedall.sh <results.tsv> <seedroot>... : for every <seedroot>/Cnn.out run tools/seedtest.sh with that property's own check
# (sequentially: the translator-backed checks regenerate coq/Gen from EON_REPO, so two must not run at once); one line per seed.
R=$1; shift; : > $R; nosync=
for S in "$@"; do for d in $S/C*.out; do
  id=$(basename $d .out)
  out=$(TIER=${TIER:-quick} SEEDTEST_NOSYNC=$nosync /verif/tools/seedtest.sh $d $id 2>&1); nosync=1
  db=$(echo "$out" | grep -o 'demo on unchanged: exit=[0-9]*' | grep -o '[0-9]*$'); da=$(echo "$out" | grep -o 'demo on changed:   exit=[0-9]*' | grep -o '[0-9]*$')
  ck=$(echo "$out" | grep "^check $id:" | sed 's/ ::.*//')
  what=$(echo "$out" | grep "^check $id:" | sed 's/.*:: *//' | cut -c1-260)
  printf '%s\t%s\t%s\t%s\t%s\t%s\n' "$(basename $S)" "$id" "$db" "$da" "$ck" "$what" >> $R
done; done
