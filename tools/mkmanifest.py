#!/usr/bin/env python3
"""Regenerates /verif/MANIFEST.json from the table below (one entry per claimed property)."""
import json, os
V = os.path.dirname(os.path.dirname(os.path.abspath(__file__)))
props = [json.loads(l) for l in open(os.path.join(V, 'properties.jsonl'))]

TB = ("Trusted: Coq 8.16.1 kernel; extraction (ExtrOcamlBasic only) + ocaml/driver.ml glue; the Python harness; "
      "Python/numpy/networkx semantics mirrored by the hand-written model; exact rational arithmetic in theorems vs IEEE floats in the code "
      "(dyadic inputs, tolerance 1e-9). Axioms: see evidence print_assumptions. ")

CLAIMS = {
 'C20': dict(
   text="Machine-checked theorems (coq/Props/C20.v, closed under the global context) over an executable model of subsample/get_time_shift/"
        "get_Pk/PGF helpers/get_Pnk/estimate_R0 for ALL grids, series and degree sequences; the model is tied to /repo on every run by "
        "running the extracted model and the implementation on the same inputs (exhaustive small grids + random) and by evaluating the L0 "
        "specification on the implementation's outputs.",
   design='DESIGN.md section 4, C20', technique='Coq proof over hand-written model + extracted-model/implementation correspondence',
   note=TB + "Derivative clause is proved as: psi' and psi'' are the formal derivatives of the polynomial psi, and the formal derivative satisfies the difference-quotient identity (algebraic statement over Q, no real analysis)."),
 'C16': dict(
   text="Machine-checked theorems (coq/Props/C16.v) over an executable model of _ListDict_ written as the code is (item list, position map, "
        "weight map, tracked maximum and its miscount, running total): invariant after EVERY history of insert/update/remove with non-negative "
        "weights, refinement to a finite map, closed-form law of the rejection loop for every fuel (selection probability exactly weight/total, "
        "zero weights never selected). Tie: white-box differential test of the class against the extracted model on enumerated and random "
        "operation histories, including accept thresholds of choose_random.",
   design='DESIGN.md section 4, C16', technique='Coq proof (invariant by induction over histories, refinement, closed-form law) + extracted-model/implementation correspondence',
   note=TB + "random.choice uniform and random.random uniform on [0,1) are assumed (DESIGN 2.3). Float drift of _total_weight is outside the exact model."),
}

checks = []
for p in props:
    pid = p['id']
    if pid in CLAIMS:
        c = CLAIMS[pid]
        checks.append({
            'property_id': pid,
            'quick_cmd': './check %s --tier quick' % pid,
            'thorough_cmd': './check %s --tier thorough' % pid,
            'evidence_file': '/verif/evidence/%s.json' % pid,
            'replay_cmd_template': './check replay {path}',
            'engine': 'coq+harness',
            'level_claimed': {'category': 'proof', 'text': c['text'], 'design_ref': c['design']},
            'level_note': c['note'],
            'technique': c['technique'],
        })
na = [{'property_id': p['id'], 'reason': 'no check registered yet in this round of the build (planned: see DESIGN.md section 4); not a claim that the technique cannot apply'}
      for p in props if p['id'] not in CLAIMS]
m = {
 'version': 1,
 'setup_cmd': 'cd /verif && ./check setup',
 'hooks': {'guard': 'EON_VERIF',
           'enable': 'no source hooks are needed: the checks substitute EoN.simulation.random / numpy.random from outside and import EoN from /repo (PYTHONPATH); checks export EON_VERIF=1',
           'baseline_off_cmd': 'cd /repo && /venv/bin/python -m pytest -ra -q -p no:cacheprovider --timeout=900 --continue-on-collection-errors',
           'source_commits': [], 'add_only': True},
 'engines': [
   {'name': 'coq', 'path': '/verif/coq', 'serves_properties': sorted(CLAIMS), 'kind_free_text': 'Coq 8.16.1 development: hand-written executable models (Model/), proofs (Proofs/), property theorems (Props/), translator output (Gen/), extraction (Extract/)'},
   {'name': 'coq+harness', 'path': '/verif/check', 'serves_properties': sorted(CLAIMS), 'kind_free_text': 'per-property check: rebuild theorems, run extracted model and /repo working tree on the same inputs, search for failing inputs, write evidence'}],
 'checks': checks,
 'not_applicable': na,
 'notes': 'Technique family: machine-checked proof in Coq. See DESIGN.md. Known findings / fixed defects: known_findings.json.',
}
json.dump(m, open(os.path.join(V, 'MANIFEST.json'), 'w'), indent=1)
print('claimed:', sorted(CLAIMS), 'unclaimed:', len(na))
