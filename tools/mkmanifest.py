#!/usr/bin/env python3
"""Regenerates /verif/MANIFEST.json from the table below (one entry per claimed property)."""
import json, os
V = os.path.dirname(os.path.dirname(os.path.abspath(__file__)))
props = [json.loads(l) for l in open(os.path.join(V, 'properties.jsonl'))]

TB = ("Trusted: Coq 8.16.1 kernel; extraction (ExtrOcamlBasic only) + ocaml/driver.ml glue; the Python harness; "
      "Python/numpy/networkx semantics mirrored by the hand-written model; exact rational arithmetic in theorems vs IEEE floats in the code "
      "(dyadic inputs, tolerance 1e-9). Axioms: see evidence print_assumptions. ")

import ast, glob
CLAIMS = {}
for f in sorted(glob.glob(os.path.join(V, 'harness', 'c[0-9][0-9].py'))):
    pid = os.path.basename(f)[:-3].upper()
    tree = ast.parse(open(f).read())
    more = ''
    for node in tree.body:
        if isinstance(node, ast.Assign) and len(node.targets) == 1 and getattr(node.targets[0], 'id', None) == 'CLAIM_MORE':
            more = ' ' + eval(compile(ast.Expression(node.value), f, 'eval'), {})
    for node in tree.body:
        if isinstance(node, ast.Assign) and len(node.targets) == 1 and getattr(node.targets[0], 'id', None) == 'CLAIM':
            c = eval(compile(ast.Expression(node.value), f, 'eval'), {'dict': dict})
            if c.get('claimed', True):
                CLAIMS[pid] = dict(text=c['text'] + more, design=c.get('design', 'DESIGN.md section 4, ' + pid), technique=c['technique'],
                                   note=TB + c.get('note', ''), level=c.get('level', 'proof'))

NA_REASONS = {}
try:
    NA_REASONS = json.load(open(os.path.join(V, 'tools', 'not_applicable.json')))
except FileNotFoundError:
    pass

checks = []
for p in props:
    pid = p['id']
    if pid in CLAIMS:
        c = CLAIMS[pid]
        checks.append({
            'property_id': pid,
            'quick_cmd': './check %s --tier quick' % pid,
            'thorough_cmd': './check %s --tier thorough' % pid,
            'evidence_file': '/verif/evidence/%s.json' % pid,
            'replay_cmd_template': './check replay {path}',
            'engine': 'coq+harness',
            'level_claimed': {'category': c['level'], 'text': c['text'], 'design_ref': c['design']},
            'level_note': c['note'],
            'technique': c['technique'],
        })
na = [{'property_id': p['id'], 'reason': NA_REASONS.get(p['id'], 'no check registered yet at this point of the build (planned: see DESIGN.md section 4); not a claim that the technique cannot apply')}
      for p in props if p['id'] not in CLAIMS]
m = {
 'version': 1,
 'setup_cmd': 'cd /verif && ./check setup',
 'hooks': {'guard': 'EON_VERIF',
           'enable': 'no source hooks are needed: the checks substitute EoN.simulation.random / numpy.random from outside and import EoN from /repo (PYTHONPATH); checks export EON_VERIF=1',
           'baseline_off_cmd': 'cd /repo && /venv/bin/python -m pytest -ra -q -p no:cacheprovider --timeout=900 --continue-on-collection-errors',
           'source_commits': [], 'add_only': True},
 'engines': [
   {'name': 'coq', 'path': '/verif/coq', 'serves_properties': sorted(CLAIMS), 'kind_free_text': 'Coq 8.16.1 development: hand-written executable models (Model/), proofs (Proofs/), property theorems (Props/), translator output (Gen/), extraction (Extract/)'},
   {'name': 'coq+harness', 'path': '/verif/check', 'serves_properties': sorted(CLAIMS), 'kind_free_text': 'per-property check: rebuild theorems, run extracted model and /repo working tree on the same inputs, search for failing inputs, write evidence'}],
 'checks': checks,
 'not_applicable': na,
 'notes': 'Technique family: machine-checked proof in Coq. See DESIGN.md. Known findings / fixed defects: known_findings.json.',
}
json.dump(m, open(os.path.join(V, 'MANIFEST.json'), 'w'), indent=1)
print('claimed:', sorted(CLAIMS), 'unclaimed:', len(na))
