#!/bin/bash
# Independent re-check (coqchk) of every compiled property file and everything it depends on; one coqchk process per
# Props file (8 at a time).  Writes /verif/coqchk_report.txt: per file the exit status and the axiom summary coqchk prints.
# Run it on a quiet tree (no concurrent make in /verif/coq): ./check setup && tools/coqchk_all.sh
cd "$(dirname "$0")/../coq" || exit 2
T=$(mktemp -d)
ls Props/*.v | sed 's/\.v$//; s/\//./; s/^/EoNV./' | xargs -P8 -I{} sh -c "timeout 3000 coqchk -silent -o -Q . EoNV {} > $T/{}.log 2>&1; echo \"{} rc=\$?\" >> $T/rc.txt"
R=../coqchk_report.txt
{ echo "coqchk $(coqchk -v 2>&1 | head -1) on $(date -u +%F) ; one process per Props file"; sort $T/rc.txt
  echo; echo "Axiom summaries (identical lines collapsed):"
  for f in $T/EoNV.*.log; do sed -n '/CONTEXT SUMMARY/,$p' $f | tr -s ' \n' ' '; echo; done | sort | uniq -c; } > $R
bad=$(grep -c -v "rc=0" $T/rc.txt); rm -rf $T; cat $R | tail -8; exit $bad
