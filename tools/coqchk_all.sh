#!/bin/bash
# independent re-check of every compiled property file (and everything it depends on) with coqchk; prints the axioms relied on
cd /verif/coq || exit 2
mods=$(ls Props/*.v | sed 's/\.v$//; s/\//./; s/^/EoNV./' | tr '\n' ' ')
timeout 7200 coqchk -silent -o -Q . EoNV $mods 2>&1 | tail -40
