#!/usr/bin/env python3
"""tools/keepseed.py <seed out dir> <name> <caught-by ...> : file a confirmed seeded change under /verif/seeded/<name>/"""
import sys, os, json, shutil
src, name = sys.argv[1], sys.argv[2]
caught = [a for a in sys.argv[3:] if not a.startswith('--')]
opts = dict(a[2:].split('=', 1) for a in sys.argv[3:] if a.startswith('--'))
V = os.path.dirname(os.path.dirname(os.path.abspath(__file__)))
dst = os.path.join(V, 'seeded', name); os.makedirs(dst, exist_ok=True)
shutil.copy(os.path.join(src, 'patch.diff'), dst)
if os.path.exists(os.path.join(src, 'demo.py')): shutil.copy(os.path.join(src, 'demo.py'), dst)
m = json.load(open(os.path.join(src, 'meta.json')))
suite = open(os.path.join(src, 'suite.txt')).read().strip() if os.path.exists(os.path.join(src, 'suite.txt')) else 'not run'
meta = {'property': m.get('property'), 'breaks': m.get('summary'), 'needs_to_manifest': m.get('needs'), 'files': m.get('files'),
        'author': 'independent sub-agent given only the property text and a scratch worktree of /repo',
        'confirmed_by_coordinator': {
            'applies_to': 'the /repo HEAD at the time of seeding (git apply in a scratch worktree)',
            'demo': 'demo.py exits 0 (PASS) on the unchanged tree and 1 (FAIL) with the patch (tools/seedtest.sh)',
            'pinned_suite_with_patch': suite,
            'caught_by': caught,
            'first_report_of_the_check': opts.get('what'),
            'history': opts.get('history', 'caught by the check as it stood when the change was made'),
            'how_run': 'tools/seedtest.sh <dir> <checks>: scratch worktree of /repo + patch, EON_REPO=<worktree> ./check <id> --tier quick'}}
json.dump(meta, open(os.path.join(dst, 'meta.json'), 'w'), indent=1)
print('kept', name, caught, suite)
