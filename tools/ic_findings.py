#!/venv/bin/python
"""Writes proposed_known_findings.json (C06 / C14 ODE half) and, with --install, merges the
proposals into the worktree's known_findings.json for local testing."""
import json, os, sys
V = os.path.dirname(os.path.dirname(os.path.abspath(__file__)))
F = []
def add(prop, key, what):
    F.append({'property': prop, 'key': key, 'what': what})

def c06(entry, clause, quals, what):
    for q in (quals or ['']):
        add('C06', 'C06/%s/%s%s' % (entry, clause, '/' + q if q else ''), what)

# defects that remain on the current /repo (the others were repaired by fix: commits and are in known_findings.json 'fixed')
for ent in ('SIS_super_compact_pairwise', 'SIS_super_compact_pairwise_from_graph'):
    c06(ent, 'nan', ['regular=1'], "%s returns NaN on a regular graph: the closure divides by <k^2>-<k>^2 = 0 (analytic.py:3583)" % ent)
for ent in ('SIS_effective_degree', 'SIS_effective_degree_from_graph'):
    c06(ent, 'nan', ['SS0=1', 'SI0=1'], "%s returns NaN when the initial state has no S-S pair (tau*ISS*(..)/SS with SS=0) or no S-I pair (ISI/SI with SI=0): 0/0 in _dSIS_effective_degree_ (analytic.py:3942-3945)" % ent)
for ent in ('SIR_effective_degree', 'SIR_effective_degree_from_graph'):
    c06(ent, 'nan', ['SS0=1'], "%s returns NaN when the initial state has no S-S pair: tau*ISS*(..)/SS with SS=0 in _dSIR_effective_degree_ (analytic.py:3993)" % ent)
for ent in ('SIR_compact_effective_degree', 'SIR_compact_effective_degree_from_graph'):
    c06(ent, 'nan', ['SS0=1/SI0=1'], "%s returns NaN when no susceptible node has a non-recovered neighbour: effectiveI = SI/Skappa.dot(kappas) = 0/0 (analytic.py:4356)" % ent)
c06('EBCM_discrete_from_graph', 'nan', ['iso=1/p1=1'],
    "EBCM_discrete_from_graph returns NaN for a graph with isolated nodes once theta reaches 0 (p=1): the degree-0 term k*Pk*Sk0*x**(k-1) is 0*inf (analytic.py:5107)")
c06('Attack_rate_cts_time_from_graph', 'accept:ZeroDivisionError', ['iso=1/gamma0=1'],
    "Attack_rate_cts_time_from_graph raises ZeroDivisionError for a graph with isolated nodes and gamma=0: psihatPrime evaluates k*Pk*Sk0*x**(k-1) at x=omega=0 for k=0 (analytic.py:4862)")
c06('Attack_rate_discrete_from_graph', 'range', ['ic=default/p1=1'],
    "Attack_rate_discrete_from_graph(G, p=1) without rho / initial sets returns NaN: Epi_Prob_discrete starts at alpha = 1-p = 0 and get_PGFPrime evaluates "
    "ks*x**(ks-1) at x=0 for k=0, 0*inf (analytic.py:364)")
for cl in ('range', 'accept:ZeroDivisionError'):
    c06('Attack_rate_discrete_from_graph', cl, ['iso=1/p1=1'],
        "Attack_rate_discrete_from_graph with p=1 on a graph with isolated nodes returns NaN (or raises ZeroDivisionError): once theta reaches 0 the degree-0 term "
        "k*Pk[k]*Sk0[k]*x**(k-1) of psihatPrime is 0*inf (analytic.py:4739)")
extra = os.path.join(V, 'tools', 'ic_findings_c14.json')
if os.path.exists(extra):
    F += json.load(open(extra))
json.dump({'findings': F}, open(os.path.join(V, 'proposed_known_findings.json'), 'w'), indent=1)
if os.path.isdir(os.path.join(V, 'proposed')):
    json.dump({'findings': F}, open(os.path.join(V, 'proposed', 'ic.json'), 'w'), indent=1)
print(len(F), 'proposed findings')
if '--install' in sys.argv:
    kp = os.path.join(V, 'known_findings.json')
    k = json.load(open(kp))
    have = {(f['property'], f['key']) for f in k['findings']}
    k['findings'] += [f for f in F if (f['property'], f['key']) not in have]
    json.dump(k, open(kp, 'w'), indent=1)
    print('installed into', kp)
