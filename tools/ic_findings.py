#!/venv/bin/python
"""Writes proposed_known_findings.json (C06 / C14 ODE half) and, with --install, merges the
proposals into the worktree's known_findings.json for local testing."""
import json, os, sys
V = os.path.dirname(os.path.dirname(os.path.abspath(__file__)))
F = []
def add(prop, key, what):
    F.append({'property': prop, 'key': key, 'what': what})

def c06(entry, clause, quals, what):
    for q in (quals or ['']):
        add('C06', 'C06/%s/%s%s' % (entry, clause, '/' + q if q else ''), what)

c06('SIR_homogeneous_meanfield_from_graph', 'accept:TypeError', ['ic=rho', 'ic=default'],
    "SIR_homogeneous_meanfield_from_graph(G,tau,gamma,rho=..) / no initial condition raises TypeError: len(initial_recovereds) with initial_recovereds=None (analytic.py:1925)")
c06('SIR_individual_based_pure_IC', 'accept:EoNError', None,
    "SIR_individual_based_pure_IC always raises EoNError('cannot define both rho and Y0'): it forwards (nodelist, X0, Y0, tmin, ..) positionally into SIR_individual_based(G,tau,gamma,rho,Y0,X0,nodelist,..) (analytic.py:932)")
for ent in ('SIS_individual_based', 'SIS_individual_based_pure_IC'):
    c06(ent, 'accept:IndexError', ['labels=ints', 'labels=str', 'labels=tup'],
        "%s crashes (IndexError) on graphs whose nodes are not 0..N-1: _dSIS_individual_based_ indexes the state vector by node label, Y[node], Y[nbr] (analytic.py:482)" % ent)
    for cl in ('bounds:S', 'bounds:I', 'nan', 'conserve'):
        c06(ent, cl, ['labels=perm'],
            "%s integrates a wrong system when the integer labels are a permutation of 0..N-1 (Y[node] instead of Y[index of node], analytic.py:482): S/I leave [0,N]" % ent)
for ent in ('SIS_pair_based', 'SIR_pair_based'):
    c06(ent, 'accept:TypeError', ['nodelist=1'],
        "%s(G,tau,gamma,rho=..,nodelist=L) raises TypeError len(None): Y0 is only built from rho when nodelist is None (analytic.py:1238/1543)" % ent)
for ent in ('SIS_pair_based_pure_IC', 'SIR_pair_based_pure_IC', 'SIS_pair_based', 'SIR_pair_based'):
    for cl in ('row0:XY', 'row0:XX'):
        c06(ent, cl, ['nodelist=1'],
            "%s with a nodelist that is not list(G.nodes()): the initial pair arrays XY0/XX0 are masked with nx.adjacency_matrix(G) in G.nodes() order instead of nodelist order, so row 0 of XY/XX is not P(X_i)P(Y_j) on the edges (analytic.py:1264/1567)" % ent)
for ent in ('SIS_heterogeneous_pairwise', 'SIS_heterogeneous_pairwise_from_graph'):
    c06(ent, 'accept:NameError', ['full=1'], "%s(return_full_data=True) raises NameError: name 'kcaount' is not defined (analytic.py:2930)" % ent)
for ent in ('SIR_heterogeneous_pairwise', 'SIR_heterogeneous_pairwise_from_graph'):
    for cl in ('row0:SkIl', 'row0:SkSl'):
        c06(ent, cl, ['full=1'], "%s(return_full_data=True) returns SkSl in the slot named SkIl and vice versa: the solution is unpacked in the opposite order to the packing of X0 (analytic.py:3043-3044)" % ent)
for ent in ('SIR_compact_pairwise', 'SIR_compact_pairwise_from_graph'):
    for cl in ('row0:SS', 'row0:SI'):
        c06(ent, cl, ['full=1'], "%s(return_full_data=True) returns the SI series as SS and the SS series as SI: X0 packs (SS0,SI0,R0) but the result is unpacked as SI,SS,R (analytic.py:3406)" % ent)
c06('SIS_super_compact_pairwise_from_graph', 'row0:II', ['ic=rho', 'ic=default'],
    "SIS_super_compact_pairwise_from_graph, rho path: II0 = <k>N - SX0 = rho*<k>N instead of rho^2*<k>N, so SS+2SI+II != <k>N at tmin (analytic.py:3769)")
for ent in ('SIS_super_compact_pairwise', 'SIS_super_compact_pairwise_from_graph'):
    c06(ent, 'nan', ['regular=1'], "%s returns NaN on a regular graph: the closure divides by <k^2>-<k>^2 = 0 (analytic.py:3577)" % ent)
for cl in ('row0:S', 'row0:R', 'row0:S_si'):
    c06('SIR_effective_degree_from_graph', cl, ['ic=sets+R'],
        "SIR_effective_degree_from_graph does not pass initial_recovereds to _initialize_node_status_: initially recovered nodes are reported as susceptible at tmin (analytic.py:4278)")
for ent in ('SIS_effective_degree', 'SIS_effective_degree_from_graph'):
    c06(ent, 'nan', ['SS0=1', 'SI0=1'], "%s returns NaN when the initial state has no S-S pair (tau*ISS*(..)/SS with SS=0) or no S-I pair (ISI/SI with SI=0): 0/0 in _dSIS_effective_degree_ (analytic.py:3936-3939)" % ent)
for ent in ('SIR_effective_degree', 'SIR_effective_degree_from_graph'):
    c06(ent, 'nan', ['SS0=1'], "%s returns NaN when the initial state has no S-S pair: tau*ISS*(..)/SS with SS=0 in _dSIR_effective_degree_ (analytic.py:3987)" % ent)
for ent in ('SIR_compact_effective_degree', 'SIR_compact_effective_degree_from_graph'):
    c06(ent, 'nan', ['SS0=1/SI0=1'], "%s returns NaN when no susceptible node has a non-recovered neighbour: effectiveI = SI/Skappa.dot(kappas) = 0/0 (analytic.py:4350)" % ent)
c06('SIR_heterogeneous_meanfield_from_graph', 'layout', ['full=1'],
    "SIR_heterogeneous_meanfield_from_graph ignores return_full_data (forwards return_full_data=False): returns times,S,I,R where times,Sk,Ik,Rk is documented (analytic.py:2669)")
for ent in ('EBCM_pref_mix_discrete', 'EBCM_pref_mix_discrete_from_graph'):
    c06(ent, 'times', None, "%s ignores tmin: times start at 0 and run to tmax (analytic.py:5520, 5528)" % ent)
c06('Attack_rate_discrete_from_graph', 'accept:NameError', None, "Attack_rate_discrete_from_graph always raises NameError: name 'PhiS0' is not defined (analytic.py:4791)")
for ent in ('Attack_rate_discrete_from_graph', 'Attack_rate_cts_time_from_graph'):
    c06(ent, 'accept:UnboundLocalError', None, "%s with explicit initial sets raises UnboundLocalError/NameError: Sk0 (and SR) are used before assignment (analytic.py:4778/4900)" % ent)
for ent in ('SIS_homogeneous_pairwise_from_graph', 'SIR_homogeneous_pairwise_from_graph', 'SIS_homogeneous_pairwise', 'SIR_homogeneous_pairwise'):
    c06(ent, 'accept:EoNError', ['II0=1'],
        "%s rejects a consistent state without I-I (and, SIR, without R) pairs by floating-point rounding: SS0+2*SI0 > n*N with n = sum(k*Pk[k]) a rounded float, e.g. 14 > 13.999999999999998 (analytic.py:2032/2122)" % ent)

c06('EBCM_discrete_from_graph', 'nan', ['iso=1/p1=1'],
    "EBCM_discrete_from_graph returns NaN for a graph with isolated nodes once theta reaches 0 (p=1): the degree-0 term k*Pk*Sk0*x**(k-1) is 0*inf (analytic.py:5097)")
c06('Attack_rate_cts_time_from_graph', 'accept:ZeroDivisionError', ['iso=1/gamma0=1'],
    "Attack_rate_cts_time_from_graph raises ZeroDivisionError for a graph with isolated nodes and gamma=0: psihatPrime evaluates k*Pk*Sk0*x**(k-1) at x=omega=0 for k=0 (analytic.py:4852)")

def c14(entry, what, quals, text):
    for q in quals:
        add('C14', 'C14/%s/%s/%s' % (entry, what, q), text)

for ent in ('SIS_individual_based', 'SIS_individual_based_pure_IC'):
    c14(ent, 'raises', ['labels=str', 'labels=tup', 'labels=ints'],
        "%s works on nodes 0..N-1 but raises IndexError on string / tuple / arbitrary integer labels: _dSIS_individual_based_ indexes the state vector by node label (analytic.py:482)" % ent)
    c14(ent, 'differs', ['labels=perm'],
        "%s gives a different (wrong) solution when the integer labels are permuted: Y[node], Y[nbr] instead of the position in nodelist (analytic.py:482)" % ent)
for ent in ('SIS_pair_based', 'SIR_pair_based', 'SIS_pair_based_pure_IC', 'SIR_pair_based_pure_IC'):
    c14(ent, 'differs', ['labels=str+weight-attr', 'labels=perm+weight-attr', 'labels=tup+weight-attr'],
        "%s changes its result when the edges carry an unrelated attribute named 'weight': nx.adjacency_matrix(G) picks it up and scales the initial pair probabilities XY0, XX0 (analytic.py:1264/1567)" % ent)
for ent in ('SIS_pair_based_pure_IC', 'SIR_pair_based_pure_IC', 'SIS_pair_based', 'SIR_pair_based'):
    c14(ent, 'differs', ['nodelist=1'],
        "%s with an explicit nodelist depends on the insertion order of the nodes: nx.adjacency_matrix(G) is in G.nodes() order, the state vectors in nodelist order (analytic.py:1264/1567)" % ent)

extra = os.path.join(V, 'tools', 'ic_findings_c14.json')
if os.path.exists(extra):
    F += json.load(open(extra))
json.dump({'findings': F}, open(os.path.join(V, 'proposed_known_findings.json'), 'w'), indent=1)
print(len(F), 'proposed findings')
if '--install' in sys.argv:
    kp = os.path.join(V, 'known_findings.json')
    k = json.load(open(kp))
    have = {(f['property'], f['key']) for f in k['findings']}
    k['findings'] += [f for f in F if (f['property'], f['key']) not in have]
    json.dump(k, open(kp, 'w'), indent=1)
    print('installed into', kp)
