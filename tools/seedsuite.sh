#!/bin/bash
# usage: tools/seedsuite.sh <id> : runs the pinned test suite on /repo HEAD + /tmp/seed/<id>.out/patch.diff in a scratch worktree;
# writes /tmp/seed/<id>.out/suite.txt with 'SUITE ok' when all 32 stable tests still pass
id=$1; S=${SEEDROOT:-/tmp/seed}; W=/tmp/mw/suite_$(basename $S)_$id
git -C /repo worktree add -q --detach $W HEAD || exit 2
git -C $W apply $S/$id.out/patch.diff || { echo "PATCH FAILS" > $S/$id.out/suite.txt; git -C /repo worktree remove --force $W; exit 3; }
(cd $W && timeout 6000 /venv/bin/python -m pytest -q -p no:cacheprovider --timeout=1800 --continue-on-collection-errors --junitxml=$S/$id.out/junit.xml > $S/$id.out/pytest.log 2>&1)
python3 - $id $S <<'PY'
import json, sys, xml.etree.ElementTree as ET
id=sys.argv[1]
b=json.load(open('/root/.vp/BASELINE.json'))
t=ET.parse(sys.argv[2]+'/%s.out/junit.xml'%id).getroot()
passed={'%s::%s'%(tc.get('classname'),tc.get('name')) for tc in t.iter('testcase') if not any(c.tag in('failure','error','skipped') for c in tc)}
sp=set(b['stable_pass'])
open(sys.argv[2]+'/%s.out/suite.txt'%id,'w').write(('SUITE ok: all %d stable tests pass\n'%len(sp)) if sp<=passed else 'SUITE BROKEN: %r\n'%sorted(sp-passed))
PY
git -C /repo worktree remove --force $W
cat $S/$id.out/suite.txt
