#!/bin/bash
# usage: tools/seedtest.sh <seed-dir containing patch.diff [demo.py]> <check ids...>
# applies the patch to a scratch worktree of /repo HEAD, runs the demo before/after and the given checks with EON_REPO
set -u
# The checks regenerate coq/Gen/*.v and rewrite evidence/*.json from EON_REPO, so seeded trees are never checked from /verif
# itself: a clone of /verif (committed state) is used, created and brought up to date here.
V=${VERIF:-/root/w/seedrun}
if [ "$V" = /verif ]; then echo "refusing to run seeded checks inside /verif"; exit 2; fi
if [ ! -d $V/.git ]; then git clone -q /verif $V || exit 2; fi
if [ -z "${SEEDTEST_NOSYNC:-}" ]; then
  (cd $V && git checkout -q . && git pull -q origin main >/dev/null 2>&1; cur=$(git rev-parse HEAD); [ "$(cat .setup_done 2>/dev/null)" = "$cur" ] || { ./check setup >/dev/null 2>&1 && echo $cur > .setup_done; })
fi
SD=$1; shift
W=/tmp/mw/seed_$$_$(basename $SD)
git -C /repo worktree add -q --detach $W HEAD || exit 2
trap "git -C /repo worktree remove --force $W >/dev/null 2>&1" EXIT
if [ -f $SD/demo.py ]; then
  (cd $W && PYTHONPATH=$W timeout 600 /venv/bin/python $SD/demo.py >/tmp/mw/demo_before.txt 2>&1); echo "demo on unchanged: exit=$? $(tail -1 /tmp/mw/demo_before.txt | cut -c1-120)"
fi
git -C $W apply $SD/patch.diff || { echo "PATCH DOES NOT APPLY"; exit 3; }
if [ -f $SD/demo.py ]; then
  (cd $W && PYTHONPATH=$W timeout 600 /venv/bin/python $SD/demo.py >/tmp/mw/demo_after.txt 2>&1); echo "demo on changed:   exit=$? $(tail -1 /tmp/mw/demo_after.txt | cut -c1-120)"
fi
# as it will be used: MANIFEST.setup_cmd runs on the changed tree first (regenerates EVERY translator output from it and rebuilds),
# so that no generated file left over from another tree can make a check fail or pass for the wrong reason
(cd $V && git checkout -q coq/Gen 2>/dev/null; EON_REPO=$W timeout 3000 ./check setup > /tmp/mw/seed_setup_$(basename $SD).txt 2>&1); echo "setup on changed tree: $(tail -1 /tmp/mw/seed_setup_$(basename $SD).txt)"
for c in "$@"; do
  out=/tmp/mw/seed_$(basename $SD)_$c.txt
  (cd $V && EON_REPO=$W timeout 1500 ./check $c --tier ${TIER:-quick} > $out 2>&1); rc=$?
  echo "check $c: exit=$rc violations=$(grep -c '^VIOLATION' $out) nofail=$(grep -c 'no-failing-input-found' $out) :: $(grep 'what:' $out | head -2 | cut -c1-220 | tr '\n' '|')"
done
