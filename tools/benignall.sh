#!/bin/bash
# usage: tools/benignall.sh <results.tsv> <dir with p<i>.diff> : behaviour-preserving patches of /repo -> every check (quick) in the clone;
# a check that exits 1 on such a patch is an alarm on code where the property holds (allowed only as "... no-failing-input-found")
R=$1; D=$2; V=/root/w/seedrun; : > $R
(cd $V && git checkout -q . && git pull -q origin main >/dev/null 2>&1 && ./check setup >/dev/null 2>&1)
for p in $(ls $D/p*.diff | sort -V); do
  name=$(basename $p .diff); W=/tmp/mw/benign_$name
  git -C /repo worktree add -q --detach $W HEAD || continue
  if ! git -C $W apply $p 2>/dev/null; then printf '%s\tPATCH-DOES-NOT-APPLY\n' $name >> $R; git -C /repo worktree remove --force $W; continue; fi
  for i in $(seq -w 1 20); do
    c=C$i; out=/tmp/mw/benign_${name}_$c.txt
    (cd $V && EON_REPO=$W timeout 1500 ./check $c --tier quick > $out 2>&1); rc=$?
    [ $rc -ne 0 ] && printf '%s\t%s\trc=%s\tviol=%s\tnofail=%s\t%s\n' $name $c $rc "$(grep -c '^VIOLATION' $out)" "$(grep -c 'no-failing-input-found' $out)" "$(grep 'what:' $out | head -1 | cut -c1-220)" >> $R
  done
  printf '%s\tdone\n' $name >> $R
  git -C /repo worktree remove --force $W
done
(cd $V && git checkout -q . && ./check setup >/dev/null 2>&1)
