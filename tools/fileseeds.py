#!/usr/bin/env python3
"""tools/fileseeds.py <names.txt> <seedall.tsv>... : file every confirmed seeded change under /verif/seeded/ (calls keepseed.py)"""
import sys, subprocess, os
names = [l.split() for l in open(sys.argv[1]) if l.strip()]
res = {}
for f in sys.argv[2:]:
    for l in open(f):
        c = l.rstrip('\n').split('\t')
        if len(c) >= 6: res[(c[0], c[1])] = c
HIST = {
 ('seed','C08'): 'missed at first: the tree-exactness oracle was extended with multi-seed, weighted cases; caught since',
 ('seed','C18'): 'missed at first: the battery got explicit initial sets with initially recovered nodes, three seeds, tmin != 0; caught since',
 ('seed','C19'): 'caught statically at first (no-failing-input-found); the dynamic battery got explicit XY0/XX0 arrays and now shows the modified argument',
 ('seed2','C09'): 'missed at first (needs a self-loop): every 4th case of the continuous-time simulators now has self-loops; caught since',
 ('seed2','C16'): 'missed at first (needs total weight < 1e-7): 15% of the histories now use weights scaled by 2^-40; caught since',
 ('seed2','C19'): 'caught statically at first (no-failing-input-found); the dynamic battery now passes float Ks arrays and shows the modified argument',
 ('seed3','C07'): 'missed at first (needs tmin != 0): the curve oracles now use tmin in {0, 2.5, -1.5, 3}; caught since',
 ('seed3','C18'): 'missed at first (needs full data + several simultaneous infectors; entropy taken at import): dense full-data discrete cases and a static entropy-source scan added; caught since by both',
}
for r, pid, name in names:
    c = res.get((r, pid))
    if not c: print('no result for', r, pid); continue
    ok = c[2] == '0' and c[3] == '1' and 'exit=1' in c[4]
    if not ok: print('NOT CONFIRMED', c[:5]); continue
    args = ['python3', os.path.join(os.path.dirname(__file__), 'keepseed.py'), '/tmp/%s/%s.out' % (r, pid), name, pid, '--what=' + c[5][:400]]
    if (r, pid) in HIST: args.append('--history=' + HIST[(r, pid)])
    subprocess.run(args, check=True)
