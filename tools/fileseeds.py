#!/usr/bin/env python3
"""tools/fileseeds.py <names.txt> <seedall.tsv>... : file every confirmed seeded change under /verif/seeded/ (calls keepseed.py)"""
import sys, subprocess, os
names = [l.split() for l in open(sys.argv[1]) if l.strip()]
res = {}
for f in sys.argv[2:]:
    for l in open(f):
        c = l.rstrip('\n').split('\t')
        if len(c) >= 6: res[(c[0], c[1])] = c
HIST = {
 ('seed9','C04'): 'missed at first (needs an IC dict with entries for nodes that are not in G): every other complex-contagion case now carries such entries; caught since',
 ('seed9','C09'): 'missed at first (needs a node with a falsy label, 0 or the empty string, as a source): a label kind with the nodes 0 and the empty string was added to every simulator generator; caught since by the transmission_tree comparison',
 ('seed9','C13'): 'missed at first (needs an event at exactly t = 0.0, a falsy time): every tenth case now starts at minus the first duration of its first initial node; caught since',
 ('seed9','C14'): 'missed at first (needs a single index case handed over as a bare str/tuple-labelled node): a single index case is now passed as the bare node in every other such case; caught since',
 ('seed9','C16'): 'missed at first (needs a removal through random_removal() followed by a re-insertion): half of the removals of the class-vs-model histories now go through random_removal(); caught since',
 ('seed9','C19'): 'caught statically at first: the induced-transition graph of the dynamic battery now carries a weight_label, and the snapshot shows the popped attribute',
 ('seed8','C04'): 'missed at first (needs a self-loop on a node infected by a neighbour; C09 had such graphs, C04 did not): a seeded self-loop battery for the four Markovian simulators was added to C04; caught since',
 ('seed8','C16'): 'missed at first (needs a thousand rejections in a row): a persistent-rejection probe (a candidate whose accept test fails in every round is never returned) runs on every 12th history; caught since',
 ('seed8','C19'): 'missed at first (needs degree pairs that never share an edge, so that a read of the defaultdict rows of get_Pnk inserts zeros): the test graph of the dynamic battery got a pendant node; caught since by the snapshot of Pnk (C06/C07 caught the KeyError it causes with plain-dict rows all along)',
 ('seed6','C02'): 'the check crashed at first (the trace oracle indexed a shorter candidate list): an oracle that cannot follow the trace is now a broken correspondence on that input; the run goes on and reports the missing row with a replay',
 ('seed6','C06'): 'missed at first (needs initial_infecteds as a numpy array or empty): the ODE initial sets are now handed over as list / tuple / set / ndarray / dict keys; caught since',
 ('seed6','C14'): 'caught, then missed after an unrelated change of the RNG stream, i.e. by luck: the ODE half now runs twice as many cases, two thirds with explicit initial sets; caught under seeds 0-3',
 ('seed6','C20'): 'missed at first (needs the same graph object measured twice with an edge moved in between): same-object rewiring between calls added; caught since',
 ('seed7','C06'): 'missed at first (needs explicit initial sets and a susceptible node of degree 0, generated in about 1% of the cases): a third of the ODE graphs now have a forced isolated node; caught since',
 ('seed7','C08'): 'missed at first (needs tmin != 0 in the tau = 0 / gamma = 0 identities): they now run at tmin in {0, 2.5, -1.5}; caught since',
 ('seed7','C20'): 'missed at first (needs the caller to refill the dict a PGF closure was built from): closures are now re-evaluated after a refill; caught since',
 ('seed5','C07'): 'missed at first (needs an explicit nodelist in another order than G.nodes()): the node-level models now always get a rotated, reversed nodelist (a random choice that included the default order was caught under one RNG seed only); caught since under seeds 0-3',
 ('seed5','C08'): 'missed at first (needs phiS0 = 0 passed explicitly): explicit zero phiS0 / phiR0 cases added; caught since',
 ('seed5','C10'): 'caught only as a broken correspondence at first (no-failing-input-found): node subsets are now handed to summary() as list / tuple / iterator / generator / dict keys and the oracle shows the dropped node',
 ('seed5','C14'): 'missed at first (needs a same-instant tie): tie-rich integer rule tables for fast_nonMarkov_SIS added after 3600 such cases agreed across presentations on the unchanged code; caught since (also by C13 all along)',
 ('seed5','C15'): 'missed at first (the biased choice lives in _ListDict_, which C16 caught all along): the selection-law oracle on the class now also runs inside C15, C01, C02, C03; caught since',
 ('seed5','C17'): 'missed at first (needs a directed contact network and a rule that fires on the reverse of a one-way arc): the rule now also fires on pairs that are no contact of G; caught since',
 ('seed5','C18'): 'caught statically at first (regenerated loop table, no-failing-input-found): a directed simple-contagion case with string labels joined the battery and now shows the hash-seed dependence',
 ('seed5','C20'): 'missed at first (needs degree != number of distinct neighbours): self-loop, MultiGraph and DiGraph inputs added; caught since',
 ('seed','C08'): 'missed at first: the tree-exactness oracle was extended with multi-seed, weighted cases; caught since',
 ('seed','C18'): 'missed at first: the battery got explicit initial sets with initially recovered nodes, three seeds, tmin != 0; caught since',
 ('seed','C19'): 'caught statically at first (no-failing-input-found); the dynamic battery got explicit XY0/XX0 arrays and now shows the modified argument',
 ('seed2','C09'): 'missed at first (needs a self-loop): every 4th case of the continuous-time simulators now has self-loops; caught since',
 ('seed2','C16'): 'missed at first (needs total weight < 1e-7): 15% of the histories now use weights scaled by 2^-40; caught since',
 ('seed2','C19'): 'caught statically at first (no-failing-input-found); the dynamic battery now passes float Ks arrays and shows the modified argument',
 ('seed3','C07'): 'missed at first (needs tmin != 0): the curve oracles now use tmin in {0, 2.5, -1.5, 3}; caught since',
 ('seed3','C18'): 'missed at first (needs full data + several simultaneous infectors; entropy taken at import): dense full-data discrete cases and a static entropy-source scan added; caught since by both',
}
for r, pid, name in names:
    c = res.get((r, pid))
    if not c: print('no result for', r, pid); continue
    ok = c[2] == '0' and c[3] == '1' and 'exit=1' in c[4]
    if not ok: print('NOT CONFIRMED', c[:5]); continue
    args = ['python3', os.path.join(os.path.dirname(__file__), 'keepseed.py'), '/tmp/%s/%s.out' % (r, pid), name, pid, '--what=' + c[5][:400]]
    if (r, pid) in HIST: args.append('--history=' + HIST[(r, pid)])
    subprocess.run(args, check=True)
